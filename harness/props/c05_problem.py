"""C05 helper — tiny real ``Ptychography`` problems, call programs, checkpoint arms and the
event-trace recorder used by harness/props/c05.py.

Nothing in /repo is changed: the recorder wraps three methods *at class level for the duration
of a ``with Trace():`` block only* (``OptimizerMixin.reconnect_optimizer_to_parameters``,
``Ptychography._record_iter``, ``Ptychography.reset_recon``, ``PtychographyOpt.step_optimizers``)
and always calls the real method.

A configuration (``cfg``, small JSON) describes
  geometry      scan, roi, seed, num_probes, obj_type, num_slices, learn_tilt
  program       list of reconstruct() calls: {"n": iterations, "opt": {...}|None, "sched": {...}|None,
                "cons": {...}|None, "reset": bool}
  checkpoint    store ("zip"|"dir"), raw (save_raw_data), split = [call index j, offset]
  pin           integer: every arm executes ``p.rng = pin`` before the first call after the
                split (deterministic full-batch order) | None: batch order left to the library
"""
import contextlib
import copy
import hashlib
import io
import os
import shutil
import struct
import warnings

from . import ptycho_tiny as pt

KEYS = ("object", "probe", "dataset")


def f2b(x):
    return struct.unpack("<Q", struct.pack("<d", float(x)))[0]


# ---------------------------------------------------------------------------------------
# construction

def build(cfg):
    """a preprocessed real Ptychography (CPU, float32/complex64, verbose 0)"""
    from quantem.diffractive_imaging.detector_models import DetectorPixelated
    from quantem.diffractive_imaging.object_models import ObjectPixelated
    from quantem.diffractive_imaging.probe_models import ProbePixelated
    from quantem.diffractive_imaging.ptychography import Ptychography
    scan, roi = tuple(cfg["scan"]), tuple(cfg["roi"])
    nprobe = cfg.get("num_probes", 1)
    nsl = cfg.get("num_slices", 1)
    rs = cfg.get("rng_seed", 7)
    pd = make_dataset(cfg)
    om = ObjectPixelated.from_uniform(num_slices=nsl, obj_type=cfg.get("obj_type", "complex"),
                                      slice_thicknesses=(2.0 if nsl > 1 else 1), rng=rs)
    with warnings.catch_warnings():
        warnings.simplefilter("ignore")
        pm = ProbePixelated.from_array(num_probes=nprobe, probe_array=pt.tiny_probe(roi, num_probes=nprobe),
                                       probe_params={"energy": pt.PROBE_ENERGY, "semiangle_cutoff": 20},
                                       learn_probe_tilt=bool(cfg.get("learn_tilt", False)), rng=rs)
        p = Ptychography.from_models(dset=pd, obj_model=om, probe_model=pm, detector_model=DetectorPixelated(),
                                     rng=rs, verbose=0)
        p.preprocess(obj_padding_px=(0, 0), plot_rotation=False, plot_com=False)
    return p


def make_dataset(cfg):
    if cfg.get("raw_path"):
        # the raw 4D data live in a file (AutoSerialize zip) and the dataset remembers its path, so that
        # Ptychography.from_file can reload and re-preprocess it by itself (save_raw_data=False route)
        from quantem.core.datastructures.dataset4dstem import Dataset4dstem
        from quantem.diffractive_imaging.dataset_models import PtychographyDatasetRaster
        r0, r1 = tuple(cfg["roi"])
        inten, _ = pt.tiny_intensities(tuple(cfg["scan"]), tuple(cfg["roi"]), cfg.get("seed", 0), 2)
        ds = Dataset4dstem.from_array(array=inten, sampling=(2.0, 2.0, 1.0 / r0, 1.0 / r1), units=("A", "A", "A^-1", "A^-1"))
        if not os.path.exists(cfg["raw_path"]):
            ds.save(cfg["raw_path"], mode="o")
        ds.file_path = cfg["raw_path"]
        pd = PtychographyDatasetRaster.from_dataset4dstem(ds, verbose=0, learn_descan=cfg.get("learn_descan", True),
                                                          learn_scan_positions=cfg.get("learn_positions", True))
        pd.preprocess(com_fit_function="constant", plot_rotation=False, plot_com=False, probe_energy=pt.PROBE_ENERGY,
                      force_com_rotation=0, force_com_transpose=False, vectorized=True)
        return pd
    return pt.make_dataset(tuple(cfg["scan"]), tuple(cfg["roi"]), cfg.get("seed", 0), 2,
                           learn_descan=cfg.get("learn_descan", True),
                           learn_scan_positions=cfg.get("learn_positions", True))


def mat(v):
    """materialise tagged numbers of a configuration: {"num": value, "kind": k} -> the same value as a Python int /
    float, np.float32 / np.float64 / np.int64 scalar or 0-d array (values are chosen exactly representable in every
    kind); containers are rebuilt, everything else is returned as it is"""
    import numpy as np
    if isinstance(v, dict):
        if set(v) == {"num", "kind"}:
            x, k = v["num"], v["kind"]
            return {"int": lambda: int(x), "float": lambda: float(x), "f32": lambda: np.float32(x), "f64": lambda: np.float64(x),
                    "i64": lambda: np.int64(x), "arr0": lambda: np.array(float(x)), "arr0f32": lambda: np.array(x, dtype=np.float32)}[k]()
        return {k: mat(x) for k, x in v.items()}
    if isinstance(v, list):
        return [mat(x) for x in v]
    return v


def num_of(v):
    """plain value of a possibly tagged number"""
    return v["num"] if isinstance(v, dict) and set(v) == {"num", "kind"} else v


def call_kwargs(call):
    """fresh kwargs for one reconstruct() call (reconstruct mutates the dicts it is given)"""
    kw = {"num_iters": int(call["n"])}
    if call.get("reset"):
        kw["reset"] = True
    if call.get("opt") is not None:
        kw["optimizer_params"] = mat(copy.deepcopy(call["opt"]))
        for v in kw["optimizer_params"].values():
            if isinstance(v, dict) and "type" in v:
                v["type"] = _opt_type(v["type"])
    if call.get("sched") is not None:
        kw["scheduler_params"] = mat(copy.deepcopy(call["sched"]))
    if call.get("cons") is not None:
        kw["constraints"] = mat(copy.deepcopy(call["cons"]))
    if call.get("loss_type"):
        kw["loss_type"] = call["loss_type"]
    if call.get("snap") is not None:
        kw["store_snapshots"] = True
        kw["store_snapshots_every"] = int(call["snap"])
    if call.get("opt_list") is not None:       # the list / tuple form of optimizer_params: default type and learning rate
        kw["optimizer_params"] = list(call["opt_list"]) if call.get("opt_list_form") != "tuple" else tuple(call["opt_list"])
    if call.get("autograd") is not None:
        kw["autograd"] = bool(call["autograd"])
    if call.get("device") is not None:
        kw["device"] = call["device"]
    if "batch" in call:                        # batch_size as given (None, the number of positions, or an invalid value)
        kw["batch_size"] = call["batch"]
    return kw


def _opt_type(v):
    """`"class:SGD"` stands for the optimizer class itself (the `isinstance(opt_type, type)` branch of set_optimizer)"""
    import torch
    if isinstance(v, str) and v.startswith("class:"):
        return getattr(torch.optim, v[len("class:"):])
    return v


def split_program(calls, j, off):
    """split call j after `off` of its iterations: (calls up to the checkpoint, calls after it).
    The continuation of a split call carries no optimizer/scheduler arguments (they would
    re-create the optimizers), only the iteration count and loss type."""
    c = calls[j]
    first = dict(c)
    first["n"] = off
    cont = {"n": c["n"] - off}
    if c.get("loss_type") and not c.get("bad"):       # (a rejected call runs no iteration: nothing of it is continued)
        cont["loss_type"] = c["loss_type"]
    if c.get("autograd") is not None:
        cont["autograd"] = c["autograd"]
    return calls[:j] + [first], [cont] + calls[j + 1:]


def run_calls(p, calls, pin=None, log=None, after=None):
    """execute the call program on `p`.  A call marked ``"bad"`` is one the generator expects the library to reject:
    its exception is caught (the caller carries on with the next call) and its class name is appended to `log`
    (None for a call that returned).  Exceptions of unmarked calls propagate.  `after(p, call, outcome)` is called
    after every call (session-state observation)."""
    with warnings.catch_warnings():
        warnings.simplefilter("ignore")
        with pt.no_gc(), contextlib.redirect_stdout(io.StringIO()):
            for i, c in enumerate(calls):
                if pin is not None and i == 0:
                    p.rng = int(pin)
                outcome = None
                if c.get("bad"):
                    try:
                        p.reconstruct(**call_kwargs(c))
                    except Exception as e:      # rejected call: the object stays in use
                        outcome = type(e).__name__
                else:
                    p.reconstruct(**call_kwargs(c))
                if log is not None:
                    log.append(outcome)
                if after is not None:
                    after(p, c, outcome)
    return p


# ---------------------------------------------------------------------------------------
# observation

def jsonable(v):
    import numpy as np
    import torch
    if isinstance(v, dict):
        return {str(k): jsonable(x) for k, x in sorted(v.items(), key=lambda kv: str(kv[0]))}
    if isinstance(v, (list, tuple)):
        return [jsonable(x) for x in v]
    if isinstance(v, torch.Tensor):
        v = v.detach().cpu().numpy()
    if isinstance(v, np.ndarray):
        return {"nd": list(v.shape), "sha": hashlib.sha1(np.ascontiguousarray(v).tobytes()).hexdigest()[:12]}
    if isinstance(v, (np.floating, np.integer, np.bool_)):
        return v.item()
    if isinstance(v, (bool, int, float, str)) or v is None:
        return v
    return repr(type(v))


def observe(p):
    """what the property compares (observe_at): numpy copies"""
    import numpy as np
    return {
        "num_iters": int(p.num_iters),
        "iter_losses": np.array(p.iter_losses, dtype=np.float64).copy(),
        "iter_lrs": {k: np.array(v, dtype=np.float64).copy() for k, v in p.iter_lrs.items()},
        "obj": np.array(p.obj).copy(),
        "probe": np.array(p.probe).copy(),
        "constraints": jsonable(p.constraints),
        "snapshots": [[int(sn["iteration"]), jsonable(np.asarray(sn["obj"]))["sha"], jsonable(np.asarray(sn["probe"]))["sha"]]
                      for sn in p.snapshots],
    }


def training_objects(p):
    """id -> name of every object that carries mutable training state: the four model objects, every
    nn.Parameter, the optimizers, their state tensors, the schedulers.  (The objects stay alive through
    `p`, so ids are unique while `p` lives.)"""
    import torch
    out = {}
    for name in ("obj_model", "probe_model", "dset", "detector_model"):
        m = getattr(p, name)
        out[id(m)] = name
        if isinstance(m, torch.nn.Module):
            for n, t in m.named_parameters(recurse=True):
                out[id(t)] = f"{name}.{n}"
        o = getattr(m, "_optimizer", None)
        if o is not None:
            out[id(o)] = f"{name}._optimizer"
            for st in o.state.values():
                for kk, v in st.items():
                    if isinstance(v, torch.Tensor):
                        out[id(v)] = f"{name}._optimizer.state.{kk}"
        sc = getattr(m, "_scheduler", None)
        if sc is not None:
            out[id(sc)] = f"{name}._scheduler"
    return out


def shared_state(a, b):
    """names (in `a`) of training-state objects that `a` and `b` both hold (`is`-identity)"""
    ta, tb = training_objects(a), training_objects(b)
    return sorted(ta[i] for i in set(ta) & set(tb))


def rel_dev(a, b):
    """max |a-b| / max(1e-30, max|b|)   (inf when shapes differ)"""
    import numpy as np
    a, b = np.asarray(a), np.asarray(b)
    if a.shape != b.shape:
        return float("inf")
    if a.size == 0:
        return 0.0
    if not (np.all(np.isfinite(a)) and np.all(np.isfinite(b))):
        return 0.0 if np.array_equal(a, b, equal_nan=True) else float("inf")
    return float(np.max(np.abs(a - b)) / max(1e-30, float(np.max(np.abs(b)))))


def compare(got, ref):
    """per-observable deviation of `got` from `ref`: dict name -> relative deviation
    (discrete observables: 0.0 equal / inf different)"""
    out = {"num_iters": 0.0 if got["num_iters"] == ref["num_iters"] else float("inf"),
           "constraints": 0.0 if got["constraints"] == ref["constraints"] else float("inf"),
           # snapshots: reports-level comparisons use the digests (exact); run-level ones the iterations recorded
           "snapshots": 0.0 if [x[0] for x in got.get("snapshots", [])] == [x[0] for x in ref.get("snapshots", [])] else float("inf"),
           "snapshots_exact": 0.0 if got.get("snapshots", []) == ref.get("snapshots", []) else float("inf"),
           "iter_losses": rel_dev(got["iter_losses"], ref["iter_losses"]),
           "obj": rel_dev(got["obj"], ref["obj"]),
           "probe": rel_dev(got["probe"], ref["probe"])}
    if sorted(got["iter_lrs"]) != sorted(ref["iter_lrs"]):
        out["iter_lrs"] = float("inf")
    else:
        out["iter_lrs"] = max([rel_dev(got["iter_lrs"][k], ref["iter_lrs"][k]) for k in ref["iter_lrs"]] or [0.0])
    return out


def summary(o):
    """small JSON view of an observation for replay files"""
    import numpy as np
    return {"num_iters": o["num_iters"], "iter_losses": [float(x) for x in o["iter_losses"]],
            "iter_lrs": {k: [float(x) for x in v] for k, v in sorted(o["iter_lrs"].items())},
            "obj_abs_sum": float(np.abs(o["obj"]).sum()), "probe_abs_sum": float(np.abs(o["probe"]).sum()),
            "constraints": o["constraints"], "snapshot_iterations": [x[0] for x in o.get("snapshots", [])]}


# ---------------------------------------------------------------------------------------
# optimizer state view

def model_of(p, key):
    return {"object": p.obj_model, "probe": p.probe_model, "dataset": p.dset}[key]


def opt_params(m):
    import torch
    ps = m.get_optimization_parameters()
    if isinstance(ps, torch.Tensor):
        ps = [ps]
    return list(ps)


def _tok(state_entry):
    """content fingerprint of one optimizer state entry (moments + step)"""
    import torch
    h = hashlib.sha1()
    for k in sorted(state_entry):
        v = state_entry[k]
        h.update(k.encode())
        if isinstance(v, torch.Tensor):
            h.update(v.detach().cpu().contiguous().numpy().tobytes())
        else:
            h.update(repr(v).encode())
    return h.hexdigest()[:16]


def _step_of(state_entry):
    s = state_entry.get("step")
    if s is None:
        return None
    return int(float(s))


def opt_view(m):
    """(params as identity list, [(param index | None, fingerprint, step)] in state order, lr) or None"""
    o = m.optimizer
    if o is None:
        return None
    cur = opt_params(m)
    idx = {id(t): i for i, t in enumerate(cur)}
    st = [(idx.get(id(k)), _tok(s), _step_of(s)) for k, s in o.state.items()]
    return {"n": len(cur), "state": st, "lr": float(o.param_groups[0]["lr"]),
            "group_ok": [idx.get(id(t)) for t in o.param_groups[0]["params"]] == list(range(len(cur)))}


def all_opt_views(p):
    return {k: opt_view(model_of(p, k)) for k in KEYS}


def session_view(p, prev_ids=None):
    """discrete session state after a call, per model: optimizer / scheduler present, optimizer bound to the live
    parameters (its param group is, by identity and in order, what get_optimization_parameters() returns now),
    a stored optimizer / scheduler configuration, per parameter whether it is still the tensor object it was at `prev_ids`;
    plus iteration count and LR-history keys/lengths.  Returns (view, ids)."""
    view, ids = {}, {}
    for k in KEYS:
        m = model_of(p, k)
        cur = [id(t) for t in opt_params(m)]
        ids[k] = cur
        o = m.optimizer
        view[k] = {"opt": o is not None,
                   "sched": m.scheduler is not None,
                   "bound": None if o is None else [id(t) for g in o.param_groups for t in g["params"]] == cur,
                   "sched_bound": None if m.scheduler is None else (m.scheduler.optimizer is o),
                   "cfg": bool(m.optimizer_params), "scfg": bool(m.scheduler_params),
                   "nstate": None if o is None else len(o.state),
                   "kept": None if prev_ids is None else [i in set(prev_ids[k]) for i in cur]}
    view["num_iters"] = int(p.num_iters)
    view["lrs"] = {k: len(v) for k, v in sorted(p._iter_lrs.items())}
    view["_keep"] = [t for k in KEYS for t in opt_params(model_of(p, k))]     # keeps the tensors alive: ids stay unique
    return view, ids


# ---------------------------------------------------------------------------------------
# event trace

class Trace:
    """records, while active, every reconnect_optimizer_to_parameters call (parameter identity
    lists and optimizer-state key order before/after), every _record_iter call (the optimizers
    dict it saw, the loss, the resulting LR history), every reset_recon, and for every optimizer
    step which parameters carried a gradient."""

    def __init__(self):
        self.events = []

    def __enter__(self):
        import torch
        from quantem.core.ml.optimizer_mixin import OptimizerMixin
        from quantem.diffractive_imaging.ptychography import Ptychography
        from quantem.diffractive_imaging.ptychography_opt import PtychographyOpt
        tr = self
        self._saved = [(OptimizerMixin, "reconnect_optimizer_to_parameters", OptimizerMixin.__dict__["reconnect_optimizer_to_parameters"]),
                       (Ptychography, "_record_iter", Ptychography.__dict__["_record_iter"]),
                       (Ptychography, "reset_recon", Ptychography.__dict__["reset_recon"]),
                       (PtychographyOpt, "step_optimizers", PtychographyOpt.__dict__["step_optimizers"])]
        real_reconnect, real_record, real_reset, real_step = (s[2] for s in self._saved)
        # growth 6: zero_grad_all (the live-gradient model, Model/CheckpointLive.lean); resolved defensively — a version
        # that inlines it into the loop simply produces no "zero" events and the live stream reports nothing
        real_zero = PtychographyOpt.__dict__.get("zero_grad_all")

        def grad_masks(p):
            out = {}
            for k in KEYS:
                try:        # (a dataset with learn_descan = learn_scan_positions = False has no optimizable parameters: raises)
                    out[k] = [t.grad is not None for t in opt_params(model_of(p, k))]
                except Exception:
                    out[k] = []
            return out

        def zero(p, *a, **kw):
            before = grad_masks(p)
            has = {k: bool(model_of(p, k).has_optimizer()) for k in KEYS}
            out = real_zero(p, *a, **kw)
            tr.events.append({"ev": "zero", "obj": id(p), "before": before, "has": has, "after": grad_masks(p)})
            return out

        def reconnect(m, *a, **kw):
            o = m._optimizer
            if o is None:
                return real_reconnect(m, *a, **kw)
            cur = [t for t in opt_params(m) if isinstance(t, torch.Tensor) and t.is_leaf]
            ids = {id(t): i for i, t in enumerate(cur)}
            keep = list(cur)     # keep every tensor alive so ids stay unique

            def pid(t):
                if id(t) not in ids:
                    ids[id(t)] = len(ids)
                    keep.append(t)
                return ids[id(t)]
            old_params = [pid(t) for g in o.param_groups for t in g["params"]]
            toks = {}

            def tk(s):
                return toks.setdefault(_tok(s), len(toks))
            before = [[pid(k), tk(s)] for k, s in o.state.items()]
            lr0 = float(o.param_groups[0]["lr"])
            real_reconnect(m, *a, **kw)
            o2 = m._optimizer
            ev = {"ev": "reconnect", "cls": type(m).__name__, "cur": list(range(len(cur))), "old_params": old_params,
                  "before": before, "obj": id(m)}
            if o2 is None:
                ev["after"] = None
            else:
                ev["after"] = [[pid(k), tk(s)] for k, s in o2.state.items()]
                ev["group_after"] = [pid(t) for g in o2.param_groups for t in g["params"]]
                ev["lr_kept"] = float(o2.param_groups[0]["lr"]) == lr0
                ev["sched_bound"] = (m._scheduler is None) or (m._scheduler.optimizer is o2)
            tr.events.append(ev)

        def record(p, loss, *a, **kw):
            opts = [[k, f2b(o.param_groups[0]["lr"])] for k, o in p.optimizers.items()]
            real_record(p, loss, *a, **kw)
            tr.events.append({"ev": "record", "obj": id(p), "opts": opts, "loss": f2b(loss),
                              "lrs": {k: [f2b(x) for x in v] for k, v in p._iter_lrs.items()},
                              "nloss": len(p._iter_losses)})

        def reset(p, *a, **k):         # (arguments a later version may add are passed through)
            try:
                real_reset(p, *a, **k)
            finally:        # the histories are cleared before the optimizers are rebuilt (which may be rejected)
                tr.events.append({"ev": "reset", "obj": id(p)})

        def step(p, *a, **kw):
            masks = {}
            for k in p.optimizer_params.keys():
                m = model_of(p, k)
                if m.has_optimizer():
                    masks[k] = [t.grad is not None for t in opt_params(m)]
            allm = grad_masks(p)
            real_step(p, *a, **kw)
            tr.events.append({"ev": "step", "obj": id(p), "grads": masks, "all_grads": allm})

        OptimizerMixin.reconnect_optimizer_to_parameters = reconnect
        Ptychography._record_iter = record
        Ptychography.reset_recon = reset
        PtychographyOpt.step_optimizers = step
        if real_zero is not None:
            self._saved.append((PtychographyOpt, "zero_grad_all", real_zero))
            PtychographyOpt.zero_grad_all = zero
        return self

    def __exit__(self, *exc):
        for cls, name, fn in self._saved:
            setattr(cls, name, fn)
        return False

    def of(self, p, kinds=None):
        """events of one Ptychography object (and of its three models)"""
        ids = {id(p), id(p.obj_model), id(p.probe_model), id(p.dset)}
        return [e for e in self.events if e["obj"] in ids and (kinds is None or e["ev"] in kinds)]


# ---------------------------------------------------------------------------------------
# checkpoint arms

def ckpt_path(scratch, store, tag):
    path = os.path.join(scratch, f"c05_{tag}" + (".zip" if store == "zip" else ""))
    if os.path.isdir(path):
        shutil.rmtree(path)
    elif os.path.exists(path):
        os.remove(path)
    return path


def save_and_reload(p, cfg, scratch, tag="ck"):
    """Ptychography.save → Ptychography.from_file. Returns (reloaded, attribute names before,
    attribute names after, path)"""
    from quantem.diffractive_imaging.ptychography import Ptychography
    path = ckpt_path(scratch, cfg["store"], tag)
    names_before = sorted(p.__dict__.keys())
    with warnings.catch_warnings():
        warnings.simplefilter("ignore")
        with contextlib.redirect_stdout(io.StringIO()):
            p.save(path, mode="o", store=cfg["store"], save_raw_data=bool(cfg["raw"]), verbose=0)
            if cfg["raw"] or cfg.get("raw_path"):
                # with the data in the file, or reloading them from their own file
                r = Ptychography.from_file(path, device=cfg["load_device"]) if cfg.get("load_device") else Ptychography.from_file(path)
            else:
                r = Ptychography.from_file(path, dset=make_dataset(cfg))
    names_after = sorted(r.__dict__.keys())
    if os.path.isdir(path):
        shutil.rmtree(path)
    elif os.path.exists(path):
        os.remove(path)
    return r, names_before, names_after


def clone(p):
    """Ptychography.clone(); also reports which path it took (deepcopy or save/reload fallback)"""
    used = {"fallback": False}
    real_save = type(p).save

    def spy(self, *a, **k):
        used["fallback"] = True
        return real_save(self, *a, **k)
    type(p).save = spy
    try:
        with warnings.catch_warnings():
            warnings.simplefilter("ignore")
            with contextlib.redirect_stdout(io.StringIO()):
                c = p.clone()
    finally:
        type(p).save = real_save
    return c, ("fallback" if used["fallback"] else "deepcopy")
