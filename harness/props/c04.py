"""C04 — direct ptychography: batch-invariant, linear, exact on analytic cases.

Correspondence: Model/DirectPtycho.lean (streaming skeleton of `reconstruct`, bf-context index
mapping, alias table, parallax closed form) vs the real
quantem.diffractive_imaging.direct_ptychography.DirectPtychography, on small synthetic problems.
The per-pixel Fourier factors K_i (kernel on a unit spectrum), P_i = |gamma_i|^2, the first-pass
numerators G_i and the probe (hence W) are captured from single-pixel calls of the real
`_return_kernel_contributions` made by the real `reconstruct(max_batch_size=1)`.

Property predicates evaluated on the implementation (the failing-input search): batch invariance
for every b in 1..num_bf, linearity in the stack, sub-mask recombination (single-pass kernels,
aperture weights), the two parallax limits against independent closed forms, alias table,
repeat-call determinism, and call histories on one object: EVERY call of a history (plain, per-call overrides of
rotation / every aberration coefficient drawn from {random, exactly 0.0, 0, -0.0, stored, negated}, fixed-value grid
search) must equal a fresh object's single call with the same effective hyper-parameters, the effective
hyper-parameters must be the requested ones (exact stream vs the model state machine + independent tracker), and the
parallax closed form is evaluated with the REQUESTED aberrations and rotation.  Input representations: every input
(stack, construction mask, sub-mask, samplings, energy, rotation, coefficients, aperture, upsampling, batch size, ...)
is redrawn over container x dtype x memory layout with unchanged logical value and must give the canonical-form result.

Growth round 5: `pregenerate()` re-translates the kernel formulas from the source (harness/translator/dpkernel2lean.py ->
Generated/DirectKernel.lean; Model/DirectKernel.lean maps them over mask pixels and the scan grid).  Streams `kernel-full`
(probe, aperture weights, envelope, parallax gradient / sign, per-pixel kernel factor and power: translated formula vs real
code) and `reconstruct-full` (the WHOLE reconstruction from stack + mask pixels + hyper-parameters, no captured factor).
Histories contain REJECTED / RAISING calls (bad arguments; faults injected into `_return_kernel_contributions` / `ifft2`
part-way; RuntimeError, MemoryError, KeyboardInterrupt) which the caller catches before carrying on, masks are handed over
through one buffer object rewritten in place (torch or NumPy), overrides through one dict object, complementary sub-masks and
repeated fixed-value grid searches occur inside one history; recombination streams both parts through one buffer.

Growth round 6: `c04_r6.py` adds FIXED blocks (rotation in every quadrant / beyond +-pi / 2 pi, H != W detectors and scans in both
orientations, NumPy roll oracle at every multiple of pi/2, two live objects with different hyper-parameters, full / sub /
complement / checkerboard half-set masks on one object, num_bf = 289, max_batch_size at and beyond every threshold);
Model/DirectHalfsets.lean + Props/C04Ext.lean model and prove the half-set split; Lemmas/DirectPtychoDft.lean + Props/C04Dft.lean
prove the two DFT identities for the executable list DFT, so the two parallax limits are theorems about the whole model."""
import math

import numpy as np

from . import c04_r6

LEVEL = "proof"
EXTRA_PROPS = ["QuantemModel.Props.C04Ext",   # growth 6: half-set masks (split + bf context + recombination, end to end)
               "QuantemModel.Props.C04Dft",   # growth 6: the two DFT identities for the list DFT; parallax limits, whole reconstruction
               "QuantemModel.Props.C04Ext2"]  # growth 6: recombination (incl. half-sets) for the whole model, no FFT hypothesis
MANIFEST_ENTRY = {
    "category": "proof",
    "text": "Lean 4 theorems over an executable model of DirectPtychography.reconstruct: the streaming skeleton "
            "(_preprocess, Fourier tiling, batched first pass, power accumulation, obf/mf normalisation, second pass, real/W, sum) "
            "AND the kernel formulas, which are re-translated from the current source on every run "
            "(harness/translator/dpkernel2lean.py -> Generated/DirectKernel.lean: aperture, aberration surface and gradients, "
            "evaluate_probe, gamma_factor, polar coordinates, passive rotation, the five branches of _return_kernel_contributions, "
            "Butterworth envelope, parallax gradient / sign, aperture weight, obf / mf normalisation of reconstruct). Proved: "
            "batch_invariant / batch_size_invariant (any partition of the BF pixels, any order, all five kernels, both passes; any "
            "carrier whose + is a commutative monoid) and batch_invariant_full for the whole model incl. the formulas; linear_in_stack "
            "(+ _dft, _full); submask_recombine (+ _full: the whole model incl. formulas and aperture weights); mapping_correct / mapping_in_range; alias table; generated = spec for probe, gamma "
            "factor and the five kernel branches; kernel_linear_in_spectrum (every kernel = spectrum x factor on a unit spectrum); "
            "|gamma|^2 power >= 0; normalisation >= 1e-8 > 0 and = the skeleton's normOf; Butterworth with None / 0 cut-offs = 1; "
            "aperture weight = aperture^2 in [0,1], independent of the aberrations; parallax_gradient_eq_shift (grad_k of the "
            "translated source = 2 pi x the geometric shift, for every pixel / rotation / first-order coefficient set; 0 without "
            "coefficients); prlx_operator_is_translation; the two parallax limits per pixel for the whole model "
            "(parallax_shift_full_partial / parallax_zero_full_partial) given two DFT identities; growth 6: BOTH DFT identities are "
            "proved for the model's executable FFT pair Fourier.dft (fft_pair_inverts: ifft2(fft2 x) = x from roots-of-unity "
            "orthogonality; fft_pair_comb_identity: DC bin = N*mean and u x u tiled spectrum = spectrum of the zero-interleaved image, "
            "all u, r, c), hence parallax_zero_full (corrected_bf of the whole model, any valid schedule = sum of the mean-subtracted "
            "virtual images / total aperture weight) and parallax_shift_full (corrected_bf = prlxClosed, the closed form the driver "
            "evaluates: images translated by the geometric shift of their detector pixel / W) with NO hypothesis on the FFT pair; "
            "half-set masks (_make_checkerboard_bf_masks + the two _return_bf_context calls of _reconstruct_with_halfsets): any split "
            "of the mask gives two sub-masks whose stack rows are a permutation of all rows (split_rows_complementary), and "
            "halfsets_recombine composes split + bf context + streaming core; HyperparameterState history "
            "theorems. Tied to the code on every run by the translator, by Float correspondence (captured factors AND the whole "
            "reconstruction from stack + mask + hyper-parameters alone, real reconstruct(max_batch_size=b) for EVERY b) and by the "
            "property predicates evaluated on the real code, incl. call histories with REJECTED / RAISING calls (bad arguments, "
            "faults injected into callees part-way) and argument objects reused and rewritten in place.",
    "note": "The parallax limits are proved for the model over the reals (exact DFT, first-order coefficient sets, no sign flip, no "
            "filter), as the statement gives them; that torch.fft computes the DFT sums and the float32 evaluation stay measured "
            "(closed form vs the real code on every run, incl. fixed blocks at rotations in every quadrant / beyond pi, H != W, "
            "num_bf = 289, two live objects); float32 evaluation of the "
            "formulas (hard aperture edge, sign(sin chi) near zeros, gamma/|gamma| for tiny gamma) is measured with those grid "
            "points masked and counted; float32 summation order is measured (batch-invariance tolerance 1e-5 relative, times the "
            "parallax phase conditioning), not proved. The property does not state the kernel formulas: a changed formula that keeps "
            "batch invariance / linearity / recombination / the parallax limits is reported as a broken tie (translator theorem or "
            "correspondence), not as a failing input.",
    "technique": "Lean 4 proof (induction over batch lists / permutations, pointwise linear algebra on lists over R, ring / "
                 "linear_combination on the translated formulas) + source-to-Lean translation on every run + "
                 "model-vs-implementation correspondence",
}
RULE = ("one case = one synthetic problem (detector grid, construction mask, sub-mask, scan shape, sampling, energy, aperture, "
        "aberrations, rotation, kernel alias, upsampling, filters, stack) evaluated for every batch size; distinct non-trivial = "
        "distinct (kernel, upsampling, num_bf, scan shape parity/squareness, sub-mask?, aberration kind, rotation?, filters?, crop?) "
        "with num_bf >= 2")
TRUSTED = ["torch.fft.fft2/ifft2 compute the defining DFT sums (the model's executable Fourier instance, proved linear, inverting and "
           "satisfying the comb identity: Lemmas/DirectPtychoDft.lean); measured by every Float stream",
           "the translator harness/translator/dpkernel2lean.py (element-wise reading of broadcasting / indexing plumbing: kxa[ind_i, ind_j], "
           "x[bf_mask], .view/.unsqueeze, .sum(0) over the batch, .sum() over the mask, x[0,0]=c, power.max()); cross-checked on every run by "
           "the kernel-full and reconstruct-full Float streams on the very functions it translates",
           "spatial_frequencies (torch.fft.fftfreq + broadcast) is modelled by hand (kPoint / qGrid), compared with the grids the real code builds",
           "the Butterworth envelope of the real call is not observable on its own: the model's (translated) envelope is compared with the "
           "harness's float64 formula and through the end-to-end reconstruction",
           "Python str.lower() vs ASCII lowering in the model: no alias contains a letter that a non-ASCII character lowers to"]
ASSUMPTIONS = ["round-6 fixed blocks (c04_r6.py, independent of VERIF_SEED): 6 complete problems (rotation 2.2 / -2.2 / -0.9 / 3.9 / -4.4 / 7.0 rad, "
               "detectors 5x8, 8x5, 6x7, 7x5, 8x6, scans with r<c and r>c, NumPy roll oracle at rotations pi, -pi/2, 3pi/2); two live "
               "objects on one geometry with different hyper-parameters called alternately with full / sub / complement / checkerboard "
               "half-set masks (parallax judged by the NumPy roll oracle, other kernels by a fresh object); num_bf = 289 and a 196-row "
               "sub-mask with max_batch_size at 16, 17, 127, 128, 144, 255, 256, n-1, n, n+1, 2n+1; every main-loop problem also runs "
               "max_batch_size = n+1 and 2n+3",
               "the private half-set helpers (_make_checkerboard_bf_masks, _reconstruct_with_halfsets) are internal stages: compared with "
               "the Lean model halfsetContexts / the oracle when present in their known form, skipped with a note otherwise; the "
               "predicates judge only public reconstruct() calls before and after",
               "sub-masks are subsets of the construction mask (the property's quantifier); batch indices are in range",
               "for upsampling u>1 the parallax closed form places the scan images on every u-th point of the finer grid "
               "(what Fourier tiling means in real space); for u=1 it is literally the statement",
               "crop_bf_mask=True is exercised with symmetric and asymmetric masks and paddings 0..2 (sub-masks are given on the cropped "
               "grid); a dedicated parallax stream targets masks with one extra pixel on either side of the origin",
               "float tolerance: |impl-model| <= 5e-5*max(max|model|, 0.05*natural magnitude, natural = max|v-mean|/W) (float32/complex64 path; stricter than the DESIGN rule 5e-4), batch invariance 1e-5, each times the parallax phase conditioning max(1,|phase|/4)",
               "butterworth_order is a natural number (the model's exponent type); vacuum_probe_intensity is None on every path reconstruct takes",
               "grid points where float32 cannot decide the formula are excluded from the formula comparison and counted in the evidence: "
               "|alpha(q-+k) - cutoff| < 1e-5 cutoff (hard aperture), |sin chi_q| < 2e-5 (1+|chi_q|) (sign flip), 0 < |gamma| < 1e-4 and the DC "
               "bin (ssb: gamma/|gamma|; the DC bin multiplies the zeroed DC of the spectrum); the end-to-end comparison is skipped for a "
               "problem that has such a point",
               "translator fallback: when dpkernel2lean cannot FOLLOW the current source (construct outside its grammar, or a slice whose "
               "translated body is not closed over its parameters) the last good Generated/DirectKernel.lean stays and the tie is carried by "
               "the Float streams alone: every translated definition is exercised by `kernel-full` (aperture / aberration_surface / "
               "evaluate_probe via probe_k and BF_weights, gradients via grad_k, polar_coordinates / _passively_rotate_grid via k_grid and "
               "probe_k, gamma_factor and the five kernel branches via the per-pixel factor / power / |gamma|, Butterworth envelope, sign) "
               "and, when the private kernel method is gone too, by `reconstruct-full` (whole reconstruction through the public API)",
               "quantem-private helpers (_normalize_kernel_name, _return_bf_context, _return_kernel_contributions) are internal stages: used "
               "when present in their known form, skipped with a note in the evidence otherwise; no predicate judges a private helper",
               "a call that raises inside a history is caught by the caller (the harness); nothing is asserted about WHICH calls raise, "
               "only that the stored hyper-parameters are unchanged and that every later valid call equals a fresh object's"]
EXPLANATION = ("Theorems in Props/C04.lean are about Model/DirectPtycho.lean + Model/DirectKernel.lean over Generated/DirectKernel.lean, "
               "which pregenerate() rebuilds from the source on every run; every run also captures the per-pixel factors from the real "
               "kernel method, compares them with the translated formulas, runs the Lean driver on captured factors and from the "
               "hyper-parameters alone, and compares with the real reconstruct for every batch size.")



def pregenerate():
    """called by the runner before `lake build`: re-translate the kernel formulas (complex_probe.py: aperture, aberration
    surface + gradients, evaluate_probe, gamma_factor, polar coordinates, passive rotation; direct_ptychography.py:
    _return_kernel_contributions per kernel and the Butterworth / sign / weight / normalisation lines of reconstruct) from
    $QVERIF_REPO/src into lean/QuantemModel/Generated/DirectKernel.lean.  A construct outside the translator's grammar is
    returned as a note = broken tie (the previous file stays), never a crash."""
    from translator import dpkernel2lean
    try:
        dpkernel2lean.regenerate()
    except dpkernel2lean.Untranslatable as e:
        return f"dpkernel2lean: {e}"
    except Exception as e:  # noqa  (a translator bug must not look like an infrastructure failure)
        return f"dpkernel2lean crashed: {type(e).__name__}: {e}"
    return None


KERNELS = ["ssb", "obf", "mf", "prlx", "icom"]
ALIASES = {
    "ssb": ["ssb", "single-sideband", "acbf", "aberration-corrected-bright-field"],
    "obf": ["obf", "optimum-bright-field"],
    "mf": ["mf", "matched-filter"],
    "prlx": ["prlx", "parallax", "tcbf", "tilt-corrected-bright-field"],
    "icom": ["icom", "center-of-mass"],
}
SINGLE_PASS = ("ssb", "prlx", "icom")
TOL_CORR = 5e-5      # model(Float64) vs implementation (float32 path), relative to max|model|
TOL_BATCH = 1e-5     # implementation vs implementation across batch sizes: eps32 (6e-8) x sqrt(Npx <= 729) x small constant;
                     # measured max 2.5e-6 over 250 thorough problems
TOL_LIN = 5e-5       # linearity / recombination / closed forms (float32 path)


# ---------------------------------------------------------------------------------------
# helpers

def _f2b():
    from qv.driver import f2b, b2f
    return f2b, b2f


def fl(a):
    f2b, _ = _f2b()
    return [f2b(x) for x in np.asarray(a, dtype=np.float64).ravel()]


def unfl(xs):
    _, b2f = _f2b()
    return np.array([b2f(x) for x in xs], dtype=np.float64)


def wavelength(E):
    from quantem.core.utils.utils import electron_wavelength_angstrom
    return float(electron_wavelength_angstrom(E))


def signed(n, k):
    """np.fft.fftfreq(n)*n at bin k"""
    return k if 2 * k < n + (n % 2) else k - n


def gen_stack(seed, n, r, c, kind):
    from qv.prng import Rng
    g = Rng(seed)
    if kind == "int":
        vals = [g.below(16) for _ in range(n * r * c)]
    else:   # dyadic with an offset (unity-ish mean, as from_dataset4d produces)
        vals = [1.0 + (g.below(65) - 32) / 64.0 for _ in range(n * r * c)]
    return np.array(vals, dtype=np.float32).reshape(n, r, c)


def rand_case_name(rng, name):
    return "".join(ch.upper() if rng.chance(0.3) else ch for ch in name)


def gen_case(rng, idx):
    """structured, valid problem; candidates whose (sub-)mask has no aperture weight (division by W = 0) or has a
    pixel within 1e-3 of the hard aperture edge (ill-conditioned) are rejected and redrawn"""
    rejected = 0
    while True:
        case = _gen_case_once(rng, idx)
        sub = case["sub"] if case["sub"] is not None else list(range(len(case["pix"])))
        wts, margin = aperture_weights(case, case["det"], [case["pix"][t] for t in sub])
        wts_p, margin_p = aperture_weights(dict(case, rot=case["prlx"]["rot"]), case["det"], [case["pix"][t] for t in sub])
        if sum(wts) >= 0.5 and sum(wts_p) >= 0.5 and min(margin, margin_p) >= 1e-3:
            case["rejected_before"] = rejected
            return case
        rejected += 1


def _gen_case_once(rng, idx):
    gr, gc = rng.randint(5, 8), rng.randint(5, 8)
    crop = rng.chance(0.3)
    cand = []
    for i in range(gr):
        for j in range(gc):
            di, dj = signed(gr, i), signed(gc, j)
            if di * di + dj * dj <= 6 and abs(di) <= (gr - 1) // 2 and abs(dj) <= (gc - 1) // 2:
                cand.append((i, j, di * di + dj * dj))
    if crop and rng.chance(0.4):      # a disk, symmetric about the origin
        rad2 = rng.choice([1, 2])
        pix = sorted((i, j) for i, j, d in cand if d <= rad2)
    else:                             # arbitrary (in general asymmetric) mask
        nmask = min(rng.randint(3, 12) if not rng.chance(0.12) else rng.randint(1, 2), len(cand))   # incl. one- and two-pixel masks
        chosen = rng.sample(cand, nmask)
        if not any(d <= 2 for _, _, d in chosen):      # at least one pixel well inside the aperture (W > 0)
            chosen[0] = rng.choice([x for x in cand if x[2] <= 2])
        pix = sorted(set((i, j) for i, j, _ in chosen))
    n = len(pix)
    r, c = rng.randint(4, 9), rng.randint(4, 9)
    if rng.chance(0.15):        # degenerate scan axes: length 1, 2, 3
        if rng.chance(0.5):
            r = rng.randint(1, 3)
        else:
            c = rng.randint(1, 3)
    sx = rng.choice([0.5, 0.6, 0.7, 0.8, 1.0])
    sy = sx if rng.chance(0.5) else rng.choice([0.5, 0.6, 0.7, 0.8, 1.0])
    rs = rng.choice([0.15, 0.19, 0.22])
    E = rng.choice([60e3, 80e3, 200e3, 300e3])
    lam = wavelength(E)
    rho = rng.uniform(1.6, 3.6)
    semiangle = rho * rs * lam * 1e3
    ab_kind = rng.weighted([("none", 2), ("C10", 3), ("defocus", 1), ("astig", 2), ("C10+astig", 2), ("Cs", 1), ("coma", 1),
                            ("alias-astig", 1)])
    # magnitudes chosen so that the phase across the aperture is a few radians
    amax = semiangle * 1e-3
    c10 = rng.uniform(-1, 1) * 4.0 * lam / (amax * amax)
    c12 = rng.uniform(-1, 1) * 3.0 * lam / (amax * amax)
    phi = rng.uniform(-1.5, 1.5)
    ab = {"none": {}, "C10": {"C10": c10}, "defocus": {"defocus": c10}, "astig": {"C12": c12, "phi12": phi},
          "C10+astig": {"C10": c10, "C12": c12, "phi12": phi},
          "Cs": {"C30": rng.uniform(-1, 1) * 8.0 * lam / amax ** 4, "C10": c10},
          "coma": {"C21": rng.uniform(-1, 1) * 6.0 * lam / amax ** 3, "phi21": phi},
          "alias-astig": {"astigmatism": c12, "astigmatism_angle": phi}}[ab_kind]
    ab = {k: float(np.float32(v)) for k, v in ab.items()}
    rot = 0.0 if rng.chance(0.35) else rng.uniform(-3.1, 3.1)
    u = rng.weighted([(1, 4), (2, 3), (3, 2)])
    kernel = KERNELS[idx % 5]
    alias = rand_case_name(rng, rng.choice(ALIASES[kernel]))
    qmax = 0.5 / max(sx, sy)
    ql = rng.uniform(0.4, 1.2) * qmax if rng.chance(0.3) else None
    qh = rng.uniform(0.05, 0.3) * qmax if rng.chance(0.3) else None
    if ql is None and rng.chance(0.12):      # a cutoff of exactly 0 is falsy: `if q_lowpass:` skips the filter
        ql = rng.choice([0, 0.0])
    if qh is None and rng.chance(0.12):
        qh = rng.choice([0, 0.0])
    order = rng.choice([2, 4, 12])
    sub = None
    if n >= 3 and rng.chance(0.55):
        k = rng.randint(2, n - 1)
        sub = sorted(rng.sample(list(range(n)), k))
    return {
        "idx": idx, "det": [gr, gc], "pix": [list(p) for p in pix], "crop": crop, "pad": rng.randint(0, 2) if crop else 1,
        "scan": [r, c], "sx": sx, "sy": sy, "rs": rs, "units": "mrad" if rng.chance(0.2) else "A^-1",
        "E": E, "semiangle": semiangle, "soft": rng.chance(0.6), "ab_kind": ab_kind, "ab": ab, "rot": rot, "u": u,
        "kernel": kernel, "alias": alias, "ql": ql, "qh": qh, "order": order, "eps": rng.choice([0.1, 0.01, 1.0]),
        "flip": rng.chance(0.5), "sub": sub, "stack_seed": rng.below(1 << 30), "stack_kind": rng.choice(["int", "dyadic"]),
        "stack2_seed": rng.below(1 << 30), "lin_a": rng.choice([2.0, -1.0, 0.5, 3.0, -0.25]),
        "split_seed": rng.below(1 << 30), "sched_seed": rng.below(1 << 30),
        "prlx": {"kind": rng.weighted([("zero", 2), ("int-defocus", 2), ("defocus", 2), ("astig", 2)]),
                 "t": rng.choice([1, -1, 2]), "u": rng.weighted([(1, 4), (2, 2), (3, 1)]),
                 "rot": 0.0 if rng.chance(0.4) else rng.uniform(-3.1, 3.1)},
    }


# ---------------------------------------------------------------------------------------
# the real object

def make_dp(case, stack):
    from quantem.core.datastructures import Dataset2d, Dataset3d
    from quantem.diffractive_imaging.direct_ptychography import DirectPtychography
    gr, gc = case["det"]
    mask = np.zeros((gr, gc), dtype=bool)
    for i, j in case["pix"]:
        mask[i, j] = True
    lam = wavelength(case["E"])
    if case["units"] == "mrad":
        units = ("mrad", "mrad")
        samp = (case["rs"] * lam * 1e3,) * 2
    else:
        units = ("A^-1", "A^-1")
        samp = (case["rs"],) * 2
    vbf = Dataset3d.from_array(np.array(stack, dtype=np.float32), name="vbf", units=("index", "A", "A"),
                               sampling=(1, case["sx"], case["sy"]))
    md = Dataset2d.from_array(mask, name="mask", units=units, sampling=samp)
    return DirectPtychography.from_virtual_bfs(
        vbf, md, energy=case["E"], rotation_angle=case["rot"], aberration_coefs=dict(case["ab"]),
        semiangle_cutoff=case["semiangle"], soft_edges=case["soft"], crop_bf_mask=case["crop"],
        bf_mask_padding_px=case["pad"], verbose=False)


def submask_array(dp, sub):
    """boolean detector mask holding the stack rows `sub` (row-major order of dp.bf_mask's true pixels)"""
    import torch
    ii, jj = torch.nonzero(dp.bf_mask, as_tuple=True)
    m = torch.zeros_like(dp.bf_mask)
    for s in sub:
        m[ii[s], jj[s]] = True
    return m


def recon(dp, case, bf_mask=None, b=None, **over):
    kw = dict(bf_mask=bf_mask, upsampling_factor=case["u"], max_batch_size=b, deconvolution_kernel=case["alias"],
              q_highpass=case["qh"], q_lowpass=case["ql"], butterworth_order=case["order"],
              matched_filter_norm_epsilon=case["eps"], parallax_flip_phase=case["flip"], verbose=False)
    kw.update(over)
    dp.reconstruct(**kw)
    return dp.corrected_stack.detach().double().numpy().copy()


def capture(dp, case, bf_mask, **over):
    """run the real reconstruct with max_batch_size=1 and record every call of the real kernel method"""
    meth = getattr(type(dp), "_return_kernel_contributions", None)
    if meth is None:      # the private kernel method is gone (refactoring): no internal stage, public result only
        return None, None, recon(dp, case, bf_mask=bf_mask, b=1, **over)
    orig = meth.__get__(dp)
    calls = []

    def wrap(*args):
        out = orig(*args)
        calls.append((args, out[0].detach().clone(), None if out[1] is None else out[1].detach().clone()))
        return out

    dp._return_kernel_contributions = wrap
    try:
        stack1 = recon(dp, case, bf_mask=bf_mask, b=1, **over)
    finally:
        dp.__dict__.pop("_return_kernel_contributions", None)
    return orig, calls, stack1


def butterworth(qx, qy, ql, qh, order):
    q = np.sqrt(qx.astype(np.float64) ** 2 + qy.astype(np.float64) ** 2)
    env = np.ones_like(q)
    if ql:
        env = env * (1.0 / (1.0 + (q / ql) ** (2 * order)))
    if qh:
        env = env * (1.0 - 1.0 / (1.0 + (q / qh) ** (2 * order)))
    return env


def aperture_weights(case, gpts, pix):
    """independent float64 evaluation of |aperture|^2 at the detector pixels (soft or hard edge)"""
    lam = wavelength(case["E"])
    rs = case["rs"]
    ang = rs * lam            # rad per detector pixel
    sa = case["semiangle"] * 1e-3
    ct, st = math.cos(case["rot"]), math.sin(case["rot"])
    out, margin = [], float("inf")
    for i, j in pix:
        kx, ky = signed(gpts[0], i) * rs, signed(gpts[1], j) * rs
        ax, ay = lam * (kx * ct - ky * st), lam * (kx * st + ky * ct)
        al = math.hypot(ax, ay)
        if case["soft"]:
            ph = math.atan2(ay, ax)
            den = math.sqrt((math.cos(ph) * ang) ** 2 + (math.sin(ph) * ang) ** 2)
            a = min(max((sa - al) / den + 0.5, 0.0), 1.0)
        else:
            a = 1.0 if al <= sa else 0.0
            margin = min(margin, abs(al - sa) / sa)
        out.append(a * a)
    return out, margin


def kgeom_req(case, dp, ab, rot, u=None):
    """the hyper-parameters / geometry `reconstruct` works from, for the model's `KGeom` (nothing captured from the call)"""
    lam = wavelength(case["E"])
    gpts = tuple(int(x) for x in dp.gpts)
    f = lambda x: fl([float(x)])[0]  # noqa
    return {"wavelength": f(lam), "semiangle": f(case["semiangle"]), "soft": bool(case["soft"]),
            "rs0": f(dp.reciprocal_sampling[0]), "rs1": f(dp.reciprocal_sampling[1]), "det_rows": gpts[0], "det_cols": gpts[1],
            "rotation": f(rot), "coefs": [[k, f(v)] for k, v in ab.items()], "r": case["scan"][0], "c": case["scan"][1],
            "sx": f(case["sx"]), "sy": f(case["sy"]), "u": case["u"] if u is None else u,
            "ql": None if case["ql"] is None else f(case["ql"]), "qh": None if case["qh"] is None else f(case["qh"]),
            "order": int(case["order"]), "eps": f(case["eps"]), "flip": bool(case["flip"])}


def cx(j):
    return unfl(j["re"]) + 1j * unfl(j["im"])


def maxabs(a):
    a = np.asarray(a)
    return float(np.abs(a).max()) if a.size else 0.0


def close(impl, ref, tol, floor=0.0):
    """returns (ok, err/scale); `floor` bounds the scale from below (results that are exactly zero in exact
    arithmetic come out as float32 noise of the order eps32 x the natural magnitude of the output)"""
    scale = max(maxabs(ref), floor, 1e-30)
    err = maxabs(np.asarray(impl) - np.asarray(ref))
    if not np.all(np.isfinite(impl)) or not np.all(np.isfinite(ref)):
        return False, float("inf")
    return err <= tol * scale + 1e-12, err / scale


def summarize(a):
    a = np.asarray(a, dtype=np.float64)
    return {"shape": list(a.shape), "max_abs": maxabs(a), "first": [float(x) for x in a.ravel()[:6]]}


# ---------------------------------------------------------------------------------------
# one problem

def run_problem(ctx, drv, case):
    import torch
    from quantem.diffractive_imaging.ptycho_utils import SimpleBatcher

    kernel, u = case["kernel"], case["u"]
    r, c = case["scan"]
    n_full = len(case["pix"])
    stack = gen_stack(case["stack_seed"], n_full, r, c, case["stack_kind"])
    dp = make_dp(case, stack)
    gpts = tuple(int(x) for x in dp.gpts)
    sub = case["sub"] if case["sub"] is not None else list(range(n_full))
    submask = submask_array(dp, sub) if case["sub"] is not None else None
    n = len(sub)
    N, M = u * r, u * c
    tag = {"idx": case["idx"], "kernel": kernel}

    ctx.dist[f"kernel:{kernel}"] += 1
    ctx.dist[f"upsampling:{u}"] += 1
    ctx.dist[f"num_bf:{n}"] += 1
    ctx.dist[f"scan:{'square' if r == c else 'nonsquare'}-{'odd' if r % 2 else 'even'}x{'odd' if c % 2 else 'even'}"] += 1
    ctx.dist[f"aberrations:{case['ab_kind']}"] += 1
    ctx.dist["rotation:" + ("zero" if case["rot"] == 0 else "nonzero")] += 1
    ctx.dist["submask:" + ("full" if case["sub"] is None else "proper")] += 1
    ctx.dist["filters:" + ("+".join(x for x, v in (("low", case["ql"]), ("high", case["qh"])) if v) or "none")] += 1
    ctx.dist["crop:" + str(case["crop"])] += 1
    if min(r, c) <= 3:
        ctx.dist[f"scan:axis-of-length-{min(r, c)}"] += 1
    if case["ql"] is not None and not case["ql"] or case["qh"] is not None and not case["qh"]:
        ctx.dist["filters:cutoff-exactly-zero"] += 1
    ctx.dist["generator:rejected-zero-weight-or-aperture-edge"] += case.get("rejected_before", 0)
    ctx.dist["detector-units:" + case["units"]] += 1
    ctx.dist["aperture:" + ("soft" if case["soft"] else "hard")] += 1
    if n >= 2:
        ctx.mark((kernel, u, n, r % 2, c % 2, r == c, case["sub"] is not None, case["ab_kind"], case["rot"] != 0,
                  bool(case["ql"]), bool(case["qh"]), case["crop"]))

    # ---- bf context: index mapping (exact stream + predicate) --------------------------
    cm_flat = [bool(x) for x in dp.bf_mask.flatten().tolist()]
    sm_flat = [bool(x) for x in (submask if submask is not None else dp.bf_mask).flatten().tolist()]
    # (internal stage of a PRIVATE helper: compared with the model if the helper still exists in this form, never a predicate;
    # what the mapping means at the public API is judged by the recombination and parallax predicates)
    m = drv.ask({"op": "bfcontext", "cols": gpts[1], "cmask": [int(x) for x in cm_flat], "sub": [int(x) for x in sm_flat]})
    impl_ctx = {"map": list(sub)}
    try:
        bf = dp._return_bf_context(submask if submask is not None else dp.bf_mask)
        impl_ctx = {"i": bf.bf_inds_i.tolist(), "j": bf.bf_inds_j.tolist(), "n": int(bf.num_bf), "map": bf.vbf_index_mapping.tolist()}
    except (AttributeError, TypeError) as e:
        ctx.extra["internal-stage-skipped:_return_bf_context"] = f"private helper not usable in its known form ({type(e).__name__})"
    else:
        ctx.count()
        if m.get("ok") != impl_ctx:
            ctx.disagree("bfcontext", case, m, {"ok": impl_ctx}, note="_return_bf_context")
    if m.get("ok", {}).get("map") != sub:
        ctx.disagree("bfcontext", case, m, {"map": sub}, note="model mapping vs the stack rows of the sub-mask")

    # ---- capture the per-pixel factors from the real kernel method ----------------------
    orig, calls, stack_b1 = capture(dp, case, submask)
    have_cap = calls is not None
    ii_all, jj_all = torch.nonzero(dp.bf_mask, as_tuple=True)
    pix_sub = [(int(ii_all[s_]), int(jj_all[s_])) for s_ in sub]
    if have_cap:
        try:
            if len(calls) != n:
                ctx.disagree("capture", case, n, len(calls), note="number of single-pixel kernel calls")
                return
            K, P, G = [], [], []
            for args, num, pw in calls:
                a = list(args)
                a[2] = torch.ones_like(a[2])
                k = orig(*a)[0][0]
                K.append(k.detach().to(torch.complex128).numpy().ravel())
                P.append(pw.detach().double().numpy().ravel() if pw is not None else np.zeros(0))
                G.append(num[0].detach().to(torch.complex128).numpy().ravel())
            args0 = calls[0][0]
            bfc, qxa, qya, probe = args0[0], args0[5], args0[6], args0[7]
            kxa, kya, grad_k, sign_q = args0[3], args0[4], args0[8], args0[9]
            W = float(probe[bfc.bf_mask].abs().double().square().sum())
        except (AttributeError, TypeError, IndexError, ValueError) as e:   # the private method no longer has its known form
            ctx.extra["internal-stage-skipped:_return_kernel_contributions"] = f"private method not usable in its known form ({type(e).__name__})"
            have_cap = False
    else:
        ctx.extra["internal-stage-skipped:_return_kernel_contributions"] = "private method not found; public results only"
    if not have_cap:
        # library-level stand-ins for what the predicates need: the scan-frequency grid and the aperture weight of the mask
        K = P = G = probe = grad_k = sign_q = kxa = kya = bfc = None
        qxa = torch.fft.fftfreq(N, case["sx"] / u, dtype=torch.float32)[:, None].expand(N, M)
        qya = torch.fft.fftfreq(M, case["sy"] / u, dtype=torch.float32)[None, :].expand(N, M)
        W = float(sum(aperture_weights(case, gpts, pix_sub)[0]))
        ctx.dist["capture:public-results-only"] += 1
    env = butterworth(qxa.numpy(), qya.numpy(), case["ql"], case["qh"], case["order"]).ravel()
    if tuple(qxa.shape) != (N, M):
        ctx.disagree("grid", case, [N, M], list(qxa.shape), note="upsampled grid shape")
        return

    # natural magnitude of one corrected image: deviation of the virtual images from their mean, over W
    dev = stack[sub].astype(np.float64) - stack[sub].astype(np.float64).mean(axis=(1, 2), keepdims=True)
    nat = maxabs(dev) / max(W, 1e-30)
    floor = 0.05 * nat      # TOL*floor ~ 10 eps32 x nat: the absolute float32 noise level of an output pixel

    # ---- q-grid stream: model `qGrid` vs the grid the real code hands to the kernel method ----
    ans = drv.ask({"op": "qgrid", "N": N, "M": M, "dx": fl([case["sx"] / u])[0], "dy": fl([case["sy"] / u])[0]})
    ctx.count()
    for nm, real_q in ((("qx", qxa), ("qy", qya)) if have_cap else ()):
        ok, e = close(real_q.double().numpy().ravel(), unfl(ans["ok"][nm]), 2e-6)
        ctx.stat_max("qgrid_rel", e)
        if not ok:
            ctx.disagree("qgrid", case, summarize(unfl(ans["ok"][nm])), summarize(real_q.numpy()), note=f"spatial_frequencies {nm}")

    # ---- `subProblem`: the factors of a sub-mask pixel are those of the same detector pixel in the full mask ----
    if case["sub"] is not None and have_cap:
        orig_f, calls_f, _ = capture(dp, case, None)
        for j, srow in enumerate(sub if calls_f is not None and len(calls_f) == n_full else []):
            a = list(calls_f[srow][0])
            a[2] = torch.ones_like(a[2])
            kf = orig_f(*a)[0][0].detach().to(torch.complex128).numpy().ravel()
            ok, e = close(K[j], kf, 1e-6)
            ctx.stat_max("subproblem_factor_rel", e)
            ctx.count()
            pf = calls_f[srow][2]
            okp = True if pf is None else close(P[j], pf.detach().double().numpy().ravel(), 1e-6)[0]
            if not (ok and okp):
                ctx.disagree("subproblem", dict(case, item=j), summarize(np.abs(kf)), summarize(np.abs(K[j])),
                             note="kernel factor of a sub-mask pixel differs from that of the same pixel in the full mask")
                break

    # conditioning of the float32 parallax phase exp(-i grad.q): its rounding error is eps32*|phase|
    cond = 1.0
    if kernel == "prlx":
        if not have_cap:       # the gradient from the model (translated formula) instead of the captured one
            o_ = drv.ask(dict(kgeom_req(case, dp, canon_ab(case["ab"].items()), case["rot"]), op="kernel_full", kernel="prlx",
                              pix_i=[q_[0] for q_ in pix_sub], pix_j=[q_[1] for q_ in pix_sub], which=[]))["ok"]
            grad_k = torch.tensor(np.stack([unfl(o_["gx"]), unfl(o_["gy"])], axis=1))
        ph = (grad_k[:, 0].abs().max() * qxa.abs().max() + grad_k[:, 1].abs().max() * qya.abs().max())
        cond = max(1.0, float(ph) / 4.0)
        ctx.stat_max("parallax_phase_max_rad", float(ph))

    # ---- real reconstruct for EVERY batch size; batch invariance predicate --------------
    impl = {}
    for b in range(1, n + 1):
        impl[b] = recon(dp, case, bf_mask=submask, b=b).reshape(n, -1)
        ctx.count()
    ref = impl[n]
    scale_ref = max(maxabs(ref), floor, 1e-30)
    if maxabs(ref) < floor:
        ctx.dist["degenerate:result-is-zero-up-to-rounding"] += 1
    for b in range(1, n):
        ok, e = close(impl[b], ref, TOL_BATCH * cond, floor)
        ctx.stat_max("batch_invariance_rel_over_cond", e / cond)
        if not ok:
            ctx.pred_fail(f"batch-{kernel}", f"corrected_stack depends on max_batch_size ({b} vs {n})", dict(case, b=b),
                          observed={"rel_diff": e, "b": b, **summarize(impl[b])}, required=summarize(ref))
            break
    # max_batch_size beyond num_bf (one more; more than twice): one batch, same result
    for b in (n + 1, 2 * n + 3):
        over_b = recon(dp, case, bf_mask=submask, b=b).reshape(n, -1)
        ctx.count()
        ok, e = close(over_b, ref, TOL_BATCH * cond, floor)
        ctx.stat_max("batch_invariance_rel_over_cond", e / cond)
        if not ok:
            ctx.pred_fail(f"batch-{kernel}", f"corrected_stack depends on max_batch_size ({b} > num_bf = {n})", dict(case, b=b),
                          observed={"rel_diff": e, "b": b, **summarize(over_b)}, required=summarize(ref))
            break
    ok, e = close(stack_b1.reshape(n, -1), impl[1], TOL_BATCH * cond, floor)
    ctx.stat_max("repeat_call_rel", e)
    if not ok:
        ctx.pred_fail(f"determinism-{kernel}", "two identical reconstruct calls give different results", case,
                      observed={"rel_diff": e}, required="identical")

    # ---- kernel-factor stream (modelled prlx / icom operators) --------------------------
    if kernel in ("prlx", "icom") and have_cap:
        reqs = []
        for t in range(n):
            if kernel == "prlx":
                reqs.append({"op": "prlx_operator", "gx": fl([float(grad_k[t, 0])])[0], "gy": fl([float(grad_k[t, 1])])[0],
                             "qx": fl(qxa.numpy()), "qy": fl(qya.numpy()), "sign": fl(sign_q.numpy())})
            else:
                i_, j_ = int(bfc.bf_inds_i[t]), int(bfc.bf_inds_j[t])
                reqs.append({"op": "icom_operator", "kx": fl([float(kxa[i_, j_])])[0], "ky": fl([float(kya[i_, j_])])[0],
                             "qx": fl(qxa.numpy()), "qy": fl(qya.numpy())})
        for t, ans in enumerate(drv.ask(q) for q in reqs):   # large requests: one at a time (pipe buffers)
            ctx.count()
            if "ok" not in ans:
                raise RuntimeError(f"driver: {ans}")
            mk = unfl(ans["ok"]["re"]) + 1j * unfl(ans["ok"]["im"])
            ok, e = close(K[t], mk, TOL_CORR * cond)
            ctx.stat_max("kernel_factor_rel_over_cond", e / cond)
            if not ok:
                ctx.disagree("kernel-factor", dict(case, item=t), summarize(np.abs(mk)), summarize(np.abs(K[t])),
                             note=f"{kernel} operator of BF pixel {t}: rel diff {e:.3g}")
                break

    if have_cap:
        # ---- the driver on the captured factors: every schedule ----------------------------
        schedules, labels = [], []
        cost_one = n * N * M * (N + M)
        budget = 6.0e6 if not ctx.thorough() else 2.0e7
        bs = list(range(1, n + 1))
        if cost_one * len(bs) > budget:
            keep = max(2, int(budget // cost_one))
            rng_b = _rng(case["sched_seed"])
            mid = rng_b.sample(bs[1:-1], max(0, min(len(bs) - 2, keep - 2))) if len(bs) > 2 else []
            bs = sorted(set([1, n] + mid))
            ctx.dist["driver-schedules:subset"] += 1
        else:
            ctx.dist["driver-schedules:all-b"] += 1
        for b in bs:
            real_sched = [[int(x) for x in batch] for batch in SimpleBatcher(n, batch_size=b, shuffle=False)]
            ans = drv.ask({"op": "chunks", "n": n, "b": b})
            ctx.count()
            if ans.get("ok") != real_sched:
                ctx.disagree("chunks", dict(case, b=b), ans, real_sched, note="SimpleBatcher schedule")
            schedules.append(real_sched)
            labels.append(b)
        # one arbitrary partition in arbitrary order (model side only; compared with the full-batch result)
        g = _rng(case["sched_seed"] ^ 0x55)
        perm = g.shuffle(list(range(n)))
        arb, pos = [], 0
        while pos < n:
            k = g.randint(1, max(1, n - pos))
            arb.append(perm[pos:pos + k])
            pos += k
        schedules.append(arb)
        labels.append("perm")
        req = {"op": "reconstruct", "kernel": kernel, "r": r, "c": c, "u": u, "stack": [fl(s) for s in stack],
               "mapping": [int(x) for x in impl_ctx["map"]],
               "K": [{"re": fl(k.real), "im": fl(k.imag)} for k in K], "P": [fl(p) for p in P], "W": fl([W])[0],
               "env": fl(env), "eps": fl([case["eps"]])[0], "schedules": schedules, "want_G": True}
        ans = drv.ask(req)
        if "ok" not in ans:
            raise RuntimeError(f"driver: {ans}")
        for t, gm in enumerate(ans["ok"]["G"]):
            mg = unfl(gm["re"]) + 1j * unfl(gm["im"])
            ok, e = close(G[t], mg, TOL_CORR)
            ctx.stat_max("numerator_rel", e)
            ctx.count()
            if not ok:
                ctx.disagree("numerators", dict(case, item=t), summarize(np.abs(mg)), summarize(np.abs(G[t])),
                             note=f"first-pass numerator of BF pixel {t}: rel diff {e:.3g}")
                break
        model_full = None
        for lab, run in zip(labels, ans["ok"]["runs"]):
            if any(x is None for x in run["stack"]):
                ctx.disagree("reconstruct", dict(case, b=lab), "undefined rows", "defined", note="model left rows unwritten")
                continue
            ms = np.array([unfl(row) for row in run["stack"]])
            target = impl[lab] if lab != "perm" else ref
            ok, e = close(target, ms, TOL_CORR, floor)
            ctx.stat_max("reconstruct_rel", e)
            ctx.count()
            if not ok:
                ctx.disagree("reconstruct", dict(case, b=lab), summarize(ms), summarize(target),
                             note=f"corrected_stack, schedule {lab}: rel diff {e:.3g}")
                break
            if lab == n:
                model_full = ms
                mbf = unfl(run["bf"])
                if not maxabs(ref.sum(axis=0) - mbf) <= TOL_CORR * n * max(maxabs(ms), floor, 1e-30) + 1e-12:
                    ctx.disagree("corrected_bf", case, summarize(mbf), summarize(ref.sum(axis=0)), note="sum over the stack")
        if model_full is not None:
            # by `batch_invariant` the model result is the same for every schedule: compare the remaining b's with it
            for b in range(1, n + 1):
                if b in labels:
                    continue
                ok, e = close(impl[b], model_full, TOL_CORR, floor)
                ctx.stat_max("reconstruct_rel", e)
                ctx.count()
                if not ok:
                    ctx.disagree("reconstruct", dict(case, b=b), summarize(model_full), summarize(impl[b]),
                                 note=f"corrected_stack, b={b} vs model (full batch): rel diff {e:.3g}")
                    break
    # corrected_bf property of the object
    recon(dp, case, bf_mask=submask, b=None)
    bf_prop = dp.corrected_bf.double().numpy().ravel()
    if not maxabs(bf_prop - ref.sum(axis=0)) <= TOL_LIN * n * scale_ref + 1e-12:
        ctx.pred_fail("corrected-bf", "corrected_bf is not the sum of the corrected stack", case,
                      observed=summarize(bf_prop), required=summarize(ref.sum(axis=0)))

    # ---- the kernel formulas inside the model (translated from the source) -----------------
    run_kernel_full(ctx, drv, case, dp, None if not have_cap else {"K": K, "P": P, "W": W, "env": env, "bfc": bfc, "qxa": qxa, "qya": qya, "probe": probe,
                                         "grad_k": grad_k, "sign_q": sign_q, "kxa": kxa, "kya": kya, "calls": calls, "orig": orig},
                    impl, sub, floor, cond, sub, stack, pix_sub=pix_sub, qgrid=(qxa, qya))

    # ---- linearity in the stack ---------------------------------------------------------
    a = case["lin_a"]
    stack2 = gen_stack(case["stack2_seed"], n_full, r, c, "int")
    stack3 = (np.float32(a) * stack + stack2).astype(np.float32)
    exact = np.array_equal(stack3.astype(np.float64), a * stack.astype(np.float64) + stack2.astype(np.float64))
    gb = _rng(case["sched_seed"] ^ 0x77)
    r1 = ref
    r2 = recon(make_dp(case, stack2), case, bf_mask=submask, b=gb.randint(1, n)).reshape(n, -1)
    r3 = recon(make_dp(case, stack3), case, bf_mask=submask, b=gb.randint(1, n)).reshape(n, -1)
    want = a * r1 + r2
    dev2 = stack2[sub].astype(np.float64) - stack2[sub].astype(np.float64).mean(axis=(1, 2), keepdims=True)
    lin_scale = max(abs(a) * maxabs(r1) + maxabs(r2), 0.05 * (abs(a) * nat + maxabs(dev2) / max(W, 1e-30)))
    err = maxabs(r3 - want) / max(lin_scale, 1e-30)
    ctx.stat_max("linearity_rel", err)
    ctx.count()
    ctx.dist["linearity:" + ("exact-combination" if exact else "rounded-combination")] += 1
    if exact and not (err <= TOL_LIN):
        ctx.pred_fail(f"linear-{kernel}", f"reconstruct(a*v1+v2) != a*reconstruct(v1)+reconstruct(v2), a={a}", case,
                      observed={"rel_diff": err, **summarize(r3)}, required=summarize(want))

    # ---- sub-mask recombination (single-pass kernels, aperture weights) -----------------
    if kernel in SINGLE_PASS and n >= 2:
        gs = _rng(case["split_seed"])
        order_ = gs.shuffle(list(range(n)))
        ka = gs.randint(1, n - 1)
        A = sorted(sub[t] for t in order_[:ka])
        B = sorted(sub[t] for t in order_[ka:])
        ii, jj = torch.nonzero(dp.bf_mask, as_tuple=True)
        if have_cap:
            p2 = probe.abs().double().square()
            wts = [float(p2[ii[s], jj[s]]) for s in range(n_full)]
        else:   # independent float64 aperture weights
            wts = aperture_weights(case, gpts, [(int(ii[s]), int(jj[s])) for s in range(n_full)])[0]
        WA, WB, WS = sum(wts[s] for s in A), sum(wts[s] for s in B), sum(wts[s] for s in sub)
        bA_, bB_ = gs.randint(1, len(A)), gs.randint(1, len(B))
        if min(WA, WB) <= 1e-3 * WS:
            ctx.dist["recombination:skipped-zero-weight-part"] += 1   # a part entirely outside the aperture: bf_A = 0/0
        else:
            # the two complementary masks are streamed through ONE pre-allocated buffer, rewritten in place
            mbuf = torch.zeros_like(dp.bf_mask)

            def fill(rows_):
                mbuf.zero_()
                for s_ in rows_:
                    mbuf[ii[s_], jj[s_]] = True
                return mbuf
            bA = recon(dp, case, bf_mask=fill(A), b=bA_).reshape(len(A), -1).sum(axis=0)
            bB = recon(dp, case, bf_mask=fill(B), b=bB_).reshape(len(B), -1).sum(axis=0)
            bS = ref.sum(axis=0)
            lhs, rhs = WA * bA + WB * bB, WS * bS
            sc = max(maxabs(rhs), maxabs(WA * bA), maxabs(WB * bB), WS * floor, 1e-30)
            err = maxabs(lhs - rhs) / sc
            ctx.stat_max("recombination_rel", err)
            ctx.count()
            ctx.dist["recombination:" + ("complementary-to-construction-mask" if case["sub"] is None else "within-submask")] += 1
            if not (err <= TOL_LIN):
                ctx.pred_fail(f"recombine-{kernel}", "W_A*bf_A + W_B*bf_B != W_AB*bf_AB for disjoint sub-masks",
                              dict(case, A=A, B=B), observed={"rel_diff": err, "W": [WA, WB, WS], **summarize(lhs)},
                              required=summarize(rhs))

    ctx.sample({"kernel": kernel, "alias": case["alias"], "det": case["det"], "num_bf": n, "scan": case["scan"], "u": u,
                "aberrations": case["ab"], "rotation": case["rot"], "sub": case["sub"], "filters": [case["ql"], case["qh"]],
                "max_abs_result": scale_ref}, limit=4)

    # ---- parallax limits against independent closed forms ------------------------------
    run_parallax(ctx, drv, case, stack, tag)


def _rng(seed):
    from qv.prng import Rng
    return Rng(seed)


def run_reconstruct_full_only(ctx, drv, case, dp, impl, sub, floor, cond, mapping, stack, pix, qgrid, ab):
    kernel, u = case["kernel"], case["u"]
    r, c = case["scan"]
    n, N, M = len(sub), u * r, u * c
    lam = wavelength(case["E"])
    base = kgeom_req(case, dp, ab, case["rot"])
    base.update({"pix_i": [q[0] for q in pix], "pix_j": [q[1] for q in pix]})
    o = drv.ask(dict(base, op="kernel_full", kernel="obf" if kernel == "ssb" else kernel, which=list(range(n)) if kernel == "ssb" else []))
    if "ok" not in o:
        raise RuntimeError(f"driver: {o}")
    o = o["ok"]
    qx64, qy64 = qgrid[0].double().numpy().ravel(), qgrid[1].double().numpy().ravel()
    kxm, kym = unfl(o["kx"]), unfl(o["ky"])
    ill = False
    if kernel in GAMMA_KERNELS and not case["soft"]:
        sa = case["semiangle"] * 1e-3
        for t in range(n):
            for sgn in (-1.0, 1.0):
                al = np.hypot(qx64 + sgn * kxm[t], qy64 + sgn * kym[t]) * lam
                ill |= bool((np.abs(al - sa) < 1e-5 * sa)[1:].any())
    if kernel == "ssb":      # gamma/|gamma| where gamma is tiny or vanishes by symmetry cannot be judged without the internal stage
        ill |= any(bool((np.sqrt(unfl(x))[1:] < 1e-4).any()) for x in o["P"])
    if kernel == "prlx":
        chi = unfl(o["chi"])
        ill |= bool(((np.abs(np.sin(chi)) < 2e-5 * (1.0 + np.abs(chi))) & (chi != 0.0)).any()) and bool(case["flip"])
    cost_one = n * N * M * (N + M)
    if ill or cost_one > (3.0e6 if not ctx.thorough() else 1.0e7):
        ctx.dist["kernel-full:end-to-end-skipped-" + ("ill-conditioned" if ill else "cost")] += 1
        return
    from quantem.diffractive_imaging.ptycho_utils import SimpleBatcher
    sched = [[int(x) for x in batch] for batch in SimpleBatcher(n, batch_size=n, shuffle=False)]
    ans = drv.ask(dict(base, op="reconstruct_full", kernel=kernel, mapping=[int(x) for x in mapping], stack=[fl(v) for v in stack],
                       schedules=[sched]))
    if "ok" not in ans:
        raise RuntimeError(f"driver: {ans}")
    ctx.dist["kernel-full:end-to-end"] += 1
    run = ans["ok"]["runs"][0]
    ms = np.array([unfl(row) for row in run["stack"]])
    okk, e = close(impl[n], ms, TOL_CORR * cond, floor)
    ctx.stat_max("reconstruct_full_rel_over_cond", e / cond)
    ctx.count()
    if not okk:
        ctx.disagree("reconstruct-full", dict(case, b=n, stream="kernel-full"), summarize(ms), summarize(impl[n]),
                     note=f"corrected_stack from (stack, mask, hyper-parameters) alone: rel diff {e:.3g}")


TOL_K = 5e-5         # translated kernel formulas (Float64) vs the real float32 formulas, times the phase conditioning


def run_kernel_full(ctx, drv, case, dp, cap, impl, sub, floor, cond, mapping, stack, pix_sub=None, qgrid=None):
    """the kernel formulas INSIDE the model (translated from the source on this run) against the real code: detector-plane
    probe, aperture weights, Butterworth envelope, parallax gradient / contrast-transfer sign, the per-pixel kernel factor
    and power of `_return_kernel_contributions`, and the WHOLE reconstruction from (stack, mask pixels, hyper-parameters)
    with no captured factor.  `cap` = what was recorded from the real single-pixel kernel calls."""
    import torch
    kernel, u = case["kernel"], case["u"]
    r, c = case["scan"]
    n = len(sub)
    N, M = u * r, u * c
    lam = wavelength(case["E"])
    ab = canon_ab(case["ab"].items())
    if cap is None:
        # no internal stage available (the private kernel method is gone): only the WHOLE reconstruction from the
        # hyper-parameters is compared, on problems the model itself finds well-conditioned
        run_reconstruct_full_only(ctx, drv, case, dp, impl, sub, floor, cond, mapping, stack, pix_sub, qgrid, ab)
        return
    K, P, W, env, bfc, qxa, qya, probe, grad_k, sign_q = (cap[k] for k in ("K", "P", "W", "env", "bfc", "qxa", "qya", "probe", "grad_k", "sign_q"))
    pix = [(int(a), int(b)) for a, b in zip(bfc.bf_inds_i.tolist(), bfc.bf_inds_j.tolist())]
    base = kgeom_req(case, dp, ab, case["rot"])
    base.update({"pix_i": [q[0] for q in pix], "pix_j": [q[1] for q in pix]})
    ans = drv.ask(dict(base, op="kernel_full", kernel=kernel, which=list(range(n))))
    if "ok" not in ans:
        raise RuntimeError(f"driver: {ans}")
    o = ans["ok"]
    tag = dict(case, stream="kernel-full")
    ill = False           # some grid point is ill-conditioned for float32: the end-to-end comparison is skipped (and counted)

    def check(name, model, real, tol, scale=None, note=""):
        model, real = np.asarray(model), np.asarray(real)
        sc = max(maxabs(model) if scale is None else scale, 1e-30)
        err = maxabs(real - model) / sc if model.shape == real.shape and np.all(np.isfinite(real)) else float("inf")
        ctx.stat_max(f"kernel_full_{name}_rel", err)
        ctx.count()
        if not err <= tol:
            ctx.disagree("kernel-full", tag, {name: summarize(np.abs(model))}, {name: summarize(np.abs(real))},
                         note=f"{name}{note}: rel diff {err:.3g} (tol {tol:.3g})")
            return False
        return True

    ok = check("BF_weights", [unfl([o["W"]])[0]], [W], 2e-5)
    ok &= check("probe_k", cx(o["probe"]), probe[bfc.bf_mask].to(torch.complex128).numpy(), TOL_K, scale=1.0)
    ok &= check("butterworth_env", unfl(o["env"]), env, 2e-5, scale=1.0)
    qx64, qy64 = qxa.double().numpy().ravel(), qya.double().numpy().ravel()
    kxm, kym = unfl(o["kx"]), unfl(o["ky"])
    ok &= check("k_grid", np.stack([kxm, kym]), np.stack([cap["kxa"][bfc.bf_mask].double().numpy(), cap["kya"][bfc.bf_mask].double().numpy()]),
                2e-6)
    if kernel == "prlx":
        gm = np.stack([unfl(o["gx"]), unfl(o["gy"])], axis=1)
        ok &= check("grad_k", gm, grad_k.double().numpy(), 2e-5 if maxabs(gm) > 0 else 1e-12, scale=max(maxabs(gm), 1e-30) if maxabs(gm) > 0 else 1.0)
        chi, sm, sr = unfl(o["chi"]), unfl(o["sign"]), sign_q.double().numpy().ravel()
        shaky = np.abs(np.sin(chi)) < 2e-5 * (1.0 + np.abs(chi))     # sign(sin(chi)) is decided by float32 rounding there
        shaky &= chi != 0.0                                          # chi = 0 exactly (q = 0, or no coefficient): sign 0 on both sides
        ctx.dist["kernel-full:sign-points-ill-conditioned"] += int(shaky.sum())
        ill |= bool(shaky.any())
        ctx.count()
        if not np.array_equal(sm[~shaky], sr[~shaky]):
            bad_ = int(np.flatnonzero((sm != sr) & ~shaky)[0])
            ctx.disagree("kernel-full", tag, {"sign": float(sm[bad_]), "chi": float(chi[bad_])}, {"sign": float(sr[bad_])},
                         note=f"sign_sin_chi_q at grid point {bad_}")
            ok = False
    skip = np.zeros(N * M, dtype=bool)
    per_pix_skip = []
    gam = None
    if kernel in GAMMA_KERNELS:
        sa = case["semiangle"] * 1e-3
        if kernel == "ssb":       # |gamma| of the same pixels (the obf numerator is -i conj(gamma)): conditioning of gamma/|gamma|
            o2 = drv.ask(dict(base, op="kernel_full", kernel="obf", which=list(range(n))))
            if "ok" not in o2:
                raise RuntimeError(f"driver: {o2}")
            gam = [np.sqrt(unfl(x)) for x in o2["ok"]["P"]]
        for t in range(n):
            sk = np.zeros(N * M, dtype=bool)
            if not case["soft"]:   # a grid point whose q -+ k lies on the hard aperture edge flips between float32 and float64
                for sgn in (-1.0, 1.0):
                    al = np.hypot(qx64 + sgn * kxm[t], qy64 + sgn * kym[t]) * lam
                    sk |= np.abs(al - sa) < 1e-5 * sa
                ctx.dist["kernel-full:points-on-hard-aperture-edge"] += int(sk.sum())
            if kernel == "ssb":
                sk[0] = True       # the DC bin of the factor multiplies the zeroed DC bin of the spectrum; gamma(0) is pure cancellation noise
                # |gamma| of the REAL code at this pixel (the obf branch of the same method returns |gamma|^2): where gamma vanishes
                # by symmetry (q perpendicular to k, equal apertures) float32 leaves rounding noise, which gamma/|gamma| turns
                # into a unit-modulus number; such points are compared through |gamma| only
                a_ = list(cap["calls"][t][0])
                a_[1], a_[2] = "obf", torch.ones_like(a_[2])
                gimpl = np.sqrt(cap["orig"](*a_)[1].detach().double().numpy().ravel())
                err_g = float(np.abs(gimpl - gam[t]).max())
                ctx.stat_max("kernel_full_abs_gamma_abs", err_g)
                if not err_g <= 4 * TOL_K * cond:
                    ctx.disagree("kernel-full", dict(tag, item=t), summarize(gam[t]), summarize(gimpl),
                                 note=f"|gamma| of BF pixel {t}: abs diff {err_g:.3g}")
                    ok = False
                small = gam[t] < 1e-4
                small[0] = False
                noisy = small & ((gam[t] > 0) | (gimpl > 0))
                ctx.dist["kernel-full:ssb-points-with-tiny-gamma"] += int(noisy.sum())
                sk |= noisy         # gamma exactly 0 on both sides stays compared (factor exactly 0)
                if noisy.any():
                    ill = True
            per_pix_skip.append(sk)
            if kernel != "ssb" and sk[1:].any():
                ill = True
            if kernel == "ssb" and not case["soft"]:
                edge = np.zeros(N * M, dtype=bool)
                for sgn in (-1.0, 1.0):
                    edge |= np.abs(np.hypot(qx64 + sgn * kxm[t], qy64 + sgn * kym[t]) * lam - sa) < 1e-5 * sa
                if edge[1:].any():
                    ill = True
    for t in range(n):
        mk = cx(o["K"][t])
        sk = per_pix_skip[t] if per_pix_skip else skip
        tol = TOL_K * cond
        if kernel == "ssb":        # unit-modulus factor: the error of gamma is amplified by 1/|gamma|
            w = np.where(gam[t] > 0, np.maximum(1.0, 1e-2 / np.maximum(gam[t], 1e-30)), 1.0)
            err = float((np.abs(K[t] - mk) / w)[~sk].max()) if (~sk).any() else 0.0
        else:
            err = float(np.abs(K[t] - mk)[~sk].max()) if (~sk).any() else 0.0
        ctx.stat_max("kernel_full_factor_abs_over_cond", err / cond)
        ctx.count()
        if not err <= tol * max(1.0, maxabs(mk)):
            ctx.disagree("kernel-full", dict(tag, item=t), summarize(np.abs(mk)), summarize(np.abs(K[t])),
                         note=f"{kernel} factor of BF pixel {t} (translated formula vs _return_kernel_contributions on a unit spectrum): abs diff {err:.3g}")
            ok = False
            break
        if kernel in ("obf", "mf"):
            mp = unfl(o["P"][t])
            err = float(np.abs(P[t] - mp)[~sk].max()) if (~sk).any() else 0.0
            ctx.stat_max("kernel_full_power_abs", err)
            if not err <= 4 * TOL_K * max(1.0, maxabs(mp)):
                ctx.disagree("kernel-full", dict(tag, item=t), summarize(mp), summarize(P[t]),
                             note=f"|gamma|^2 of BF pixel {t}: abs diff {err:.3g}")
                ok = False
                break
    # ---- the whole reconstruction from the hyper-parameters (no captured factor) ----
    cost_one = n * N * M * (N + M)
    budget = 3.0e6 if not ctx.thorough() else 1.0e7
    if ill:
        ctx.dist["kernel-full:end-to-end-skipped-ill-conditioned"] += 1
        return
    if cost_one > budget or not ok:
        ctx.dist["kernel-full:end-to-end-skipped-" + ("cost" if ok else "after-disagreement")] += 1
        return
    from quantem.diffractive_imaging.ptycho_utils import SimpleBatcher
    bs = [n] if (2 * cost_one > budget or n == 1) else [n, _rng(case["sched_seed"] ^ 0x33).randint(1, n - 1)]
    scheds = [[[int(x) for x in batch] for batch in SimpleBatcher(n, batch_size=b, shuffle=False)] for b in bs]
    ans = drv.ask(dict(base, op="reconstruct_full", kernel=kernel, mapping=[int(x) for x in mapping],
                       stack=[fl(v) for v in stack], schedules=scheds))
    if "ok" not in ans:
        raise RuntimeError(f"driver: {ans}")
    ctx.dist["kernel-full:end-to-end"] += 1
    for b, run in zip(bs, ans["ok"]["runs"]):
        if any(x is None for x in run["stack"]):
            ctx.disagree("reconstruct-full", dict(tag, b=b), "undefined rows", "defined", note="model left rows unwritten")
            continue
        ms = np.array([unfl(row) for row in run["stack"]])
        okk, e = close(impl[b], ms, TOL_CORR * cond, floor)
        ctx.stat_max("reconstruct_full_rel_over_cond", e / cond)
        ctx.count()
        if not okk:
            ctx.disagree("reconstruct-full", dict(tag, b=b), summarize(ms), summarize(impl[b]),
                         note=f"corrected_stack from (stack, mask, hyper-parameters) alone, b={b}: rel diff {e:.3g}")
            break



def run_parallax(ctx, drv, case, stack, tag):
    """zero-aberration and defocus/astigmatism parallax reconstruction (no sign flip, no filters)
    against (a) a pure NumPy real-space oracle when all shifts are whole pixels, (b) the Lean closed form"""
    pc = dict(case)
    pr = case["prlx"]
    lam = wavelength(case["E"])
    r, c = case["scan"]
    u = pr["u"]
    kind = pr["kind"]
    pc.update({"u": u, "ql": None, "qh": None, "flip": False, "kernel": "prlx", "rot": pr["rot"],
               "alias": case["alias"] if case["kernel"] == "prlx" else "parallax"})
    amax = case["semiangle"] * 1e-3
    if kind == "zero":
        pc["ab"] = {}
    elif kind == "int-defocus":
        # C10 = t*sx/(lam*rs): every geometric shift is a whole number of scan pixels
        pc["sy"] = pc["sx"]
        pc["rot"] = 0.0 if pr["rot"] == 0.0 or abs(pr["rot"]) < 1.5 else math.pi / 2
        if "rot_exact" in pr:       # round-6 fixed cases: any multiple of pi/2 (all four orientations, beyond +-pi)
            pc["rot"] = pr["rot_exact"]
        pc["ab"] = {"C10": pr["t"] * pc["sx"] / (lam * case["rs"])}
    elif kind == "defocus":
        pc["ab"] = {"defocus": float(np.float32((0.3 + 0.5 * abs(math.sin(case["idx"] + 1))) * 4.0 * lam / (amax * amax)))}
    else:
        pc["ab"] = {"C10": float(np.float32(2.0 * lam / (amax * amax))), "C12": float(np.float32(-3.0 * lam / (amax * amax))),
                    "phi12": float(np.float32(0.4 + 0.1 * (case["idx"] % 7)))}
    sub = case["sub"] if case["sub"] is not None else list(range(len(case["pix"])))
    dp = make_dp(pc, stack)
    gpts = tuple(int(x) for x in dp.gpts)
    submask = submask_array(dp, sub) if case["sub"] is not None else None
    n = len(sub)
    import torch
    ii, jj = torch.nonzero(dp.bf_mask, as_tuple=True)
    pix = [(int(ii[s]), int(jj[s])) for s in sub]
    wts, margin = aperture_weights(pc, gpts, pix)
    if margin < 1e-3:
        ctx.dist["parallax:rejected-aperture-edge"] += 1
        return
    W = sum(wts)
    if W <= 1e-6:
        ctx.dist["parallax:rejected-zero-weight"] += 1
        return
    g = _rng(case["sched_seed"] ^ 0x99)
    _, pcalls, _ = capture(dp, pc, submask)
    try:
        grad_real = pcalls[0][0][8].double().numpy()
    except (TypeError, IndexError, AttributeError):
        grad_real = None          # internal stage not available: the closed form is judged on the public result only
    got = recon(dp, pc, bf_mask=submask, b=g.randint(1, n)).reshape(n, -1).sum(axis=0)
    N, M = u * r, u * c
    # polar coefficients as the code standardises them
    ab = pc["ab"]
    c10 = -ab["defocus"] if "defocus" in ab else ab.get("C10", 0.0)
    c12, phi12 = ab.get("C12", 0.0), ab.get("phi12", 0.0)
    ms = (stack[sub].astype(np.float64) - stack[sub].astype(np.float64).mean(axis=(1, 2), keepdims=True))
    ctx.dist[f"parallax:{kind}-u{u}"] += 1
    ctx.count()
    key_u = "" if u == 1 else "-upsampled"
    scale = max(float(np.abs(ms).sum(axis=0).max()) / W, 1e-30)
    # (a) NumPy oracle for whole-pixel shifts
    if kind in ("zero", "int-defocus"):
        want = np.zeros((N, M))
        ct, st = round(math.cos(pc["rot"])), round(math.sin(pc["rot"]))
        for t, (i, j) in enumerate(pix):
            comb = np.zeros((N, M))
            comb[::u, ::u] = ms[t]
            if kind == "zero":
                sr = sc = 0
            else:
                di, dj = signed(gpts[0], i), signed(gpts[1], j)
                sr, sc = pr["t"] * u * (di * ct - dj * st), pr["t"] * u * (di * st + dj * ct)
            want += np.roll(comb, (sr, sc), axis=(0, 1))
        want = (want / W).ravel()
        err = maxabs(got - want) / scale
        ctx.stat_max("parallax_oracle_rel", err)
        if not (err <= TOL_LIN):
            what = ("zero-aberration parallax != sum of mean-subtracted virtual images / aperture weight" if kind == "zero" else
                    "defocused parallax != sum of the images rolled by the geometric shift / aperture weight")
            ctx.pred_fail(f"prlx-{'zero' if kind == 'zero' else 'shift'}{key_u}", what, dict(case, prlx_case=True),
                          observed={"rel_diff": err, "aberrations": pc["ab"], "rotation": pc["rot"], "u": u, **summarize(got)},
                          required=summarize(want))
    # (b) Lean closed form (sub-pixel Fourier translation by grad/2pi)
    ans = drv.ask({"op": "prlx_closed", "wavelength": fl([lam])[0], "rsx": fl([case["rs"]])[0], "rsy": fl([case["rs"]])[0],
                   "det_rows": gpts[0], "det_cols": gpts[1], "rotation": fl([pc["rot"]])[0], "c10": fl([c10])[0],
                   "c12": fl([c12])[0], "phi12": fl([phi12])[0], "r": r, "c": c, "sx": fl([pc["sx"]])[0], "sy": fl([pc["sy"]])[0],
                   "u": u, "W": fl([W])[0], "pix_i": [p[0] for p in pix], "pix_j": [p[1] for p in pix],
                   "vs": [fl(stack[s]) for s in sub]})
    if "ok" not in ans:
        raise RuntimeError(f"driver: {ans}")
    want = unfl(ans["ok"]["bf"])
    shifts = [unfl(x) for x in ans["ok"]["shifts_px"]]
    # the code's gradient (aberration_surface_cartesian_gradients at the rotated pixel) vs 2*pi*shift of the closed form
    grad_model = np.array([[2 * math.pi * float(x[0]) * pc["sx"] / u, 2 * math.pi * float(x[1]) * pc["sy"] / u] for x in shifts])
    gscale = max(maxabs(grad_model), 1e-30)
    gerr = 0.0 if grad_real is None else (maxabs(grad_real - grad_model) / gscale if maxabs(grad_model) > 0 else maxabs(grad_real))
    ctx.stat_max("gradient_rel", gerr)
    ctx.count()
    if not gerr <= 2e-5:
        ctx.disagree("prlx-gradient", dict(case, prlx_case=True), [list(map(float, x)) for x in grad_model],
                     [list(map(float, x)) for x in grad_real], note="grad_k vs 2*pi*prlxShift")
    pcond = max(1.0, max(math.pi * (abs(float(x[0])) + abs(float(x[1]))) for x in shifts) / 4.0)
    err = maxabs(got - want) / scale
    ctx.stat_max("parallax_closed_form_rel_over_cond", err / pcond)
    ctx.stat_max("parallax_shift_max_px", max(max(abs(float(x[0])), abs(float(x[1]))) for x in shifts))
    ctx.count()
    if not (err <= TOL_LIN * pcond):
        if kind == "zero":
            key, what = f"prlx-zero{key_u}", "zero-aberration parallax != closed form (sum of mean-subtracted images / W)"
        else:
            key, what = f"prlx-shift{key_u}", "parallax with defocus/astigmatism != sum of images translated by grad(chi)/2pi, / W"
        ctx.pred_fail(key, what, dict(case, prlx_case=True),
                      observed={"rel_diff": err, "aberrations": pc["ab"], "rotation": pc["rot"], "u": u, **summarize(got)},
                      required=summarize(want))


# ---------------------------------------------------------------------------------------
# crop_bf_mask=True with masks that are not symmetric about the origin

def run_crop_case(ctx, cc):
    """defocused parallax (whole-pixel shifts, hard aperture covering the mask) against the NumPy roll oracle, with the
    construction mask cropped by from_virtual_bfs(crop_bf_mask=True)"""
    lam = wavelength(80e3)
    gr, gc = cc["det"]
    r, c = cc["scan"]
    case = {"det": cc["det"], "pix": cc["pix"], "crop": True, "pad": cc["pad"], "scan": cc["scan"], "sx": 0.5, "sy": 0.5, "rs": 0.2,
            "units": "A^-1", "E": 80e3, "semiangle": 3.2 * 0.2 * lam * 1e3, "soft": False,
            "ab": {"C10": cc["t"] * 0.5 / (lam * 0.2)}, "rot": 0.0, "u": 1, "alias": "parallax", "ql": None, "qh": None,
            "order": 2, "eps": 0.1, "flip": False}
    n = len(cc["pix"])
    stack = gen_stack(cc["stack_seed"], n, r, c, "int")
    dp = make_dp(case, stack)
    got = recon(dp, case, b=cc["b"]).reshape(n, -1).sum(axis=0)
    ms = stack.astype(np.float64) - stack.astype(np.float64).mean(axis=(1, 2), keepdims=True)
    want = np.zeros((r, c))
    for t, (i, j) in enumerate(cc["pix"]):      # stack row t belongs to detector pixel pix[t] of the (uncropped) mask
        want += np.roll(ms[t], (cc["t"] * signed(gr, i), cc["t"] * signed(gc, j)), axis=(0, 1))
    want = (want / n).ravel()
    err = maxabs(got - want) / max(float(np.abs(ms).sum(axis=0).max()) / n, 1e-30)
    ctx.count()
    ctx.dist[f"crop-mask:extra-pixel-{cc['side']}"] += 1
    if cc["side"] == "negative":
        ctx.stat_max("crop_negative_side_rel", err)
    if not err <= TOL_LIN * 40:
        key = "crop-asymmetric-mask" if cc["side"] == "positive" else "crop-mask"
        ctx.pred_fail(key, "crop_bf_mask=True: defocused parallax != sum of the images rolled by the geometric shift of their "
                           "detector pixel / aperture weight (mask extends further on the positive-frequency side)"
                      if cc["side"] == "positive" else "crop_bf_mask=True changes the reconstruction",
                      {"crop_case": cc}, observed={"rel_diff": err, "cropped_gpts": [int(x) for x in dp.gpts], **summarize(got)},
                      required=summarize(want))


def run_crop_cases(ctx, rng):
    for _ in range(ctx.n(8, 24)):
        gr, gc = rng.randint(7, 8), rng.randint(7, 8)
        rad2 = rng.choice([1, 2])
        pix = [(i, j) for i in range(gr) for j in range(gc) if signed(gr, i) ** 2 + signed(gc, j) ** 2 <= rad2]
        side = rng.choice(["positive", "negative"])
        axis = rng.below(2)
        d = 2 if side == "positive" else -2
        extra = ((d % gr, 0) if axis == 0 else (0, d % gc))
        pix = sorted(set(pix + [extra]))
        cc = {"det": [gr, gc], "pix": [list(p) for p in pix], "side": side, "pad": rng.randint(0, 1),
              "scan": [rng.randint(5, 7), rng.randint(5, 7)], "t": rng.choice([1, -1]), "stack_seed": rng.below(1 << 30),
              "b": rng.randint(1, len(pix))}
        guarded(ctx, {"crop_case": cc}, run_crop_case, ctx, cc)


# ---------------------------------------------------------------------------------------
# histories on ONE object: the result of EVERY call is a function of (stack, mask, effective hyper-parameters) only

GAMMA_KERNELS = ("ssb", "obf", "mf")
CANON = {"defocus": ("C10", -1.0), "astigmatism": ("C12", 1.0), "astigmatism_angle": ("phi12", 1.0), "coma": ("C21", 1.0),
         "coma_angle": ("phi21", 1.0), "Cs": ("C30", 1.0), "C5": ("C50", 1.0)}


def canon_ab(items):
    """independent re-statement of the aberration conventions: aliases resolved in order, defocus = -C10"""
    out = {}
    for k, v in items:
        c, sgn = CANON.get(k, (k, 1.0))
        out[c] = -float(v) if sgn < 0 else float(v)
    return out


def draw_value(rng, stored, rand):
    """random / exactly 0.0 / int 0 / -0.0 / equal to the stored value / its negation"""
    kind = rng.weighted([("random", 3), ("zero", 2), ("int0", 1), ("negzero", 1), ("equal", 2), ("negated", 2)])
    if kind == "zero":
        return 0.0
    if kind == "int0":
        return 0
    if kind == "negzero":
        return -0.0
    if kind == "equal" and stored is not None:
        return stored
    if kind == "negated" and stored is not None:
        return -stored
    return rand()


def gen_history(rng, idx):
    case = gen_case(rng, idx)
    lam = wavelength(case["E"])
    amax = case["semiangle"] * 1e-3
    kind = ("prlx-closed", "rotation-sweep", "generic")[idx % 3]
    f32 = lambda x: float(np.float32(x))  # noqa
    r10 = lambda: f32(rng.choice([-1, 1]) * rng.uniform(1.0, 4.0) * lam / (amax * amax))  # noqa
    r12 = lambda: f32(rng.choice([-1, 1]) * rng.uniform(1.0, 3.0) * lam / (amax * amax))  # noqa
    rphi = lambda: f32(rng.uniform(-1.5, 1.5))  # noqa
    r21 = lambda: f32(rng.choice([-1, 1]) * rng.uniform(2.0, 6.0) * lam / amax ** 3)  # noqa
    rrot = lambda: rng.uniform(-3.1, 3.1)  # noqa
    if rng.chance(0.8) and case["rot"] == 0.0:
        case["rot"] = rrot()
    if kind == "prlx-closed":
        ab = rng.choice([{}, {"C10": r10()}, {"C12": r12(), "phi12": rphi()}, {"C10": r10(), "C12": r12(), "phi12": rphi()}])
        case.update({"kernel": "prlx", "alias": rand_case_name(rng, rng.choice(ALIASES["prlx"])), "ab": ab, "ab_kind": "closed",
                     "flip": False, "ql": None, "qh": None})
    elif kind == "rotation-sweep":
        ab = rng.choice([{"C12": r12(), "phi12": rphi()}, {"C10": r10(), "C12": r12(), "phi12": rphi()}, {"C21": r21(), "phi21": rphi()}])
        kern = GAMMA_KERNELS[(idx // 3) % 3]
        case.update({"kernel": kern, "alias": rand_case_name(rng, rng.choice(ALIASES[kern])), "ab": ab, "ab_kind": "nonsymmetric"})
    n = len(case["sub"]) if case["sub"] is not None else len(case["pix"])
    n_full = len(case["pix"])
    stored = canon_ab(case["ab"].items())
    rand_for = {"C10": r10, "defocus": r10, "C12": r12, "astigmatism": r12, "phi12": rphi, "astigmatism_angle": rphi,
                "C21": r21, "coma": r21, "phi21": rphi, "coma_angle": rphi, "C30": lambda: f32(r10() / (amax * amax))}
    steps = [{"kind": "call", "ab": None, "rot": None}]                 # the plain call
    # configure / run / RECONFIGURE / run again: some generic histories hold two fixed-value grid searches whose
    # coefficient sets differ (the second must not inherit anything from the first)
    regrid = kind == "generic" and rng.chance(0.5)
    nmid = rng.randint(3, 4) if regrid else rng.randint(2, 4)
    grid_at = set(rng.sample(list(range(nmid)), 2)) if regrid else set()
    grid_keys_used = set()
    for mid in range(nmid):
        st = {"kind": "call", "ab": None, "rot": None}
        if kind == "rotation-sweep":
            st["rot"] = draw_value(rng, case["rot"], rrot)
            if rng.chance(0.3):
                st["ab"] = [[k, v] for k, v in case["ab"].items()]        # the same set, given again
        else:
            if kind == "generic" and (rng.chance(0.25) or mid in grid_at):
                st["kind"] = "grid"
            if rng.chance(0.7):
                st["rot"] = draw_value(rng, case["rot"], rrot)
            if rng.chance(0.75) or st["kind"] == "grid":
                pool = (["C10", "defocus", "C12", "phi12", "astigmatism", "astigmatism_angle"] if kind == "prlx-closed" else
                        ["C10", "defocus", "C12", "phi12", "astigmatism", "astigmatism_angle", "C21", "phi21", "coma", "coma_angle", "C30"])
                if st["kind"] == "grid" and regrid:
                    canon_of = lambda k_: CANON.get(k_, (k_, 1))[0]  # noqa
                    fresh_pool = [k_ for k_ in pool if canon_of(k_) not in grid_keys_used] or pool
                    keys = rng.sample(fresh_pool, min(len(fresh_pool), rng.randint(1, 2)))
                    grid_keys_used |= {canon_of(k_) for k_ in keys}
                else:
                    keys = rng.sample(pool, rng.randint(1, 3))
                st["ab"] = [[k, draw_value(rng, (stored.get(CANON.get(k, (k, 1))[0]) if k not in CANON else
                                                  (-stored["C10"] if k == "defocus" and "C10" in stored else stored.get(CANON[k][0]))),
                                           rand_for[k])] for k in keys]
            if kind == "generic":
                if rng.chance(0.5):
                    st["alias"] = rand_case_name(rng, rng.choice([a for al in ALIASES.values() for a in al]))
                if rng.chance(0.3):
                    st["ql"] = rng.uniform(0.4, 1.2) * 0.5 / max(case["sx"], case["sy"])
                if rng.chance(0.3):
                    st["flip"] = rng.chance(0.5)
                if rng.chance(0.3):
                    st["eps"] = rng.choice([0.01, 1.0])
            if rng.chance(0.4):
                st["u"] = rng.randint(1, 3)
            if rng.chance(0.3):
                st["full_mask"] = True
        st["b"] = rng.randint(1, n_full if st.get("full_mask") else n)
        steps.append(st)
    steps.append({"kind": "call", "ab": None, "rot": None})                # the plain call again
    steps[0]["b"] = steps[-1]["b"] = rng.randint(1, n)
    # the complementary sub-mask (the other pixels of the construction mask), if it carries aperture weight
    comp = None
    if case["sub"] is not None:
        rest = [t for t in range(n_full) if t not in case["sub"]]
        if rest:
            wts, margin = aperture_weights(case, case["det"], [case["pix"][t] for t in rest])
            if sum(wts) >= 0.5 and margin >= 1e-3:
                comp = rest
    # masks are handed over through ONE buffer object per history whose contents are rewritten in place between calls
    # (and per-call coefficient overrides through one dict object); some steps use the complementary sub-mask
    for st in steps[1:-1]:
        if comp is not None and not st.get("full_mask") and rng.chance(0.45):
            st["mask"] = "complement"
            st["b"] = rng.randint(1, len(comp))
        elif st.get("full_mask") and rng.chance(0.5):
            st["via_buffer"] = True
    # exception safety: calls that are REJECTED or RAISE PART-WAY (bad argument, failing validation, an exception from a
    # callee), placed in front of a valid call whose settings they copy; the caller catches the exception and carries on
    out = [steps[0]]
    for pos, st in enumerate(steps[1:]):
        # fixed block: in every rotation-sweep history (ssb / obf / mf by turns) the first overriding call is preceded by a
        # call that raises AFTER streaming has started; elsewhere by chance
        forced = kind == "rotation-sweep" and pos == 0
        if rng.chance(0.5) or forced:
            kern = None
            for kk, al in ALIASES.items():
                if st.get("alias", case["alias"]).lower() in al:
                    kern = kk
            late = ["kernel-call-fault", "ifft-fault", "mask-not-sub"] + (["eps-none"] * 2 if kern == "mf" else [])
            early = ["unknown-kernel", "bad-ab-key", "mask-shape", "batch-zero"]
            fault = rng.choice(late * 2 + early)
            if forced:
                fault = late[(idx // 9) % len(late)]
            out.append({"kind": "bad", "fault": fault, "like": dict(st), "ab": st["ab"], "rot": st["rot"], "k": rng.below(1 << 16),
                        "exc": rng.choice(["RuntimeError", "MemoryError", "KeyboardInterrupt"])})
        out.append(st)
    return {"history": {"kind": kind, "steps": out, "buffer": rng.choice(["torch", "numpy", "torch"]), "comp": comp}, **case}


def run_history(ctx, drv, hc):
    import torch
    case = {k: v for k, v in hc.items() if k != "history"}
    h = hc["history"]
    r, c = case["scan"]
    n_full = len(case["pix"])
    stack = gen_stack(case["stack_seed"], n_full, r, c, case["stack_kind"])
    dp = make_dp(case, stack)
    state = dp.hyperparameter_state
    gpts = tuple(int(x) for x in dp.gpts)
    sub = case["sub"] if case["sub"] is not None else list(range(n_full))
    ii, jj = torch.nonzero(dp.bf_mask, as_tuple=True)
    lam = wavelength(case["E"])
    # independent tracker of the stored hyper-parameters
    initial_ab, initial_rot = canon_ab(case["ab"].items()), case["rot"]
    opt_ab, opt_rot = {}, None
    bits = lambda d: [[k, fl([v])[0]] for k, v in d.items()]  # noqa
    fb = lambda x: None if x is None else fl([float(x)])[0]  # noqa
    model = drv.ask({"op": "history", "initial_ab": bits(case["ab"]), "initial_rot": fb(case["rot"]),
                     "steps": [{"kind": "call" if st["kind"] == "bad" else st["kind"],
                                "ab": None if st["ab"] is None else [[k, fl([v])[0]] for k, v in st["ab"]],
                                "rot": fb(st["rot"])} for st in h["steps"]]})
    if "ok" not in model:
        raise RuntimeError(f"driver: {model}")
    ctx.dist[f"history:{h['kind']}-{case['kernel']}"] += 1
    # ONE mask buffer and ONE override dict per history: their contents are rewritten in place before every call
    buf = torch.zeros_like(dp.bf_mask) if h.get("buffer", "torch") == "torch" else np.zeros(gpts, dtype=bool)
    odict = {}

    def settings(st_):
        variant = st_.get("mask") or ("full" if st_.get("full_mask") else "sub")
        rows_ = {"full": list(range(n_full)), "sub": sub, "complement": h.get("comp") or sub}[variant]
        if (variant == "full" and not st_.get("via_buffer")) or (variant == "sub" and case["sub"] is None):
            mask_ = None
        else:
            if isinstance(buf, np.ndarray):
                buf[...] = False
            else:
                buf.zero_()
            for s_ in rows_:
                buf[int(ii[s_]), int(jj[s_])] = True
            mask_ = buf
        sc_ = dict(case, u=st_.get("u", case["u"]), ql=st_.get("ql", case["ql"]), flip=st_.get("flip", case["flip"]),
                   eps=st_.get("eps", case["eps"]), alias=st_.get("alias", case["alias"]))
        return rows_, mask_, sc_

    def fresh_mask(fresh_, rows_, mask_):
        return None if mask_ is None else submask_array(fresh_, rows_)

    prev_state = None
    for t, st in enumerate(h["steps"]):
        if st["kind"] == "bad":
            run_bad_step(ctx, hc, t, st, dp, settings, odict, model["ok"][t], bits, fb, gpts)
            continue
        rows, mask, sc = settings(st)
        # requested (effective) hyper-parameters of this step
        stored_ab = dict(initial_ab)
        stored_ab.update(opt_ab)
        if st["kind"] == "grid":
            opt_ab = dict(initial_ab)
            opt_ab.update(canon_ab(st["ab"]))
            opt_rot = st["rot"]
            eff_ab = dict(initial_ab)
            eff_ab.update(opt_ab)
            eff_rot = opt_rot if opt_rot is not None else initial_rot
        else:
            eff_ab = dict(stored_ab)
            if st["ab"] is not None:
                eff_ab.update(canon_ab(st["ab"]))
            eff_rot = st["rot"] if st["rot"] is not None else (opt_rot if opt_rot is not None else initial_rot)
        # run the step on the history object
        if st["kind"] == "grid":
            dp.grid_search_hyperparameters(
                aberration_coefs={k: v for k, v in st["ab"]}, rotation_angle=st["rot"], verbose=False,
                bf_mask=mask, upsampling_factor=sc["u"], max_batch_size=st["b"], deconvolution_kernel=sc["alias"],
                q_highpass=sc["qh"], q_lowpass=sc["ql"], butterworth_order=sc["order"],
                matched_filter_norm_epsilon=sc["eps"], parallax_flip_phase=sc["flip"])
            got = dp.corrected_stack.detach().double().numpy().copy().reshape(len(rows), -1)
            real_eff = {"ab": bits(state.current_aberrations(None)), "rot": fb(state.current_rotation_angle(None))}
        else:
            over_ab = None
            if st["ab"] is not None:
                odict.clear()
                odict.update({k: v for k, v in st["ab"]})
                over_ab = odict
            real_eff = {"ab": bits(state.current_aberrations(over_ab)), "rot": fb(state.current_rotation_angle(st["rot"]))}
            got = recon(dp, sc, bf_mask=mask, b=st["b"], override_aberration_coefs=over_ab,
                        override_rotation_angle=st["rot"]).reshape(len(rows), -1)
            ctx.dist["history-step:mask-" + ("none" if mask is None else f"reused-{h.get('buffer', 'torch')}-buffer:" + (st.get("mask") or "sub/full"))] += 1
        real_state = {"initial_ab": bits(state.initial_aberrations), "optimized_ab": bits(state.optimized_aberrations),
                      "initial_rot": fb(state.initial_rotation_angle), "optimized_rot": fb(state.optimized_rotation_angle)}
        ctx.count()
        ctx.dist[f"history-step:{st['kind']}" + ("+ab" if st["ab"] is not None else "") + ("+rot" if st["rot"] is not None else "")] += 1
        if st["rot"] is not None and float(st["rot"]) == 0.0:
            ctx.dist["history-step:rotation-override-exactly-zero"] += 1
        if st["ab"] is not None and any(float(v) == 0.0 for _, v in st["ab"]):
            ctx.dist["history-step:aberration-override-exactly-zero"] += 1
        # (1) exact stream: model state machine vs the real HyperparameterState
        m = model["ok"][t]
        if m["effective"] != real_eff or m["state"] != real_state:
            ctx.disagree("hyperparameter-state", dict(hc, step=t), m, {"effective": real_eff, "state": real_state},
                         note=f"step {t} ({st['kind']})")
        # (2) predicate: the effective hyper-parameters are the requested ones
        want_eff = {"ab": sorted(bits(eff_ab)), "rot": fb(eff_rot)}
        if {"ab": sorted(real_eff["ab"]), "rot": real_eff["rot"]} != want_eff:
            ctx.pred_fail("history-effective", f"step {t}: the hyper-parameters reconstruct resolves are not the requested ones "
                          "(stored values overridden per call; an explicitly given 0 is a value)", dict(hc, step=t),
                          observed={"ab": dict(state.current_aberrations(None)) if st["kind"] == "grid" else
                                    dict(state.current_aberrations(over_ab)),
                                    "rot": real_eff["rot"] and unfl([real_eff["rot"]])[0]},
                          required={"ab": eff_ab, "rot": float(eff_rot)})
        # (3) predicate: equal to a single call on a fresh object with the same effective hyper-parameters
        fc = dict(sc, ab=eff_ab, rot=eff_rot)
        fresh = make_dp(fc, stack)
        fmask = fresh_mask(fresh, rows, mask)
        want = recon(fresh, fc, bf_mask=fmask, b=st["b"]).reshape(len(rows), -1)
        pix = [(int(ii[s_]), int(jj[s_])) for s_ in rows]
        wts, _ = aperture_weights(fc, gpts, pix)
        W = max(sum(wts), 1e-30)
        dev = stack[rows].astype(np.float64) - stack[rows].astype(np.float64).mean(axis=(1, 2), keepdims=True)
        floor = 0.05 * maxabs(dev) / W
        ok, e = close(got, want, TOL_BATCH, floor)
        ctx.stat_max("history_vs_fresh_rel", e)
        if not ok:
            kern = {a: k for k, al in ALIASES.items() for a in al}.get(sc["alias"].lower(), "unknown")
            ctx.pred_fail(f"history-{kern}", f"step {t} of a call history on one object differs from the same call on a fresh "
                          "object with the same effective hyper-parameters (the result depends on earlier calls)", dict(hc, step=t),
                          observed={"rel_diff": e, "effective": {"ab": eff_ab, "rot": float(eff_rot)}, **summarize(got)},
                          required=summarize(want))
            break
        # (4) parallax closed form with the REQUESTED values
        if h["kind"] == "prlx-closed" and sum(wts) >= 0.5:
            u = sc["u"]
            ans = drv.ask({"op": "prlx_closed", "wavelength": fl([lam])[0], "rsx": fl([case["rs"]])[0], "rsy": fl([case["rs"]])[0],
                           "det_rows": gpts[0], "det_cols": gpts[1], "rotation": fl([float(eff_rot)])[0],
                           "c10": fl([eff_ab.get("C10", 0.0)])[0], "c12": fl([eff_ab.get("C12", 0.0)])[0],
                           "phi12": fl([eff_ab.get("phi12", 0.0)])[0], "r": r, "c": c, "sx": fl([case["sx"]])[0],
                           "sy": fl([case["sy"]])[0], "u": u, "W": fl([sum(wts)])[0], "pix_i": [p_[0] for p_ in pix],
                           "pix_j": [p_[1] for p_ in pix], "vs": [fl(stack[s_]) for s_ in rows]})
            if "ok" not in ans:
                raise RuntimeError(f"driver: {ans}")
            cf = unfl(ans["ok"]["bf"])
            shifts = [unfl(x) for x in ans["ok"]["shifts_px"]]
            pcond = max(1.0, max(math.pi * (abs(float(x[0])) + abs(float(x[1]))) for x in shifts) / 4.0)
            err = maxabs(got.sum(axis=0) - cf) / max(float(np.abs(dev).sum(axis=0).max()) / W, 1e-30)
            ctx.stat_max("history_parallax_closed_form_rel_over_cond", err / pcond)
            ctx.count()
            if not err <= TOL_LIN * pcond:
                zero = all(eff_ab.get(k, 0.0) == 0.0 for k in ("C10", "C12"))
                ctx.pred_fail("history-prlx-" + ("zero" if zero else "shift"),
                              f"step {t}: parallax != sum of the mean-subtracted images translated by the geometric shift for the "
                              "REQUESTED aberrations and rotation, / aperture weight", dict(hc, step=t),
                              observed={"rel_diff": err, "effective": {"ab": eff_ab, "rot": float(eff_rot)}, **summarize(got.sum(axis=0))},
                              required=summarize(cf))
                break


class InjectedInterrupt(KeyboardInterrupt):
    pass


def run_bad_step(ctx, hc, t, st, dp, settings, odict, m, bits, fb, gpts):
    """a call that is rejected or raises part-way; the harness (the caller) catches the exception and carries on.  The stored
    hyper-parameters must be what they were (exact stream vs the model, where a call never changes the state); every
    LATER valid call of the history is compared with a fresh object as usual"""
    import torch
    state = dp.hyperparameter_state
    rows, mask, sc = settings(st["like"])
    fault = st["fault"]
    over_ab = None
    if st["like"]["ab"] is not None or fault == "bad-ab-key":
        odict.clear()
        odict.update({k: v for k, v in (st["like"]["ab"] or [])})
        if fault == "bad-ab-key":
            odict["focus"] = 1.0
        over_ab = odict
    kw = dict(bf_mask=mask, b=st["like"]["b"], override_aberration_coefs=over_ab, override_rotation_angle=st["like"]["rot"])
    n = len(rows)
    undo = []
    if fault == "unknown-kernel":
        sc = dict(sc, alias="no-such-kernel")
    elif fault == "eps-none":
        sc = dict(sc, eps=None)
    elif fault == "batch-zero":
        kw["b"] = 0
    elif fault == "mask-shape":
        kw["bf_mask"] = torch.zeros((gpts[0] + 1, gpts[1]), dtype=torch.bool)
    elif fault == "mask-not-sub":
        # the step's pixels plus one detector pixel outside the construction mask, streamed one pixel at a time
        outside = torch.nonzero(~dp.bf_mask)
        if len(outside) == 0:
            fault = "unknown-kernel"
            sc = dict(sc, alias="no-such-kernel")
        else:
            mm = torch.zeros_like(dp.bf_mask)
            ii, jj = torch.nonzero(dp.bf_mask, as_tuple=True)
            for s_ in rows:
                mm[ii[s_], jj[s_]] = True
            o_ = outside[st["k"] % len(outside)]
            mm[o_[0], o_[1]] = True
            kw.update(bf_mask=mm, b=1)
    elif fault in ("kernel-call-fault", "ifft-fault"):
        exc = {"RuntimeError": RuntimeError, "MemoryError": MemoryError, "KeyboardInterrupt": InjectedInterrupt}[st["exc"]]
        kw["b"] = 1 if n > 1 else kw["b"]
        at = 2 + st["k"] % max(1, n - 1) if n > 1 else 1        # raise on the at-th call (after at-1 batches went through)
        cnt = [0]
        if fault == "kernel-call-fault" and getattr(type(dp), "_return_kernel_contributions", None) is None:
            fault = "ifft-fault"        # the private method is gone: fall back to the library-level hook
        if fault == "kernel-call-fault":
            orig = type(dp)._return_kernel_contributions.__get__(dp)

            def wrap(*a):
                cnt[0] += 1
                if cnt[0] == at:
                    raise exc("injected fault in a callee")
                return orig(*a)
            dp._return_kernel_contributions = wrap
            undo.append(lambda: dp.__dict__.pop("_return_kernel_contributions", None))
        else:
            # library-level hook: every inverse transform the call makes (ifft2 or its spelling ifftn)
            for nm_ in ("ifft2", "ifftn"):
                real_f = getattr(torch.fft, nm_)

                def hooked(*a, _f=real_f, **k):
                    cnt[0] += 1
                    if cnt[0] == at:
                        raise exc("injected fault in a callee")
                    return _f(*a, **k)
                setattr(torch.fft, nm_, hooked)
                undo.append(lambda nm_=nm_, real_f=real_f: setattr(torch.fft, nm_, real_f))
    raised = "no-exception"
    try:
        recon(dp, sc, **kw)
    except (Exception, InjectedInterrupt) as e:  # noqa
        raised = type(e).__name__
    finally:
        for u_ in undo:
            u_()
    ctx.count()
    ctx.dist[f"history-bad-call:{fault}:{raised}"] += 1
    real_state = {"initial_ab": bits(state.initial_aberrations), "optimized_ab": bits(state.optimized_aberrations),
                  "initial_rot": fb(state.initial_rotation_angle), "optimized_rot": fb(state.optimized_rotation_angle)}
    if m["state"] != real_state:
        ctx.disagree("hyperparameter-state", dict(hc, step=t), m["state"], real_state,
                     note=f"step {t}: a call that raised ({fault}: {raised}) changed the stored hyper-parameters")


def run_histories(ctx, drv, rng):
    for idx in range(ctx.n(30, 120)):
        hc = gen_history(rng.fork(idx), idx)
        guarded(ctx, hc, run_history, ctx, drv, hc)


# ---------------------------------------------------------------------------------------
# input representations: every input drawn over (container x dtype x memory layout) with unchanged logical value

def _is_int(x):
    return float(x) == int(float(x))


def _is_f32(x):
    return float(np.float32(x)) == float(x)


def scalar_kinds(x, torch_ok=False):
    ks = ["float", "np.float64", "0d-float"]
    if _is_int(x):
        ks += ["int", "np.int64", "np.int32", "0d-int"]
    if _is_f32(x):
        ks += ["np.float32"]
    if torch_ok:
        ks += ["torch"]
    return ks


def wrap_scalar(kind, x):
    import torch
    return {"float": lambda: float(x), "int": lambda: int(x), "np.float64": lambda: np.float64(x), "np.float32": lambda: np.float32(x),
            "np.int64": lambda: np.int64(int(x)), "np.int32": lambda: np.int32(int(x)), "0d-float": lambda: np.array(float(x)),
            "0d-int": lambda: np.array(int(x)), "torch": lambda: torch.tensor(float(x))}[kind]()


def draw_scalar(rng, x, torch_ok=False):
    return rng.choice(scalar_kinds(x, torch_ok))


def wrap_seq(spec, xs):
    """spec = [container, [kind per element]]"""
    cont, kinds = spec
    if cont == "float-array":
        return np.array([float(x) for x in xs])
    if cont == "int-array":
        return np.array([int(x) for x in xs])
    vals = [wrap_scalar(k, x) for k, x in zip(kinds, xs)]
    return tuple(vals) if cont == "tuple" else vals


def draw_seq(rng, xs):
    conts = ["tuple", "list", "float-array"] + (["int-array"] * 2 if all(_is_int(x) for x in xs) else [])
    return [rng.choice(conts), [draw_scalar(rng, x) for x in xs]]


STACK_REPRS = ["f32-C", "f64", "fortran", "strided", "transposed", "torch"]
MASK_REPRS = ["bool", "uint8", "int64", "float32", "fortran-bool"]
SUB_REPRS = ["torch-bool", "np-bool", "torch-uint8", "np-uint8", "np-int32", "np-int64", "torch-int64", "int-diff", "nested-bool",
             "nested-int", "np-float32", "fortran-bool", "strided-bool", "torch-float32"]


def wrap_stack(kind, stack):
    import torch
    if kind == "f64":
        return stack.astype(np.float64)
    if kind in ("int64", "uint8"):
        return stack.astype(kind)
    if kind == "fortran":
        return np.asfortranarray(stack)
    if kind == "strided":
        big = np.full((stack.shape[0], 2 * stack.shape[1], 2 * stack.shape[2]), 7.0, dtype=np.float32)
        big[:, ::2, ::2] = stack
        return big[:, ::2, ::2]
    if kind == "transposed":
        return np.ascontiguousarray(stack.transpose(2, 1, 0)).transpose(2, 1, 0)
    if kind == "torch":
        return torch.as_tensor(stack.copy())
    return np.ascontiguousarray(stack, dtype=np.float32)


def wrap_mask(kind, mask):
    if kind == "fortran-bool":
        return np.asfortranarray(mask)
    return mask.astype({"bool": bool, "uint8": np.uint8, "int64": np.int64, "float32": np.float32}[kind])


def wrap_sub(kind, sub, full):
    import torch
    if kind == "torch-bool":
        return torch.as_tensor(sub.copy())
    if kind == "np-bool":
        return sub.copy()
    if kind == "torch-uint8":
        return torch.as_tensor(sub.astype(np.uint8))
    if kind == "torch-int64":
        return torch.as_tensor(sub.astype(np.int64))
    if kind == "torch-float32":
        return torch.as_tensor(sub.astype(np.float32))
    if kind == "int-diff":
        return full.astype(int) - (full & ~sub).astype(int)
    if kind == "nested-bool":
        return sub.tolist()
    if kind == "nested-int":
        return sub.astype(int).tolist()
    if kind == "fortran-bool":
        return np.asfortranarray(sub)
    if kind == "strided-bool":
        return np.repeat(np.repeat(sub, 2, 0), 2, 1)[::2, ::2]
    return sub.astype({"np-uint8": np.uint8, "np-int32": np.int32, "np-int64": np.int64, "np-float32": np.float32}[kind])


def gen_repr_case(rng, idx):
    while True:
        case = _gen_case_once(rng, idx)
        lam = wavelength(case["E"])
        mrad = rng.chance(0.6)
        msamp = rng.choice([2, 3, 4]) if mrad else rng.choice([0.0625, 0.125])
        rs = msamp / (lam * 1e3) if mrad else msamp
        sxy = [rng.choice([1, 2, 3]) if rng.chance(0.6) else rng.choice([0.5, 0.75, 1.5]) for _ in range(2)]
        amax_px = rng.uniform(1.6, 3.6)
        sa = max(1, round(amax_px * rs * lam * 1e3))
        amax = sa * 1e-3
        c10 = float(round(rng.uniform(-1, 1) * 4.0 * lam / (amax * amax)))
        c12 = float(round(rng.uniform(-1, 1) * 3.0 * lam / (amax * amax)))
        phi = rng.choice([0.5, -0.25, 1, 0])
        ab = rng.choice([{}, {"C10": c10}, {"C12": c12, "phi12": phi}, {"C10": c10, "C12": c12, "phi12": phi},
                         {"defocus": c10}, {"C21": float(round(rng.uniform(-1, 1) * 6.0 * lam / amax ** 3)), "phi21": phi}])
        case.update({"units": "mrad" if mrad else "A^-1", "msamp": msamp, "rs": rs, "sx": sxy[0], "sy": sxy[1], "semiangle": sa,
                     "rot": rng.choice([0, 1, -2, 3, 0.5, -0.75]), "ab": ab, "crop": False, "pad": 1,
                     "eps": rng.choice([0.1, 1]), "u": rng.weighted([(1, 2), (2, 3), (3, 3)]),
                     "ql": None if rng.chance(0.7) else rng.choice([0.125, 0.25]), "qh": None})
        sub = case["sub"] if case["sub"] is not None else list(range(len(case["pix"])))
        wts, margin = aperture_weights(case, case["det"], [case["pix"][t] for t in sub])
        if sum(wts) >= 0.5 and margin >= 1e-3:
            break
    n = len(sub)
    variants = []
    for _ in range(rng.randint(4, 6)):
        v = {"stack": rng.choice(STACK_REPRS + (["int64", "uint8"] if case["stack_kind"] == "int" else [])),
             "mask": rng.choice(MASK_REPRS),
             "sub": rng.choice(SUB_REPRS) if (case["sub"] is not None or rng.chance(0.5)) else None,
             "samp": draw_seq(rng, [1, case["sx"], case["sy"]]), "msamp": draw_seq(rng, [msamp, msamp]),
             # energy: no np.float32 (electron_wavelength_angstrom in core/utils underflows in float32 - outside the anchors)
             "E": rng.choice([k for k in scalar_kinds(case["E"]) if k != "np.float32"]),
             "rot": draw_scalar(rng, case["rot"], True), "sa": draw_scalar(rng, sa),
             "ab": {k: draw_scalar(rng, val, True) for k, val in ab.items()}, "ab_as_override": rng.chance(0.3),
             "u": rng.choice(["int", "float", "np.int64"]), "b": [rng.randint(1, n), rng.choice(["int", "np.int64"])],
             # per-call numerics as Python / NumPy scalars (0-d arrays are not accepted by torch arithmetic: not claimed)
             "eps": rng.choice([k for k in scalar_kinds(case["eps"]) if not k.startswith("0d")]),
             "pad": rng.choice(["int", "np.int64"]),
             "ql": None if case["ql"] is None else rng.choice([k for k in scalar_kinds(case["ql"]) if not k.startswith("0d")])}
        variants.append(v)
    return {"repr_case": {"variants": variants, **case}}


def run_repr_case(ctx, rc):
    from quantem.core.datastructures import Dataset2d, Dataset3d
    from quantem.diffractive_imaging.direct_ptychography import DirectPtychography
    case = {k: v for k, v in rc.items() if k != "variants"}
    gr, gc = case["det"]
    r, c = case["scan"]
    n_full = len(case["pix"])
    full = np.zeros((gr, gc), dtype=bool)
    for i, j in case["pix"]:
        full[i, j] = True
    rows = sorted(case["pix"])                       # stack order = row-major order of the mask
    sub_rows = case["sub"] if case["sub"] is not None else list(range(n_full))
    subm = np.zeros((gr, gc), dtype=bool)
    for t in sub_rows:
        subm[tuple(rows[t])] = True
    stack = gen_stack(case["stack_seed"], n_full, r, c, case["stack_kind"])
    units = (case["units"],) * 2
    msamp = case["msamp"]
    n = len(sub_rows)

    def call(v):
        """v = None: the canonical form (bool masks, Python floats, float32 C-contiguous stack)"""
        W = (lambda kind, x: wrap_scalar(kind, x)) if v else None
        vbf = Dataset3d.from_array(wrap_stack(v["stack"], stack) if v else stack, name="vbf", units=("index", "A", "A"),
                                   sampling=wrap_seq(v["samp"], [1, case["sx"], case["sy"]]) if v else (1, float(case["sx"]), float(case["sy"])))
        md = Dataset2d.from_array(wrap_mask(v["mask"], full) if v else full, name="mask", units=units,
                                  sampling=wrap_seq(v["msamp"], [msamp, msamp]) if v else (float(msamp), float(msamp)))
        ab = {k: (W(v["ab"][k], val) if v else float(val)) for k, val in case["ab"].items()}
        as_over = bool(v and v["ab_as_override"])
        dp = DirectPtychography.from_virtual_bfs(
            vbf, md, energy=W(v["E"], case["E"]) if v else float(case["E"]),
            rotation_angle=(0.0 if as_over else (W(v["rot"], case["rot"]) if v else float(case["rot"]))),
            aberration_coefs={} if as_over else ab, semiangle_cutoff=W(v["sa"], case["semiangle"]) if v else float(case["semiangle"]),
            soft_edges=case["soft"], crop_bf_mask=False, bf_mask_padding_px=W(v["pad"], 1) if v else 1, verbose=False)
        if v is None or v["sub"] is None:
            m = None if case["sub"] is None else __import__("torch").as_tensor(subm.copy())
        else:
            m = wrap_sub(v["sub"], subm, full)
        kw = dict(bf_mask=m, upsampling_factor=({"int": int, "float": float, "np.int64": np.int64}[v["u"]](case["u"]) if v else case["u"]),
                  max_batch_size=(W(v["b"][1], v["b"][0]) if v else n), deconvolution_kernel=case["alias"], q_highpass=None,
                  q_lowpass=(None if case["ql"] is None else (W(v["ql"], case["ql"]) if v else case["ql"])),
                  butterworth_order=case["order"], matched_filter_norm_epsilon=W(v["eps"], case["eps"]) if v else float(case["eps"]),
                  parallax_flip_phase=case["flip"], verbose=False)
        if as_over:
            kw.update(override_aberration_coefs=ab, override_rotation_angle=W(v["rot"], case["rot"]))
        dp.reconstruct(**kw)
        return dp.corrected_stack.detach().double().numpy().copy().reshape(n, -1)

    ref = call(None)
    wts, _ = aperture_weights(case, (gr, gc), [rows[t] for t in sub_rows])
    dev = stack[sub_rows].astype(np.float64) - stack[sub_rows].astype(np.float64).mean(axis=(1, 2), keepdims=True)
    floor = 0.05 * maxabs(dev) / max(sum(wts), 1e-30)
    lam = wavelength(case["E"])
    ph = 1.0
    if case["kernel"] == "prlx":   # float32 phase conditioning as in the main stream (batch size differs between the two calls)
        am = case["semiangle"] * 1e-3 * 1.6
        g = 2 * math.pi * am * (abs(case["ab"].get("C10", case["ab"].get("defocus", 0.0))) + abs(case["ab"].get("C12", 0.0)))
        ph = max(1.0, g * case["u"] * (0.5 / case["sx"] + 0.5 / case["sy"]) / 4.0)
    for vi, v in enumerate(rc["variants"]):
        ctx.count()
        for name in ("stack", "mask", "sub"):
            ctx.dist[f"repr-{name}:{v[name]}"] += 1
        ctx.dist[f"repr-scan-sampling:{v['samp'][0]}" + ("" if v["samp"][0].endswith("array") else "(" + ",".join(v["samp"][1][1:]) + ")")] += 1
        ctx.dist[f"repr-rotation:{v['rot']}"] += 1
        try:
            got = call(v)
        except Exception as e:  # noqa
            ctx.pred_fail(f"repr-exception-{type(e).__name__}", "an input given in another container/dtype/memory layout with the same "
                          "logical value makes the real code raise", {"repr_case": rc, "variant": vi}, observed=repr(e)[:300],
                          required="the canonical-form result")
            continue
        ok, e = close(got, ref, TOL_BATCH * ph, floor)
        ctx.stat_max("representation_rel", e / ph)
        if not ok:
            ctx.pred_fail(f"repr-{case['kernel']}", "the reconstruction changes when inputs are given in another container / dtype / "
                          "memory layout with the same logical value", {"repr_case": rc, "variant": vi},
                          observed={"rel_diff": e, "variant": v, **summarize(got)}, required=summarize(ref))


def run_repr_cases(ctx, rng):
    for idx in range(ctx.n(20, 60)):
        rc = gen_repr_case(rng.fork(idx), idx)
        guarded(ctx, rc, run_repr_case, ctx, rc["repr_case"])


# ---------------------------------------------------------------------------------------
# alias table

def run_aliases(ctx, drv, rng):
    # a problem on which the five kernels give five different reconstructions (so that a name resolved to the wrong kernel
    # shows); candidates are tried in a fixed order
    kw0 = dict(upsampling_factor=1, q_lowpass=None, q_highpass=None, parallax_flip_phase=False, verbose=False)
    for attempt in range(8):
        case = gen_case(rng.fork(12345 + attempt), attempt)
        case.update({"crop": False, "sub": None})
        r, c = case["scan"]
        dp = make_dp(case, gen_stack(1, len(case["pix"]), r, c, "int"))
        outs = []
        for k in KERNELS:
            dp.reconstruct(deconvolution_kernel=k, **kw0)
            outs.append(dp.corrected_stack.detach().numpy().copy())
        if all(not np.array_equal(outs[a], outs[b]) for a in range(5) for b in range(a)):
            break
    ctx.dist[f"alias:problem-with-distinct-kernel-results-found-at-attempt-{attempt}"] += 1
    names = []
    for k, al in ALIASES.items():
        for a in al:
            names += [a, a.upper(), rand_case_name(rng, a)]
    names += ["", "ssb ", " obf", "single_sideband", "SSB2", "ptycho", "com", "icom-", "matched filter", "wdd", "dpc", "parallax\n",
              "tcbF", "ACBF", "Optimum-Bright-Field", "centre-of-mass", "center of mass", "ＳＳＢ"]
    for _ in range(ctx.n(20, 200)):
        base = rng.choice([a for al in ALIASES.values() for a in al])
        s = list(base)
        op = rng.below(3)
        if op == 0 and s:
            del s[rng.below(len(s))]
        elif op == 1:
            s.insert(rng.below(len(s) + 1), rng.choice("abcxyz-_ 1"))
        else:
            s[rng.below(len(s))] = rng.choice("abcxyz-_ 1")
        names.append("".join(s))
    valid = {a: k for k, al in ALIASES.items() for a in al}
    # PUBLIC API only: reconstruct(deconvolution_kernel=<name>) must equal, bit for bit, reconstruct(deconvolution_kernel=<its
    # canonical kernel>), and an unknown name must raise ValueError there
    kw = dict(upsampling_factor=1, q_lowpass=None, q_highpass=None, parallax_flip_phase=False, verbose=False)
    refs = {}
    for k in KERNELS:
        dp.reconstruct(deconvolution_kernel=k, **kw)
        refs[k] = dp.corrected_stack.detach().numpy().copy()

    def resolve_public(nm):
        try:
            dp.reconstruct(deconvolution_kernel=nm, **kw)
        except Exception as e:  # noqa
            return {"err": type(e).__name__}
        got = dp.corrected_stack.detach().numpy()
        # every kernel whose reconstruction this is, bit for bit (two kernels may coincide on a problem, e.g. ssb = obf
        # when |gamma| is 0 or 1 everywhere)
        return {"ok": [k for k in KERNELS if got.shape == refs[k].shape and np.array_equal(got, refs[k])]}

    private = getattr(dp, "_normalize_kernel_name", None)      # internal stage, only if the helper still exists under this name
    if private is None:
        ctx.extra["internal-stage-skipped:_normalize_kernel_name"] = "private helper not found; aliases judged through reconstruct() only"
    for nm in names:
        impl = resolve_public(nm)
        m = drv.ask({"op": "normalize", "name": nm})
        ctx.count()
        ctx.dist["alias:" + ("known" if nm.lower() in valid else "unknown")] += 1
        agree = (m.get("ok") in impl["ok"]) if ("ok" in m and "ok" in impl) else (m == impl)
        if not agree:
            ctx.disagree("alias", {"name": nm}, m, impl, note="kernel the public reconstruct() resolves the name to")
        if private is not None:
            try:
                pimpl = {"ok": private(nm)}
            except Exception as e:  # noqa
                pimpl = {"err": type(e).__name__}
            if m != pimpl:
                ctx.disagree("alias-internal", {"name": nm}, m, pimpl, note="_normalize_kernel_name")
        want = {"ok": valid[nm.lower()]} if nm.lower() in valid else {"err": "ValueError"}
        holds = (want["ok"] in impl.get("ok", [])) if "ok" in want else (impl == want)
        if not holds:
            ctx.pred_fail("alias-table", "reconstruct(deconvolution_kernel=<alias>) is not the reconstruction of its kernel / unknown "
                          "name not rejected with ValueError", {"alias_name": nm}, observed=impl, required=want)


# ---------------------------------------------------------------------------------------
# defaults of the public entry point (tie, not a predicate: the property does not state them)

PINNED_DEFAULTS = dict(bf_mask=None, override_aberration_coefs=None, upsampling_factor=None, override_rotation_angle=None,
                       max_batch_size=None, deconvolution_kernel="single-sideband", q_highpass=None, q_lowpass=None,
                       butterworth_order=12, matched_filter_norm_epsilon=1e-1, parallax_flip_phase=True, use_initial_state=False)


def run_defaults(ctx, rng):
    """`reconstruct()` with an argument left out must behave as with the default the model assumes for it (behavioural: a
    refactored signature that keeps the behaviour stays silent)"""
    case = gen_case(rng.fork(4242), 0)
    case.update({"crop": False, "sub": None, "ab": {"C10": case["ab"].get("C10", 300.0)}, "u": 1})
    r, c = case["scan"]
    stack = gen_stack(7, len(case["pix"]), r, c, "dyadic")
    dp = make_dp(case, stack)
    for kern in KERNELS:
        for left_out in PINNED_DEFAULTS:
            if left_out == "deconvolution_kernel" and kern != "ssb":
                continue
            full = dict(PINNED_DEFAULTS, deconvolution_kernel=kern, verbose=False)
            dp.reconstruct(**full)
            a = dp.corrected_stack.detach().double().numpy().copy()
            part = {k: v for k, v in full.items() if k != left_out}
            dp.reconstruct(**part)
            b = dp.corrected_stack.detach().double().numpy().copy()
            ctx.count()
            ctx.dist["defaults:left-out-arguments"] += 1
            if a.shape != b.shape or not np.array_equal(a, b):
                ctx.disagree("defaults", {"defaults_case": True, "kernel": kern, "left_out": left_out}, {"default": PINNED_DEFAULTS[left_out]},
                             summarize(b), note=f"reconstruct() without `{left_out}` differs from `{left_out}={PINNED_DEFAULTS[left_out]!r}`")


# ---------------------------------------------------------------------------------------

def guarded(ctx, case, fn, *args):
    """an exception raised while the real code processes a valid input is a failure of the property on that input
    (the reconstruction is not a function of its inputs there), not a harness crash; driver failures stay infra errors"""
    try:
        fn(*args)
    except RuntimeError as e:
        if str(e).startswith("driver"):
            raise
        ctx.pred_fail(f"exception-{type(e).__name__}", "valid input: the real code raised", case, observed=repr(e)[:300],
                      required="a reconstruction")
    except Exception as e:  # noqa
        ctx.pred_fail(f"exception-{type(e).__name__}", "valid input: the real code raised", case, observed=repr(e)[:300],
                      required="a reconstruction")


def run(ctx):
    import torch
    from qv.driver import Driver
    torch.set_grad_enabled(False)
    # `reconstruct` ends with two `gc.collect()` calls; with everything imported so far moved to the permanent
    # generation they only walk the objects created since (the collections still run, nothing is patched)
    import gc
    gc.collect()
    gc.freeze()
    drv = Driver("C04")
    try:
        run_aliases(ctx, drv, ctx.rng.fork(999))
        guarded(ctx, {"defaults_case": True}, run_defaults, ctx, ctx.rng.fork(995))
        run_crop_cases(ctx, ctx.rng.fork(998))
        nprob = ctx.n(50, 300)
        for idx in range(nprob):
            rng = ctx.rng.fork(idx)
            case = gen_case(rng, idx)
            guarded(ctx, case, run_problem, ctx, drv, case)
        run_histories(ctx, drv, ctx.rng.fork(997))
        run_repr_cases(ctx, ctx.rng.fork(996))
        c04_r6.run(ctx, drv)       # growth round 6: fixed blocks (quadrants, H != W, two live objects, half-sets, num_bf > 255)
    finally:
        drv.close()


def replay(ctx, rep):
    import torch
    from qv.driver import Driver
    torch.set_grad_enabled(False)
    case = rep.get("case") or (rep.get("correspondence_disagreements") or [{}])[0].get("case")
    if not case:
        return True
    drv = Driver("C04")
    try:
        if "r6_session" in case:
            c04_r6.run_sessions(ctx, drv)
        elif "r6_large" in case:
            c04_r6.run_large(ctx)
        elif "alias_name" in case or "name" in case:
            run_aliases(ctx, drv, _rng(0))
        elif "defaults_case" in case:
            run_defaults(ctx, _rng(0).fork(995))
        elif "crop_case" in case:
            run_crop_case(ctx, case["crop_case"])
        elif "repr_case" in case:
            run_repr_case(ctx, case["repr_case"])
        elif "history" in case:
            run_history(ctx, drv, {k: v for k, v in case.items() if k != "step"})
        elif case.get("prlx_case"):
            # the parallax sub-case is re-derived from the generating problem
            n_full = len(case["pix"])
            r, c = case["scan"]
            stack = gen_stack(case["stack_seed"], n_full, r, c, case["stack_kind"])
            run_parallax(ctx, drv, {k: v for k, v in case.items() if k != "prlx_case"}, stack, {})
        else:
            case = {k: v for k, v in case.items() if k not in ("b", "item", "A", "B")}
            run_problem(ctx, drv, case)
    finally:
        drv.close()
    return True
