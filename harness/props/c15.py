"""C15 — drift-correction resampling geometry (DriftCorrection.preprocess, DriftInterpolator.transform_rows /
transform_coordinates / warp_image, imaging_utils.bilinear_kde, DriftCorrection.align_translation):
correspondence with Model/Drift.lean + the property predicate on the real code."""
import math
from fractions import Fraction

import numpy as np

LEVEL = "proof"
EXTRA_PROPS = ["QuantemModel.Props.C15Ext"]   # growth 6: batch loop of bilinear_kde (batch-size independence, unit total weight)
MANIFEST_ENTRY = {
    "category": "proof",
    "text": "Lean 4 theorems over an executable model of drift.py's initial geometry (np.linspace, initial knot placement, "
            "transform_rows for 1..4 knots with interp1d quadratic/cubic in Lagrange form, the bilinear splat of bilinear_kde with "
            "wrap indexing, the align_translation loop with running-mean reference, mean removal and knot update) and — new in round 5 — "
            "over a state machine of one DriftCorrection object (Model/DriftSession.lean: assignment to scan_direction_degrees, "
            "preprocess with every branch of validate_pad_value, the float()/int() conversions of the setters in code order, the "
            "number_knots >= 1 check, the canvas from images[0]/images[1], the late failures [empty canvas, sigma=inf]; align_translation "
            "with its implicit default preprocess, wrong-typed registration arguments, an exception raised by a callee inside the loop, "
            "the min_image_shift rule as written; align_affine with the num_tests parity check, candidate drift vectors, failures inside "
            "the search loop, the committed shear and its two nested align_translation calls): every pixel "
            "(r,c) is placed at canvas centre + (c-(W-1)/2)·fast + (r-(H-1)/2)·slow for every H, W, canvas, scan vectors and knot "
            "count 1..4; interp1d through 2/3/4 knots (Lagrange form) reproduces every polynomial of degree <= k-1 and knot-count "
            "independence is derived from that; the four splat weights of a point are >= 0, add up to exactly 1 over the canvas "
            "(also for wrapped border / outside positions) and have their centroid exactly at the position; the weight map sums "
            "to the number of pixels; a normalised kernel conserves the total weight under mode='wrap' (any kernel) and under "
            "mode='reflect' — the mode the code uses — for every symmetric kernel (counterexample for an asymmetric one); a stack of identical images is a fixed point of the alignment loop for any registration routine "
            "that returns zero shift and the unchanged image on identical inputs, and C13's model of cross_correlation_shift on the "
            "code's own FFT formulas is such a routine for every upsampling factor and positive max_image_shift whenever the canvas "
            "image has a unique positive correlation peak, at least 3x3 pixels and non-zero lowest Fourier coefficients on both "
            "axes (no correlation-theorem or strict-patch hypothesis left; concrete 3x3 witness). "
            "HISTORIES (round 5, every carrier incl. the executed Float instance): for EVERY sequence of public calls starting at from_data in which no "
            "alignment call has succeeded — calls that are rejected or raise part-way may occur anywhere, any number of times — the knots of "
            "every image are exactly the ones preprocess places (pristine_before_any_drift_estimate), hence the placement formula holds "
            "(placement_after_any_history_without_drift, images of different shapes in one stack included); a call that raises leaves the "
            "geometry unchanged or freshly re-made (raising_call_keeps_or_resets_geometry); a raising align_translation / align_affine on an "
            "object with knots returns exactly the previous state (raising_alignment_call_is_atomic); preprocess depends on the object only "
            "through image shapes and CURRENT scan directions (preprocess_forgets_history); align_translation moves every pixel by exactly "
            "the applied shift for 1..4 arbitrary knots (translation_moves_every_pixel_by_the_shift; shear analogue for align_affine), the "
            "applied shifts add up to zero, zero measured shifts return the state bit for bit for any min_image_shift "
            "(zero_shifts_leave_geometry_unchanged, identical_stack_fixed_point_of_the_call); validate_pad_value accepts exactly the four "
            "statistic names, numbers in [0,1] and number lists of one entry per image. "
            "Tied to the code on every run by float64 differential runs of preprocess/transform_coordinates/align_translation, "
            "an exact (dyadic-coordinate) differential run of bilinear_kde, and a LOCKSTEP run of call histories on one real object against the "
            "state machine (outcome class ok/ValueError/TypeError/IndexError/OverflowError/injected fault, canvas, knots and per-pixel coordinates "
            "after every call, attributes after every successful call), next to a twin object that only receives the calls that succeeded "
            "(bit-for-bit equality after every call); inputs are drawn over memory layouts (C/Fortran/"
            "transposed/strided/negative-stride, mixed in one stack), dtypes, list vs 3-D containers, keyword and positional call forms "
            "(parameter order pinned), argument forms (int/float/bool/NumPy scalar/numeric string/NaN/inf/None/garbage) and call histories "
            "including rejected calls, wrong-typed callee arguments and exceptions (RuntimeError, KeyboardInterrupt) injected into the k-th "
            "cross_correlation_shift call of align_translation / align_affine. "
            "ROUND 6: the batch loop of bilinear_kde as written (Model/DriftBatch.lean: utils.subdivide_batches / generate_batches, pix_count accumulated "
            "slice by slice) with theorems in Props/C15Ext.lean — the slices tile the point list exactly for EVERY point count and batch size "
            "(subdivide_batches_sum, subdivide_batches_bounds: ceil(n/max_batch) non-empty slices of at most max_batch points; "
            "subdivide_batches_returns_iff: the call raises exactly for an empty point list / batch size 0), hence the weight map is independent of "
            "max_batch_size (batched_weight_map_eq, weight_map_independent_of_batch_size) and totals the number of points on every non-empty canvas, "
            "border / outside points included (batched_weight_map_total = front end + splat core composed). Tied by an exact stream (slices vs "
            "generate_batches, pix_count vs weightMapBatched for batch sizes dividing the count / leaving remainder 1 / exceeding it / None, 6, 7 and 300 "
            "points, negative coordinates, points on the last row / column) and FIXED blocks independent of the seed: pad_fraction 0 with on-axis scans "
            "(samples exactly on the last canvas row / column), corners leaving the canvas, scan angles in every quadrant / negative / beyond 360 degrees, "
            "knot counts 1..4; landscape and portrait canvases at upsample factors 1, 2, 8 (identical stacks; stacks rolled by +-1 px and by more than half "
            "the shorter canvas axis against the model); one object used twice (preprocess -> align_translation / align_affine that moves the knots -> second "
            "object with the same geometry -> preprocess again: placement, unit weights, equality with the fresh object, second alignment).",
    "note": "Trusted: Lean kernel + propext/Classical.choice/Quot.sound; scipy.interpolate.interp1d (quadratic/cubic through "
            "3/4 points = the interpolating polynomial) is modelled and measured; scipy.ndimage.gaussian_filter is modelled as a "
            "separable correlation with a symmetric normalised kernel and reflect boundary (conservation proved for that model, "
            "still measured on scipy itself); float32 accumulation of the weight map. In the state machine what the registration MEASURES "
            "(raw shifts, index of the cheapest affine candidate) is a parameter of the op: the lockstep run feeds it the shifts C13's model "
            "measures on the real warped stack; a successful align_affine / align_nonrigid is followed on the twin only (not on the model). "
            "Still measured only: Gaussian-filter conservation on scipy, interp1d = Lagrange polynomial, float32 noise of the fixed point, "
            "align_nonrigid (only its raising calls are exercised, against the twin), generate_corrected_image (outside the property). "
            "Exact correlation ties (canvas invariant under a circular shift, e.g. constant along a 2-pixel-wide axis) are rejected by the "
            "generators: the shift is not determined by the data there (hypothesis UniquePeak of the fixed-point theorems).",
    "technique": "Lean 4 proof (field identities for Lagrange interpolation of affine data, finite case analysis of wrap indexing, induction over the image list, invariant over every history of a state machine incl. raising calls) + model-vs-implementation correspondence (differential, exact, and lockstep call histories with fault injection and a twin object)",
}
RULE = ("a case is one preprocess configuration (shape, per-image scan angles, pad fraction, knot count, pad_value kind, kde sigma), "
        "one bilinear_kde call, one align_translation run, one history of preprocess() calls with changed configuration on a single object, or one session "
        "(history of set-angles / preprocess / align_translation / align_affine / align_nonrigid calls incl. rejected and raising ones on one object, in lockstep "
        "with the state machine and a twin); distinct non-trivial = distinct (stream, shape parity/squareness, knot "
        "count, angle class [axis-aligned/oblique], pad fraction, stack size, upsample factor) with H*W > 1; for sessions distinct (stack size, mixed shapes, "
        "identical, set of (op, reason) kinds, final knot count); round-6 fixed blocks: reuse = distinct (shape parity, knot count, translation/affine, angle class, "
        "upsample factor), splatb = distinct (canvas, point count, batch class [none/divides/remainder 1/remainder >1/exceeds]), batches = the fixed (n, max_batch) grid")
TRUSTED = ["scipy.interpolate.interp1d(kind='quadratic'/'cubic') on exactly 3/4 points evaluates the interpolating polynomial",
           "scipy.ndimage.gaussian_filter(mode='reflect') conserves the array sum (measured by the weight-sum predicate)",
           "np.ravel_multi_index(mode='wrap'), np.bincount, np.linspace, np.round (half to even)",
           "np.bincount over a slice adds the same terms as the per-point sum of the model (order of float32 accumulation is irrelevant on the dyadic inputs of the exact streams)",
           "Python float()/int() conversion rules, numbers.Number / isinstance classes of the pad_value forms (modelled in NumArg / PadArg, sampled by the session stream)",
           "the fault-injection wrapper replaces quantem.imaging.drift.cross_correlation_shift (the name the module calls); if a rewrite calls it through another name the fault "
           "does not fire, the call succeeds and is treated as a successful call (no alarm, no exception-safety verdict for that call)"]
ASSUMPTIONS = ["pad fractions whose n*(1+pad)/2 is within 1e-6 of (but not exactly on) a rounding tie of np.round are rejected; exact ties (dyadic pad fractions) are kept",
               "weight sums are compared at float32 accuracy (the library accumulates pix_count in float32)",
               "the fixed-point clause and the align_translation correspondence are evaluated at the float32 tolerance 5e-4 px: the "
               "library stores the warped canvases as float32 and np.fft.fft2 (NumPy >= 2) keeps them complex64, so the measured "
               "shift of an identical stack is float32 noise (observed <= 3e-6 px), not exactly 0",
               "canvases whose circular autocorrelation has no strict maximum at zero shift (invariant under a circular shift) are rejected from the fixed-point clause and from "
               "the registration correspondence: exact argmax tie",
               "session histories keep len(scan_direction_degrees) = number of images and pad_fraction > -1 (shorter angle lists / negative canvases are not modelled)",
               "after a successful align_affine / align_nonrigid the model is not compared until the next preprocess (what the search measured is not replayed on the model)",
               "bilinear_kde with an empty point list or max_batch_size <= 0 raises (ZeroDivisionError, modelled as `none`); negative batch sizes are outside the model",
               "a min_image_shift within 1e-2 px of the measured shift norm is not replayed on the model (the `<` test would be decided by float noise)"]
EXPLANATION = ("Theorems in Props/C15.lean are about Model/Drift.lean and Model/DriftSession.lean; every run drives the real drift code and the model with the "
               "same configurations and compares canvas shapes, knots, coordinates, raw weight maps and measured shifts, and runs call histories "
               "(rejected / raising calls included) on one real object in lockstep with the state machine and with a twin object.")

TOL64 = 1e-9
TOL32 = 5e-4   # align_translation: the canvases are stored as float32 and np.fft.fft2 keeps them complex64


def _drv():
    from qv import driver
    return driver


def ask(drv, req):
    r = drv.ask(req)
    if "ok" not in r:
        raise RuntimeError(f"driver error {r} on {str(req)[:200]}")
    return r["ok"]


def shape_sig(H, W):
    return ("e" if H % 2 == 0 else "o") + ("e" if W % 2 == 0 else "o") + ("sq" if H == W else "ns")


def angle_class(a):
    return "axis" if a % 90 == 0 else "oblique"


def make_image(rng, H, W):
    img = np.array([[rng.randint(0, 9) for _ in range(W)] for _ in range(H)], dtype=float)
    img[rng.below(H), rng.below(W)] += rng.randint(8, 20)
    return img


LAYOUTS = ["C", "F", "T", "step", "neg"]
DTYPES = ["float64", "float32", "int64"]

PINNED_SIGNATURES = {
    "bilinear_kde": ["xa", "ya", "values", "output_shape", "kde_sigma", "pad_value", "threshold", "lowpass_filter",
                     "max_batch_size", "return_pix_count"],
    "DriftCorrection.from_data": ["images", "scan_direction_degrees"],
    "DriftCorrection.preprocess": ["self", "pad_fraction", "pad_value", "kde_sigma", "number_knots", "show_merged", "show_images",
                                   "show_knots", "kwargs"],
    "DriftCorrection.align_translation": ["self", "upsample_factor", "min_image_shift", "max_image_shift", "show_merged", "show_images",
                                          "show_knots", "kwargs"],
    "DriftInterpolator.__init__": ["self", "input_shape", "output_shape", "scan_fast", "scan_slow", "pad_value", "kde_sigma"],
    "DriftInterpolator.transform_rows": ["self", "knots_row"],
    "DriftInterpolator.transform_coordinates": ["self", "knots"],
    "DriftInterpolator.warp_image": ["self", "image", "knots", "kde_sigma", "output_shape", "pad_value", "upsample_factor"],
}


def check_signatures(ctx):
    """the parameter ORDER of the anchored entry points is part of the tie: positional calls depend on it"""
    import inspect
    from quantem.core.utils import imaging_utils as iu
    from quantem.imaging.drift import DriftCorrection, DriftInterpolator
    objs = {"bilinear_kde": iu.bilinear_kde, "DriftCorrection.from_data": DriftCorrection.from_data,
            "DriftCorrection.preprocess": DriftCorrection.preprocess, "DriftCorrection.align_translation": DriftCorrection.align_translation,
            "DriftInterpolator.__init__": DriftInterpolator.__init__, "DriftInterpolator.transform_rows": DriftInterpolator.transform_rows,
            "DriftInterpolator.transform_coordinates": DriftInterpolator.transform_coordinates,
            "DriftInterpolator.warp_image": DriftInterpolator.warp_image}
    for name, f in objs.items():
        got = list(inspect.signature(f).parameters)
        if got != PINNED_SIGNATURES[name]:
            ctx.disagree("signature", {"stream": "signature", "function": name}, PINNED_SIGNATURES[name], got,
                         note=f"parameter order of {name} differs from the pinned signature (positional callers bind differently)")


def apply_layout(img, kind, dtype="float64"):
    """value-identical copies of an image in different memory layouts / dtypes"""
    a = np.asarray(img).astype(dtype)
    if kind == "C":
        return np.ascontiguousarray(a)
    if kind == "F":
        return np.asfortranarray(a)
    if kind == "T":          # transposed view of a C array
        return np.ascontiguousarray(a.T).T
    if kind == "step":       # every second element of a larger buffer
        big = np.zeros((2 * a.shape[0], 2 * a.shape[1]), dtype=a.dtype)
        big[::2, ::2] = a
        return big[::2, ::2]
    if kind == "neg":        # negative strides
        return np.ascontiguousarray(a[::-1, ::-1])[::-1, ::-1]
    raise ValueError(kind)


def make_stack(images, layouts=None, container="list"):
    if layouts is None:
        arrs = [np.array(im, dtype=float, copy=True) for im in images]
    else:
        arrs = [apply_layout(im, k, d) for im, (k, d) in zip(images, layouts)]
    if container == "list":
        return arrs
    st = np.stack([np.asarray(a, dtype=arrs[0].dtype) for a in arrs])
    if container == "array3d":
        return st
    if container == "array3d-F":
        return np.asfortranarray(st)
    if container == "array3d-view":     # image axis last in memory
        return np.ascontiguousarray(st.transpose(1, 2, 0)).transpose(2, 0, 1)
    raise ValueError(container)


def build(images, angles, pad, pad_value, sigma, nk, layouts=None, container="list", positional=False):
    from quantem.imaging.drift import DriftCorrection
    if positional:   # positional call forms, in the pinned parameter order
        return DriftCorrection.from_data(make_stack(images, layouts, container), list(angles)).preprocess(pad, pad_value, sigma, nk)
    return DriftCorrection.from_data(images=make_stack(images, layouts, container), scan_direction_degrees=list(angles)).preprocess(
        pad_fraction=pad, pad_value=pad_value, kde_sigma=sigma, number_knots=nk)


def placement_oracle(H, W, Hc, Wc, deg):
    """canvas centre + scan-direction rotation of the offset from the image centre"""
    th = math.radians(deg)
    fast = (math.sin(-th), math.cos(-th))
    slow = (math.cos(-th), -math.sin(-th))
    r = np.arange(H)[:, None] - (H - 1) / 2.0
    c = np.arange(W)[None, :] - (W - 1) / 2.0
    return ((Hc - 1) / 2.0 + c * fast[0] + r * slow[0], (Wc - 1) / 2.0 + c * fast[1] + r * slow[1])


def canvas_oracle(n, pad):
    v = Fraction(n) * (1 + Fraction(pad)) / 2
    f = math.floor(v)
    r = v - f
    tie = abs(r - Fraction(1, 2))
    if r < Fraction(1, 2):
        k = f
    elif r > Fraction(1, 2):
        k = f + 1
    else:
        k = f if f % 2 == 0 else f + 1
    return 2 * k, float(tie)


def case_coords(ctx, drv, case):
    d = _drv()
    from qv.prng import Rng
    H, W, nk, pad = case["H"], case["W"], case["nk"], case["pad"]
    angles = case["angles"]
    rng = Rng(case["sub"])
    images = [make_image(rng, H, W) for _ in angles]
    Hc_o, tie1 = canvas_oracle(H, pad)
    Wc_o, tie2 = canvas_oracle(W, pad)
    if any(0 < t < 1e-6 for t in (tie1, tie2)):
        # a near-tie could be decided by float rounding of n*(1+pad)/2; an exact tie (dyadic pad, exact float
        # arithmetic) is kept: it is what exercises np.round's half-to-even rule
        ctx.dist["coords:rejected(np.round near-tie)"] += 1
        return
    if Hc_o == 0 or Wc_o == 0:
        # a 1-pixel-wide image with pad 0 rounds to an empty canvas (0.5 -> 0): no resampling exists to be checked
        ctx.dist["coords:rejected(empty canvas for a 1-pixel-wide image)"] += 1
        return
    if tie1 == 0 or tie2 == 0:
        ctx.dist["coords:exact np.round tie (half-to-even exercised)"] += 1
    ctx.count()
    ctx.dist[f"coords:nk={nk}"] += 1
    ctx.dist[f"coords:shape={shape_sig(H, W)}"] += 1
    ctx.dist[f"coords:pad_value={type(case['pad_value']).__name__}:{case['pad_value'] if isinstance(case['pad_value'], str) else ''}"] += 1
    layouts, container, positional = case.get("layouts"), case.get("container", "list"), case.get("positional", False)
    dc = build(images, angles, pad, case["pad_value"], case["sigma"], nk, layouts, container, positional)
    ctx.dist[f"coords:call form={'positional' if positional else 'keyword'}"] += 1
    ctx.dist[f"coords:container={container}"] += 1
    if layouts:
        for k, dt_ in layouts:
            ctx.dist[f"coords:layout={k}/{dt_}"] += 1
        # the memory layout / dtype of value-identical inputs must not matter: compare with plain C float64 inputs
        plain = build(images, angles, pad, case["pad_value"], case["sigma"], nk)
        wd = float(np.max(np.abs(np.asarray(dc.images_warped.array, dtype=float) - np.asarray(plain.images_warped.array, dtype=float)))) \
            if tuple(dc.shape) == tuple(plain.shape) else float("inf")
        ctx.stat_max("coords:warped stack, layout classes vs C float64", wd)
        if not wd <= 1e-6 * max(1.0, float(np.max(np.abs(np.asarray(plain.images_warped.array, dtype=float))))):
            ctx.pred_fail("layout-warped-image", "resampled stack depends on the memory layout / dtype of value-identical input images "
                          "(pixel values are not placed at their own coordinates)", case, observed={"max_diff": wd}, required="identical to C-contiguous float64 input")
    if tuple(dc.shape) != (len(images), Hc_o, Wc_o):
        ctx.pred_fail("canvas-shape", "canvas is not 2*round(n*(1+pad)/2) per axis", case, observed=list(dc.shape), required=[len(images), Hc_o, Wc_o])
    for idx, deg in enumerate(angles):
        ctx.dist[f"coords:angle={angle_class(deg)}"] += 1
        xa, ya = dc.interpolator[idx].transform_coordinates(dc.knots[idx])
        xa = np.asarray(xa, dtype=float)
        ya = np.asarray(ya, dtype=float)
        # ---- property predicate: placement formula
        ex, ey = placement_oracle(H, W, dc.shape[1], dc.shape[2], deg)
        scale = max(1.0, float(dc.shape[1]), float(dc.shape[2]))
        err = max(float(np.max(np.abs(xa - ex))), float(np.max(np.abs(ya - ey)))) if xa.shape == ex.shape else float("inf")
        ctx.stat_max(f"placement_err[nk={nk}]", err)
        if not err <= TOL64 * scale:
            sq = "square" if H == W else "nonsquare"
            ctx.pred_fail(f"placement-nk{nk}-{sq}-{angle_class(deg)}",
                          "pixel (r,c) is not placed at canvas centre + rotation of its offset from the image centre",
                          dict(case, image=idx), observed={"max_err_px": err}, required="<= 1e-9 * canvas size")
        # ---- correspondence with the model
        m = ask(drv, {"op": "coords", "H": H, "W": W, "nk": nk, "pad": d.f2b(pad), "deg": d.f2b(float(deg))})
        if list(m["canvas"]) != [int(dc.shape[1]), int(dc.shape[2])]:
            ctx.disagree("coords-canvas", case, m["canvas"], [int(dc.shape[1]), int(dc.shape[2])], note="canvasDim vs preprocess shape")
            continue
        mk = np.array([[[d.b2f(v) for v in k] for k in row] for row in m["knots"]])   # (H, nk, 2)
        ik = np.transpose(np.asarray(dc.knots[idx], dtype=float), (1, 2, 0))           # (2, H, nk) -> (H, nk, 2)
        dk = float(np.max(np.abs(mk - ik))) if mk.shape == ik.shape else float("inf")
        ctx.stat_max("coords:knots model-vs-impl", dk / scale)
        if not dk <= TOL64 * scale:
            ctx.disagree("coords-knots", dict(case, image=idx), {"knots[0]": mk[0].tolist()}, {"knots[0]": ik[0].tolist() if ik.size else None},
                         note="initialKnot vs preprocess knots")
        mx = np.array([[d.b2f(v) for v in row] for row in m["xa"]])
        my = np.array([[d.b2f(v) for v in row] for row in m["ya"]])
        dxy = max(float(np.max(np.abs(mx - xa))), float(np.max(np.abs(my - ya)))) if mx.shape == xa.shape else float("inf")
        ctx.stat_max(f"coords:coordinates model-vs-impl[nk={nk}]", dxy / scale)
        if not dxy <= TOL64 * scale:
            ctx.disagree("coords-xy", dict(case, image=idx), {"xa[0]": mx[0].tolist(), "ya[0]": my[0].tolist()},
                         {"xa[0]": xa[0].tolist(), "ya[0]": ya[0].tolist()}, note=f"coords vs transform_coordinates (nk={nk})")
        # ---- unit weights: the (Gaussian-smoothed) weight map of the warp sums to the number of pixels
        wsum = float(np.sum(np.asarray(dc.weights_warped.array[idx], dtype=np.float64)))
        rel = abs(wsum - H * W) / (H * W)
        ctx.stat_max("weight_sum_rel_err[warp_image, float32]", rel)
        if not rel <= 1e-4:
            ctx.pred_fail("weight-sum-warp", "weight map of the resampled image does not sum to the number of image pixels",
                          dict(case, image=idx), observed=wsum, required=H * W)
    ctx.mark(("coords", shape_sig(H, W), nk, tuple(sorted({angle_class(a) for a in angles})), pad, len(angles)))
    ctx.sample(case, limit=4)


def gen_coords(rng, i):
    nk = 1 + i % 4
    H = rng.randint(1 if rng.chance(0.05) else 2, 9)
    W = H if rng.chance(0.25) else rng.randint(1 if rng.chance(0.05) else 2, 9)
    n = rng.randint(2, 4)
    angles = []
    for _ in range(n):
        angles.append(rng.weighted([(0, 1), (90, 1), (180, 1), (270, 1), (rng.randint(0, 359), 6), (round(rng.uniform(0, 360), 3), 4)]))
    pad = rng.choice([0.0, 0.125, 0.25, 0.5, 0.1, 0.3, 0.75, round(rng.uniform(0, 1), 3)])
    pv = rng.weighted([("median", 3), ("mean", 1), ("min", 1), ("max", 1), (0.25, 1), (None, 1)])
    if pv is None:
        pv = [float(k) for k in range(n)]
    case = {"stream": "coords", "H": H, "W": W, "nk": nk, "pad": pad, "angles": angles, "pad_value": pv,
            "sigma": rng.choice([0.0, 0.5, 1.0]), "sub": rng.next() & 0xFFFFFFFF}
    r2 = rng.fork(77)
    if r2.chance(0.7):
        container = r2.weighted([("list", 5), ("array3d", 2), ("array3d-F", 1), ("array3d-view", 1)])
        dt = r2.choice(DTYPES)
        case["layouts"] = [[r2.choice(LAYOUTS), dt if container != "list" else r2.choice(DTYPES)] for _ in range(n)]
        case["container"] = container
    case["positional"] = r2.chance(0.4)
    return case


def case_splat(ctx, drv, case):
    """bilinear_kde on dyadic coordinates: raw weight map (kde_sigma = 0) vs the exact model; unit total weight"""
    from quantem.core.utils.imaging_utils import bilinear_kde
    rows, cols = case["rows"], case["cols"]
    pts = case["pts"]          # [[num, den_log2, num, den_log2], ...]  dyadic coordinates
    xa = np.array([p[0] / float(1 << p[1]) for p in pts])
    ya = np.array([p[2] / float(1 << p[3]) for p in pts])
    vals = np.array(case.get("vals") or [1] * len(pts), dtype=float)
    ctx.count()
    ctx.dist[f"splat:batch={'none' if case['batch'] is None else 'set'}"] += 1
    ctx.dist["splat:wraps" if (xa.min() < 0 or ya.min() < 0 or xa.max() >= rows - 1 or ya.max() >= cols - 1) else "splat:inside"] += 1
    # the three inputs as 2-D arrays, each in its own memory layout / dtype (value-identical)
    hw = case.get("hw") or [len(pts), 1]
    lay = case.get("layouts") or [["C", "float64"]] * 3
    ctx.dist["splat:layouts=" + ",".join(k for k, _ in lay)] += 1
    xa2 = apply_layout(xa.reshape(hw), lay[0][0], "float64")
    ya2 = apply_layout(ya.reshape(hw), lay[1][0], "float64")
    va2 = apply_layout(vals.reshape(hw), lay[2][0], lay[2][1])
    if case.get("positional"):
        img, w = bilinear_kde(xa2, ya2, va2, (rows, cols), 0.0, 0.0, 1e-3, False, case["batch"], True)
    else:
        img, w = bilinear_kde(xa=xa2, ya=ya2, values=va2, output_shape=(rows, cols), kde_sigma=0.0, max_batch_size=case["batch"],
                              return_pix_count=True)
    # independent oracle for the value image: every point deposits value*weight at its own four (wrapped) corners
    cnt = np.zeros((rows, cols))
    out = np.zeros((rows, cols))
    for x, y, v in zip(xa, ya, vals):
        fx, fy = math.floor(x), math.floor(y)
        dx, dy = x - fx, y - fy
        for ox, oy, wt in ((0, 0, (1 - dx) * (1 - dy)), (1, 0, dx * (1 - dy)), (0, 1, (1 - dx) * dy), (1, 1, dx * dy)):
            cnt[(fx + ox) % rows, (fy + oy) % cols] += wt
            out[(fx + ox) % rows, (fy + oy) % cols] += wt * v
    wgt = np.minimum(cnt / 1e-3, 1.0)
    exp_img = wgt * (out / np.maximum(cnt, 1e-8))
    derr = float(np.max(np.abs(np.asarray(img, dtype=float) - exp_img))) if np.shape(img) == exp_img.shape else float("inf")
    ctx.stat_max("splat:value image vs independent oracle", derr)
    if not derr <= 1e-5 * max(1.0, float(np.max(np.abs(exp_img)))):
        ctx.pred_fail("splat-values-misplaced", "bilinear_kde does not deposit each value at its own coordinates (memory layout / argument order)",
                      case, observed={"max_diff": derr}, required="weighted mean of the values splatted at their coordinates")
    w = np.asarray(w, dtype=np.float64)
    m = ask(drv, {"op": "splat", "rows": rows, "cols": cols,
                  "pts": [[f"{p[0]}/{1 << p[1]}", f"{p[2]}/{1 << p[3]}"] for p in pts]})
    mw = [[Fraction(*map(int, v.split("/"))) for v in row] for row in m["w"]]
    iw = [[Fraction(float(v)) for v in row] for row in w]
    if mw != iw:
        ctx.disagree("splat", case, [[str(v) for v in r] for r in mw], [[str(v) for v in r] for r in iw], note="weightMapAt vs bilinear_kde pix_count (exact)")
    tot = sum(sum(r) for r in iw)
    if tot != len(pts):
        ctx.pred_fail("weight-sum-splat", "raw weight map does not sum to the number of points (unit weight per pixel)", case,
                      observed=str(tot), required=len(pts))
    ctx.mark(("splat", rows % 2, cols % 2, case["batch"] is None, len(pts) > 4))
    ctx.sample(case, limit=5)


def gen_splat(rng):
    rows, cols = rng.randint(1, 7), rng.randint(1, 7)
    h, w = rng.randint(1, 4), rng.randint(1, 4)
    n = h * w
    pts = []
    for _ in range(n):
        e1, e2 = rng.randint(0, 3), rng.randint(0, 3)
        pts.append([rng.randint(-2 * (1 << e1), (rows + 2) * (1 << e1)), e1, rng.randint(-2 * (1 << e2), (cols + 2) * (1 << e2)), e2])
    return {"stream": "splat", "rows": rows, "cols": cols, "pts": pts, "batch": rng.choice([None, None, 1, 2, 3, 7]),
            "hw": [h, w], "vals": [rng.randint(0, 9) for _ in range(n)],
            "layouts": [[rng.choice(LAYOUTS), "float64"], [rng.choice(LAYOUTS), "float64"], [rng.choice(LAYOUTS), rng.choice(DTYPES)]],
            "positional": rng.chance(0.4)}


def unique_peak(img):
    """the circular autocorrelation of a canvas has a strict maximum at zero shift (hypothesis `UniquePeak` of the
    fixed-point theorems).  It fails exactly when the canvas is invariant under a circular shift — e.g. constant along a
    2-pixel-wide axis — and then the shift along that axis is not determined by the data: an exact argmax tie."""
    a = np.asarray(img, dtype=np.float64)
    if a.size == 0 or not np.all(np.isfinite(a)):
        return False
    F = np.fft.fft2(a)
    cc = np.real(np.fft.ifft2(F * np.conj(F)))
    c0 = cc[0, 0]
    cc[0, 0] = -np.inf
    return bool(c0 - cc.max() > 1e-6 * max(abs(c0), 1e-30)) if cc.size > 1 else True


def case_align(ctx, drv, case):
    """preprocess -> align_translation on a stack; identical stacks must be a fixed point; measured
    shifts (knot displacement) vs the model's alignment loop run on the real warped images"""
    d = _drv()
    from qv.prng import Rng
    import io
    import contextlib
    H, W, nk, pad, deg, n, up = case["H"], case["W"], case["nk"], case["pad"], case["deg"], case["n"], case["up"]
    rng = Rng(case["sub"])
    base = make_image(rng, H, W)
    if case["identical"]:
        images = [base.copy() for _ in range(n)]
    else:
        images = [np.roll(base, (t[0], t[1]), (0, 1)) for t in case["ts"]]
    if any(0 < t < 1e-6 for t in (canvas_oracle(H, pad)[1], canvas_oracle(W, pad)[1])):
        return
    ctx.count()
    ctx.dist[f"align:{'identical' if case['identical'] else 'shifted'}"] += 1
    ctx.dist[f"align:n={n}"] += 1
    ctx.dist[f"align:up={up}"] += 1
    ctx.dist[f"align:nk={nk}"] += 1
    ctx.dist[f"align:kde_sigma={case['sigma']}"] += 1
    dc = build(images, [deg] * n, pad, "median", case["sigma"], nk, case.get("layouts"), case.get("container", "list"))
    if case.get("layouts"):
        ctx.dist["align:mixed memory layouts / dtypes in the stack"] += 1
    k0 = [np.array(k, dtype=float, copy=True) for k in dc.knots]
    warped = [np.asarray(a, dtype=np.float64).copy() for a in dc.images_warped.array]
    if not all(unique_peak(w) for w in warped):
        ctx.dist["align:rejected(canvas invariant under a circular shift: exact correlation tie)"] += 1
        return
    with contextlib.redirect_stdout(io.StringIO()):
        if case.get("positional"):   # (upsample_factor, min_image_shift, max_image_shift, show_merged)
            dc.align_translation(up, None, case["max_shift"], False)
        else:
            dc.align_translation(upsample_factor=up, max_image_shift=case["max_shift"], show_merged=False)
    delta = [np.asarray(k1, dtype=float) - k for k1, k in zip(dc.knots, k0)]
    dxy = [[float(dl[0].flat[0]), float(dl[1].flat[0])] for dl in delta]
    uniform = max(float(np.max(np.abs(dl[0] - dl[0].flat[0]))) + float(np.max(np.abs(dl[1] - dl[1].flat[0]))) for dl in delta)
    if uniform > 1e-12:
        ctx.pred_fail("align-nonuniform", "align_translation moved the knots of one image by different amounts", case, observed=uniform, required=0)
    moved = max(max(abs(v) for v in p) for p in dxy)
    if case["identical"]:
        ctx.stat_max(f"identical_stack_knot_motion[up={'1' if up <= 1 else '>1'}]", moved)
        if not moved <= TOL32:
            ctx.pred_fail(f"fixed-point-{'up1' if up <= 1 else 'upsampled'}",
                          "a stack of identical images is not a fixed point of align_translation (knots moved)", case,
                          observed={"dxy": dxy}, required="zero shifts, knots unchanged")
    # ---- model: alignment loop (C13's estimator) on the real warped images
    if case.get("drv", True):
        m = ask(drv, {"op": "align", "up": up, "max_shift": d.f2b(float(case["max_shift"])),
                      "imgs": [[[d.f2b(v) for v in row] for row in w] for w in warped]})
        md = [[d.b2f(v) for v in p] for p in m["dxy"]]
        dist = max(abs(a - b) for p, q in zip(md, dxy) for a, b in zip(p, q))
        Hc, Wc = warped[0].shape
        wrapdist = max(min(abs(a - b), abs(abs(a - b) - s)) for p, q in zip(md, dxy) for a, b, s in zip(p, q, (Hc, Wc)))
        ctx.stat_max("align:dxy model-vs-impl", dist)
        if not dist <= TOL32 * max(1.0, max(abs(v) for p in md for v in p)):
            ctx.disagree("align", case, {"dxy": md}, {"dxy": dxy}, note=f"alignShifts/removeMean vs align_translation (mod-canvas distance {wrapdist:.3g})")
    ctx.mark(("align", case["identical"], shape_sig(H, W), nk, angle_class(deg), n, up, case["sigma"]))
    ctx.sample(case, limit=6)


def gen_align(rng, i):
    identical = (i % 3 != 2)
    H = rng.randint(4, 8)
    W = H if rng.chance(0.25) else rng.randint(4, 8)
    n = rng.randint(2, 4)
    # the quantifier ranges over upsampling factors (odd ones included) and KDE widths
    up = rng.choice([1, 2, 3, 4, 5, 7, 8, 16]) if identical else rng.choice([1, 2, 3, 4, 5, 8])
    case = {"stream": "align", "H": H, "W": W, "nk": rng.randint(1, 4), "pad": rng.choice([0.0, 0.25, 0.5]),
            "deg": rng.weighted([(0, 1), (90, 1), (rng.randint(0, 359), 4)]), "n": n, "up": up, "identical": identical,
            "sigma": rng.choice([0.25, 0.5, 0.75, 1.0, 1.5]), "max_shift": rng.choice([32, 32, 3, 5]), "sub": rng.next() & 0xFFFFFFFF}
    r2 = rng.fork(78)
    if r2.chance(0.6):
        case["container"] = r2.weighted([("list", 5), ("array3d", 1), ("array3d-view", 1)])
        dt = r2.choice(DTYPES)
        case["layouts"] = [[r2.choice(LAYOUTS), dt if case["container"] != "list" else r2.choice(DTYPES)] for _ in range(n)]
    case["positional"] = r2.chance(0.4)
    if not identical:
        case["ts"] = [[0, 0]] + [[rng.randint(-1, 1), rng.randint(-1, 1)] for _ in range(n - 1)]
    return case


BAD_CALLS = {
    # kind -> keyword overrides of a preprocess() call the anchored code rejects (validate_pad_value of
    # compound_validators.py, float()/int() conversion of the setters)
    "pad_value>1": {"pad_value": 1.5},
    "pad_value<0": {"pad_value": -0.1},
    "pad_value list length": {"pad_value": "LIST+1"},
    "pad_value None": {"pad_value": None},
    "pad_value list of str": {"pad_value": "LISTSTR"},
    "kde_sigma not a number": {"kde_sigma": "wide"},
    "number_knots not a number": {"number_knots": "two"},
    "pad_fraction not a number": {"pad_fraction": "quarter"},
}


def _same_state(a, b):
    """behavioural state of two DriftCorrection objects: canvas, knots, per-pixel coordinates, warped stack"""
    if tuple(a.shape) != tuple(b.shape):
        return False, {"shape": [list(a.shape), list(b.shape)]}
    if len(a.knots) != len(b.knots) or len(a.interpolator) != len(b.interpolator):
        return False, {"len": [len(a.knots), len(b.knots)]}
    for i in range(len(a.knots)):
        if not np.array_equal(np.asarray(a.knots[i]), np.asarray(b.knots[i]), equal_nan=True):
            return False, {"knots": i, "max_diff": float(np.max(np.abs(np.asarray(a.knots[i]) - np.asarray(b.knots[i])))) if np.shape(a.knots[i]) == np.shape(b.knots[i]) else "shape"}
        ca = a.interpolator[i].transform_coordinates(a.knots[i])
        cb = b.interpolator[i].transform_coordinates(b.knots[i])
        if not (np.array_equal(np.asarray(ca[0]), np.asarray(cb[0]), equal_nan=True) and np.array_equal(np.asarray(ca[1]), np.asarray(cb[1]), equal_nan=True)):
            return False, {"coordinates": i}
    if not np.array_equal(np.asarray(a.images_warped.array), np.asarray(b.images_warped.array), equal_nan=True):
        return False, {"images_warped": float(np.max(np.abs(np.asarray(a.images_warped.array, dtype=float) - np.asarray(b.images_warped.array, dtype=float))))}
    if not np.array_equal(np.asarray(a.weights_warped.array), np.asarray(b.weights_warped.array), equal_nan=True):
        return False, {"weights_warped": float(np.max(np.abs(np.asarray(a.weights_warped.array, dtype=float) - np.asarray(b.weights_warped.array, dtype=float))))}
    return True, {}


def case_rehist(ctx, case):
    """call history on ONE DriftCorrection object: preprocess with configuration A, change scan directions /
    pad fraction / KDE width / knot count, preprocess again (possibly several times), with REJECTED calls in
    between (invalid pad_value forms / unconvertible numbers, combined with otherwise changed arguments; the
    exception is caught).  A twin object receives the same history without the rejected calls: after every
    rejected call and after a final align_translation the two must be indistinguishable; after the last
    successful call the placement formula must hold and the object must equal a fresh one built directly with
    the final configuration"""
    import contextlib
    import io
    from qv.prng import Rng
    from quantem.imaging.drift import DriftCorrection
    H, W, n = case["H"], case["W"], case["n"]
    rng = Rng(case["sub"])
    if case.get("identical"):
        base = make_image(rng, H, W)
        images = [base.copy() for _ in range(n)]
    else:
        images = [make_image(rng, H, W) for _ in range(n)]
    allsteps = case["steps"]
    steps = [st for st in allsteps if "reject" not in st]
    for st in allsteps:
        pf = st["pad"]
        if isinstance(pf, (int, float)) and (any(0 < t < 1e-6 for t in (canvas_oracle(H, pf)[1], canvas_oracle(W, pf)[1])) or
                                             canvas_oracle(H, pf)[0] == 0 or canvas_oracle(W, pf)[0] == 0):
            ctx.dist["rehist:rejected(np.round near-tie / empty canvas)"] += 1
            return
    ctx.count()
    ctx.dist[f"rehist:steps={len(steps)}"] += 1
    dc = DriftCorrection.from_data([im.copy() for im in images], list(steps[0]["angles"]))
    twin = DriftCorrection.from_data([im.copy() for im in images], list(steps[0]["angles"]))
    prev = None
    for pos, st in enumerate(allsteps):
        if "reject" in st:
            kind = st["reject"]
            kw = {"pad_fraction": st["pad"], "pad_value": st["pad_value"], "kde_sigma": st["sigma"], "number_knots": st["nk"]}
            for k, v in BAD_CALLS[kind].items():
                kw[k] = [0.0] * (n + 1) if v == "LIST+1" else (["a"] * n if v == "LISTSTR" else v)
            if st.get("angles") is not None:     # a legitimate assignment, made on both objects
                dc.scan_direction_degrees = list(st["angles"])
                twin.scan_direction_degrees = list(st["angles"])
            try:
                dc.preprocess(**kw)
                ctx.dist["rehist:invalid call was accepted (case abandoned)"] += 1
                return
            except (ValueError, TypeError) as e:
                ctx.dist[f"rehist:rejected call [{kind}] -> {type(e).__name__}"] += 1
            same, why = _same_state(dc, twin)
            if not same:
                ctx.pred_fail(f"rehist-rejected-call-left-state-{'pad_value' if kind.startswith('pad_value') else 'conversion'}",
                              "a preprocess() call that raised left the object in a different resampling state than a twin on which the "
                              "call was never made", dict(case, failing_step=pos), observed=why, required="state unchanged by a rejected call")
                return
            continue
        if prev is not None:
            changed = [k for k in ("angles", "pad", "sigma", "nk") if st[k] != prev[k]]
            ctx.dist["rehist:changed=" + ("+".join(changed) or "nothing")] += 1
        for o in (dc, twin):
            o.scan_direction_degrees = list(st["angles"])
            o.preprocess(pad_fraction=st["pad"], pad_value=st["pad_value"], kde_sigma=st["sigma"], number_knots=st["nk"])
        prev = st
    last = steps[-1]
    ctx.dist[f"rehist:final nk={last['nk']}"] += 1
    fresh = build(images, last["angles"], last["pad"], last["pad_value"], last["sigma"], last["nk"])
    scale = max(1.0, float(dc.shape[1]), float(dc.shape[2]))
    if tuple(dc.shape) != tuple(fresh.shape):
        ctx.pred_fail("rehist-shape", "canvas after a preprocess() history differs from a freshly built object", case,
                      observed=list(dc.shape), required=list(fresh.shape))
        return
    for idx, deg in enumerate(last["angles"]):
        xa, ya = dc.interpolator[idx].transform_coordinates(dc.knots[idx])
        xa, ya = np.asarray(xa, dtype=float), np.asarray(ya, dtype=float)
        ex, ey = placement_oracle(H, W, dc.shape[1], dc.shape[2], deg)
        err = max(float(np.max(np.abs(xa - ex))), float(np.max(np.abs(ya - ey)))) if xa.shape == ex.shape else float("inf")
        ctx.stat_max("rehist:placement_err", err)
        if not err <= TOL64 * scale:
            ctx.pred_fail(f"rehist-placement-nk{last['nk']}",
                          "after a preprocess() history on one object, pixel (r,c) is not placed at canvas centre + rotation of its offset "
                          "(stale state from an earlier configuration)", dict(case, image=idx), observed={"max_err_px": err},
                          required="<= 1e-9 * canvas size")
        fx, fy = fresh.interpolator[idx].transform_coordinates(fresh.knots[idx])
        same = (np.array_equal(np.asarray(dc.knots[idx]), np.asarray(fresh.knots[idx])) and np.array_equal(xa, np.asarray(fx, dtype=float))
                and np.array_equal(ya, np.asarray(fy, dtype=float)))
        wdiff = float(np.max(np.abs(np.asarray(dc.images_warped.array[idx], dtype=float) - np.asarray(fresh.images_warped.array[idx], dtype=float))))
        cdiff = float(np.max(np.abs(np.asarray(dc.weights_warped.array[idx], dtype=float) - np.asarray(fresh.weights_warped.array[idx], dtype=float))))
        ctx.stat_max("rehist:warped image difference to a fresh object", max(wdiff, cdiff))
        if not same or max(wdiff, cdiff) > 0:
            ctx.pred_fail(f"rehist-differs-from-fresh-nk{last['nk']}",
                          "after a preprocess() history the object differs from one built directly with the final configuration", dict(case, image=idx),
                          observed={"knots_and_coordinates_equal": bool(same), "warped_diff": wdiff, "weights_diff": cdiff}, required="identical")
        # knot-count independence against fresh objects with the other knot counts
    for nk2 in (1, 2, 3, 4):
        if nk2 == last["nk"]:
            continue
        other = build(images, last["angles"], last["pad"], last["pad_value"], last["sigma"], nk2)
        for idx in range(n):
            xa, ya = dc.interpolator[idx].transform_coordinates(dc.knots[idx])
            ox, oy = other.interpolator[idx].transform_coordinates(other.knots[idx])
            d = max(float(np.max(np.abs(np.asarray(xa) - np.asarray(ox)))), float(np.max(np.abs(np.asarray(ya) - np.asarray(oy)))))
            ctx.stat_max("rehist:knot-count difference", d)
            if not d <= TOL64 * scale:
                ctx.pred_fail(f"rehist-knot-count-nk{last['nk']}",
                              f"after a preprocess() history the {last['nk']}-knot coordinates differ from the {nk2}-knot ones", dict(case, image=idx),
                              observed={"max_diff_px": d}, required="identical coordinates for 1..4 knots")
    # ---- further use after the history: translation alignment on the object and on its twin
    k0 = [np.array(k, dtype=float, copy=True) for k in dc.knots]
    tied = not all(unique_peak(w) for w in dc.images_warped.array)
    with contextlib.redirect_stdout(io.StringIO()):
        for o in (dc, twin):
            o.align_translation(upsample_factor=case.get("up", 1), show_merged=False)
    same, why = _same_state(dc, twin)
    if not same:
        ctx.pred_fail("rehist-align-differs-from-twin", "align_translation after a history with rejected preprocess() calls differs from the twin "
                      "object on which the rejected calls were never made", case, observed=why, required="identical knots / warped stack")
    degenerate = tied or any(not np.all(np.isfinite(np.asarray(k))) for k in twin.knots)
    if degenerate:
        # e.g. a 2-pixel-wide canvas with a flat correlation along that axis: the shift along it is not determined by the
        # data (exact argmax tie; hypothesis UniquePeak of the fixed-point theorems fails)
        ctx.dist["rehist:degenerate correlation (canvas invariant under a circular shift / NaN shift on the twin too)"] += 1
    wsum = [float(np.sum(np.asarray(w, dtype=np.float64))) for w in dc.weights_warped.array]
    if not degenerate and any(abs(v - H * W) / (H * W) > 1e-4 for v in wsum):
        ctx.pred_fail("rehist-weight-sum", "weight map after the history does not sum to the number of image pixels", case, observed=wsum, required=H * W)
    if case.get("identical") and not degenerate:
        moved = max(float(np.max(np.abs(np.asarray(k1, dtype=float) - k))) for k1, k in zip(dc.knots, k0))
        ctx.stat_max("rehist:identical_stack_knot_motion", moved)
        if not moved <= TOL32:
            ctx.pred_fail("rehist-fixed-point", "identical stack is not a fixed point of align_translation after a preprocess() history", case,
                          observed=moved, required="knots unchanged")
    nrej = sum(1 for st in allsteps if "reject" in st)
    ctx.mark(("rehist", shape_sig(H, W), len(steps), nrej, last["nk"], tuple(sorted({angle_class(a) for a in last["angles"]}))))
    ctx.sample(case, limit=8)


def gen_rehist(rng, i):
    H = rng.randint(2, 8)
    W = H if rng.chance(0.25) else rng.randint(2, 8)
    n = rng.randint(2, 3)

    def angles():
        return [rng.weighted([(0, 1), (90, 1), (rng.randint(0, 359), 5)]) for _ in range(n)]
    st = {"angles": angles(), "pad": rng.choice([0.0, 0.25, 0.5]), "sigma": rng.choice([0.5, 1.0]), "nk": rng.randint(1, 4),
          "pad_value": rng.choice(["median", "mean", 0.25])}
    steps = [st]
    for _ in range(rng.randint(1, 3)):
        st = dict(st)
        what = rng.weighted([("angles", 5), ("pad", 2), ("sigma", 2), ("nk", 3), ("pad_value", 1)])
        if what == "angles":
            st["angles"] = angles()
        elif what == "pad":
            st["pad"] = rng.choice([0.0, 0.25, 0.5, 0.75])
        elif what == "sigma":
            st["sigma"] = rng.choice([0.25, 0.5, 1.0, 1.5])
        elif what == "nk":
            st["nk"] = rng.randint(1, 4)
        else:
            st["pad_value"] = rng.choice(["median", "mean", "max", 0.5])
        if rng.chance(0.5):
            st["nk"] = [1, 1, 2, 3, 4][i % 5]
        steps.append(st)
    if i % 2 == 0:
        steps[-1]["nk"] = 1     # the default single knot after a history
    identical = (i % 3 == 1)
    if identical:
        for st_ in steps:
            st_["angles"] = [st_["angles"][0]] * n
    # rejected calls between (and after) the successful ones, each with otherwise changed arguments
    out = []
    for j, st_ in enumerate(steps):
        out.append(st_)
        if rng.chance(0.6 if i % 4 != 3 else 0.0) or (i % 4 == 0 and j == len(steps) - 1 and not any("reject" in o for o in out)):
            bad = dict(st_)
            bad["reject"] = rng.choice(sorted(BAD_CALLS))
            bad["pad"] = rng.choice([p_ for p_ in (0.0, 0.25, 0.5, 0.75) if p_ != st_["pad"]])
            bad["nk"] = rng.choice([k_ for k_ in (1, 2, 3, 4) if k_ != st_["nk"]])
            bad["sigma"] = rng.choice([0.25, 0.75, 1.5])
            bad["angles"] = ([rng.randint(0, 359)] * n if identical else angles()) if rng.chance(0.4) else None
            out.append(bad)
    return {"stream": "rehist", "H": H, "W": W, "n": n, "steps": out, "identical": identical, "up": rng.choice([1, 2, 3, 8]),
            "sub": rng.next() & 0xFFFFFFFF}


def _self():
    import sys
    return sys.modules[__name__]


def run_round6(ctx, drv):
    """FIXED blocks of growth round 6 (independent of VERIF_SEED and of the case budget): see c15_round6.py"""
    from props import c15_round6 as r6
    for case in r6.edge_cases():
        run_case(ctx, drv, case)
    for case in r6.fixedpoint_cases():
        run_case(ctx, drv, case)
    for case in r6.reuse_cases():
        run_case(ctx, drv, case)
    for case in r6.splatb_cases():
        run_case(ctx, drv, case)
    run_case(ctx, drv, {"stream": "batches"})
    for case in r6.inputform_cases():
        run_case(ctx, drv, case)


def run_case(ctx, drv, case):
    s = case["stream"]
    if s == "coords":
        case_coords(ctx, drv, case)
    elif s == "splat":
        case_splat(ctx, drv, case)
    elif s == "align":
        case_align(ctx, drv, case)
    elif s == "rehist":
        case_rehist(ctx, case)
    elif s == "session":
        from props import c15_session
        c15_session.case_session(ctx, drv, _drv(), case)
    elif s == "reuse":
        from props import c15_round6
        c15_round6.case_reuse(ctx, _self(), case)
    elif s == "splatb":
        from props import c15_round6
        c15_round6.case_splatb(ctx, drv, _self(), case)
    elif s == "inputforms":
        from props import c15_round6
        c15_round6.case_inputforms(ctx, _self(), case)
    elif s == "batches":
        from props import c15_round6
        c15_round6.case_batches(ctx, drv, _self())
    else:
        raise ValueError(s)


def run(ctx):
    from qv.driver import Driver
    drv = Driver("C15")
    try:
        check_signatures(ctx)
        rng = ctx.rng.fork(1)
        for i in range(ctx.n(300, 3000)):
            run_case(ctx, drv, gen_coords(rng.fork(i), i))
        rng = ctx.rng.fork(2)
        for i in range(ctx.n(300, 5000)):
            run_case(ctx, drv, gen_splat(rng.fork(i)))
        rng = ctx.rng.fork(3)
        for i in range(ctx.n(60, 500)):
            run_case(ctx, drv, gen_align(rng.fork(i), i))
        rng = ctx.rng.fork(4)
        for i in range(ctx.n(60, 600)):
            run_case(ctx, drv, gen_rehist(rng.fork(i), i))
        from props import c15_session
        rng = ctx.rng.fork(5)
        for i in range(ctx.n(120, 1200)):
            run_case(ctx, drv, c15_session.gen_session(rng.fork(i), i))
        run_round6(ctx, drv)
    finally:
        drv.close()


def replay(ctx, rep):
    from qv.driver import Driver
    case = rep.get("case") or (rep.get("correspondence_disagreements") or [{}])[0].get("case")
    if not case:
        return False
    case = {k: v for k, v in case.items() if k not in ("image", "failing_step") and not k.startswith("_")}
    if case.get("stream") == "signature":
        check_signatures(ctx)
        return True
    drv = Driver("C15")
    try:
        run_case(ctx, drv, case)
    finally:
        drv.close()
    return True
