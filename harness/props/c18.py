"""C18 — centre-of-mass origin estimation: exact, path-independent, batch-invariant.

Streams
  com     exact    integer-valued positive patterns (all sums < 2^24, so float32/float64 sums are exact and
                   only the final quotient is rounded): CenterOfMassOriginModel.calculate_origin for every
                   batch size, PtychographyDatasetRaster._set_intensities_com vectorised and looped, with and
                   without detector mask, vs Model/Origin.lean run at Rat; compared bit-for-bit after rounding
                   the model's exact fraction the way each implementation rounds it
  comscale float/  intensity scale classes: whole datasets and individual patterns multiplied by 1e-3 … 1e-12, 1e6 (float64
          exact    weighted-mean oracle, relative tolerance) and by powers of two 2^-60 … 2^20 (result must be bit-identical
                   to the unscaled one) on all three COM paths, several batch sizes, masks; COM(c*I) = COM(I)
  fit     float    origins exactly on a constant / plane: fit_origin_background (torch, PCA), fit_origin and
                   _set_intensities_com(fit_function=…) (numpy, curve_fit) vs the surface; PCA path vs
                   Model fitPlanePCA with the eigenvector supplied by a float64 eigh
  fitvar  float    fit_origin's curve_fit variants (constant, plane, parabola, bezier_two) on origins exactly on
                   such a surface, with mask=None / all-True / partial masks, vs the surface and vs Model surfaceF
                   run at Rat; parabola also through _set_intensities_com
  forms   exact    input forms of the origin setters — flat (N,2) / (sr,sc,2) scan grid, tensor / ndarray / nested list, a single
                   (row, col) pair — on every scan shape incl. 1xn, nx1, 2xn, nx2, 2x2: stored origins, fits and shifts must be
                   identical for all forms (and the surface / the roll)
  shift   exact    integer fitted origins: shift_origin_to for several batch sizes vs np.roll and vs the
                   model's periodic bilinear sampler run at Rat
  agree   1 ulp    the two real classes on the SAME dataset against each other: CenterOfMassOriginModel vs
                   PtychographyDatasetRaster (_set_intensities_com both paths, masked data included, several batch
                   sizes; also through the public preprocess() entry point)
  omhist  exact/   histories on ONE CenterOfMassOriginModel (c18_hist.py): calculate_origin / origin_measured= / origin_fitted= /
          float    fit_origin_background / shift_origin_to / tensor= / forward in generated orders INCLUDING rejected calls (wrong row
                   count, odd element count, complex / string data, unknown fit method, positions of the wrong length, batch size 0,
                   fit before measure, shift before fit), 4-D and 3-D datasets; judged by a twin object that only sees the accepted
                   calls (bit-identical results), by the exact oracles, and by Model/OriginState.lean `omStep` at Rat after every call
  dshist  exact    histories on ONE PtychographyDatasetRaster: preprocess() / _set_intensities_com (paths, masks, fits none / no_shift /
                   constant, invalid fit name, mask of the wrong shape) / in-place edits of intensities_4d / intensities_4d= /
                   com_measured= / com_fit= (valid and wrong shape); judged by a FRESH object built from a copy of the current
                   patterns (bit-identical), the exact oracle, and `dsStep` at Rat after every call
  prep    exact/   (c18_g6.py) the dataset model AFTER its centre-of-mass stage (_normalize_diffraction_intensities, shift_array, fftshift):
          float    integer-valued com_fit handed in through the setter (any sign, beyond the edges) or produced by the public preprocess() on
                   strictly positive patterns with an exact integer centre of mass; centred amplitudes / intensities vs the circular roll
                   (bit-exact for bilinear=True, 1e-5*max for the Fourier shift), descan_shifts exact, Model/OriginPrep.lean at Rat (also
                   quarter-pixel origins, model tie only)
  fixed   -        (c18_g6.py) blocks that do not depend on VERIF_SEED: 15 / 130 / 272 patterns x batch sizes around the count and around
                   127 / 128 / 255 / 256, integer origins of every sign combination x targets below and above the origin x every batch size,
                   one origin model whose tensor is replaced by the same number of patterns in another scan shape before plane fits
                   (set and MEASURED planar origins), one origin model shifted repeatedly with changing target / batch / origins / data
  sigs    exact    parameter order and defaults of the anchored entry points
  gen     proof    _plane / _parabola / _bezier_two are translated from the source on every run (translator/surface2lean.py ->
                   Generated/OriginSurface.lean) and proved equal to the hand model surfaceF (generated_eq_spec_*)
The property predicate uses plain Python `fractions` / NumPy oracles that do not involve the model.
"""
from fractions import Fraction

from . import c18_g6 as g6_mod
from . import c18_hist as hist_mod

LEVEL = "proof"
EXTRA_PROPS = ["QuantemModel.Props.C18Ext"]   # growth 6: the dataset model after its centre-of-mass stage (Model/OriginPrep.lean)
MANIFEST_ENTRY = {
    "category": "proof",
    "text": "Lean 4 theorems over three separately written executable models of the centre-of-mass code (torch batched calculate_origin, numpy vectorised and looped _set_intensities_com): for every carrier (incl. binary64) the batched result is independent of the batch size and the three paths return the same values; over R each equals the intensity-weighted mean row/column index of the (masked) pattern and is invariant under multiplying every pattern by its own non-zero factor (com_scale_invariant); a constant fit of constant origins and a PCA plane fit (any null vector of the scatter form; unconditional on every scan raster of at least 2x2 positions, plane_exact_raster) or least-squares fit (any minimiser; instantiated for the modelled _plane/_parabola/_bezier_two families) of origins lying exactly on a plane/surface return that surface; shift_origin_to with integer origin is exactly the circular roll (bilinear weights (1,0,0,0), periodic index). Tied to the code on every run by bit-exact comparison on integer-valued patterns for every batch size, masks, non-square shapes; the two real classes (direct-ptychography origin model, ptychography dataset model incl. preprocess()) are additionally compared with each other on the same datasets (<= 1 float32 ulp). Both objects are also modelled as state machines whose calls return or raise (Model/OriginState.lean): a rejected primitive call leaves the object unchanged, a history equals the history of its accepted calls, num_dps follows the tensor, stored origins have one row per pattern, and calculate_origin / shift_origin_to / constant fit / the centre-of-mass stage of preprocess() give the weighted mean / the roll / the constant / the weighted mean of the patterns held NOW after ANY history; tied by generated call histories with rejected calls, tensor replacement, in-place edits and re-runs (twin without the rejected calls, fresh object, exact oracle, omStep / dsStep at Rat after every call). The curve_fit families _plane/_parabola/_bezier_two are re-translated from the source on every run and proved equal to the modelled surfaceF. Growth round 6: the dataset model's stage AFTER the centre of mass (shift_array bilinear, max(.,0), fftshift, descan shift) is modelled (Model/OriginPrep.lean) and proved, for every detector shape and every integer fitted origin, to be the circular roll that moves the fitted origin to (h//2, w//2) — the same roll shift_origin_to performs for that target (ds_centre_eq_om_shift_to_centre); tied by the prep stream (bit-exact on perfect-square intensities).",
    "note": "Proved: batch/path independence, COM = weighted mean, constant/plane exactness, integer shift = roll, all on the model. Also proved: the flat (N,2) and the (Rx,Ry,2) grid input forms of the origin setters store the same origins on every scan shape (origin_forms_agree; counterexample for the too-weak layout test ndim==3 and shape[0]==2), the parabola fit is exact on every raster >= 3x3 (rank condition quad_unique; undetermined on 2x2: counterexample), shift_origin_to is the roll for negative / beyond-the-edge integer origins and non-corner targets, the centre of mass is translation covariant (com_translation_covariant), and sub-pixel shifts are NOT intensity conserving (zero padding; exact-carrier counterexample). Measured only: torch.linalg.eigh and scipy curve_fit reach the fitted surface to float tolerance (PCA 5e-4 rel. float32, curve_fit 1e-6), grid_sample un-normalisation in float32 (1e-5*max). The curve_fit variants plane/parabola/bezier_two are modelled (surfaceF), covered in Lean by lsq_minimiser_exact / lsq_variants_exact (any least-squares minimiser reproduces data lying on the family) and exercised on exact surfaces with mask=None, all-True and partial masks. Patterns with zero total (masked) intensity are outside the property (positive intensities). Growth round 5 — proved: exception safety of every primitive call of both objects (om_/ds_rejected_call_leaves_object_unchanged), om_history_ignores_rejected_calls, om_num_dps_follows_tensor, om_rows_invariant, om_measure_after_any_history, om_shift_after_any_history, om_constant_fit_in_any_state, ds_preprocess_reads_current_patterns_only, ds_com_after_any_history, shift_int_roll for EVERY detector shape (axis of length 1 included), generated_eq_spec_plane/parabola/bezier_two; counterexamples kept: forward() is not atomic (replayed on the real code), a store-before-validate setter. Measured only in the histories: plane fits of origins that are not on a plane (eigenvector), shifts by origins that came out of a fit (float32, near-integer: compared with the twin bit for bit, not with the model), interpolation modes nearest / bicubic (against np.roll only), the Fourier (bilinear=False) variant of shift_array (against np.roll, 1e-5*max), padding / probe_energy options of preprocess(), crop_patterns / positions_mask of _normalize_diffraction_intensities (not reachable from preprocess()). Growth round 6 — proved (Props/C18Ext.lean): ds_centre_int_roll, ds_centre_eq_om_shift_to_centre, ds_centre_all_int_roll, ds_descan_shift_int; fixed generator blocks for counts 15 / 130 / 272 vs batch sizes, sign combinations of origins and targets, same-count scan reshapes before plane fits (also on MEASURED origins that lie exactly on a plane), repeated shifts on one object. Not modelled: estimate_detector_rotation, robust=True, negative batch sizes (calculate_origin(max_batch_size=-1) stores an unwritten buffer: outside the quantifier 1..num_patterns).",
    "technique": "Lean 4 proof (list induction, state-machine invariants over call histories with raising calls, field algebra over R, floor/emod arithmetic) + exact model-vs-implementation correspondence + source-to-Lean translation of the fitted families on every run",
}
RULE = ("com stream: one case = one 4-D dataset (scan sr x sc, detector h x w, integer intensities, optional mask) x one code path x one batch size; "
        "distinct non-trivial = distinct (sr, sc, h, w, mask kind, path, batch size) with h != w or sr != sc or a mask; fit/shift: distinct (scan, detector, kind, batch); "
        "omhist / dshist: one case = one call of a generated history on one object; distinct = distinct (shapes, sequence of (call kind, accepted / rejected[, fit, path])); "
        "prep: one case = one dataset x one route (com_fit handed in / public preprocess) x one shift variant (bilinear / Fourier); distinct = distinct (route, scan, detector, variant)")
TRUSTED = ["IEEE float32/float64 division is correctly rounded (torch, NumPy) — used to round the model's exact fraction",
           "torch.linalg.eigh / scipy.optimize.curve_fit (the eigenvector / minimiser is a parameter of the model; its quality is measured)",
           "torch.nn.functional.grid_sample semantics (bilinear, align_corners=True, zero padding) as modelled",
           "Python evaluates the right-hand side of an attribute assignment completely before assigning (modelled by `commit`); which exception class a rejected call raises is recorded, only accepted / rejected is compared",
           "np.roll / np.fft.fftshift index conventions as modelled by `rolledAt` (Model/OriginPrep.lean); np.sqrt of a perfect square and its square are exact in float32",
           "harness/translator/surface2lean.py (ast -> Lean for three one-expression functions; cross-checked by the fitvar stream on the same functions)"]
ASSUMPTIONS = ["scaled data stay inside the float32 normal range (factors 1e-30 … 1e12 on pixel values 1 … 1000); the scale stream's tolerance is 1e-4 of the detector extent for decimal factors (every pixel is rounded once) and bit equality for powers of two",
               "partial position masks are generated for the plane and constant fits only (for parabola/bezier_two the unmasked positions need not determine the surface at the masked ones); the robust=True option of fit_origin is not exercised",
               "intensities are positive integers <= 1000 on detectors <= 10x10 so that every partial sum is an exactly representable integer; mask values are multiples of 1/2",
               "detector axes of length 1 are generated in the shift stream only (12 % of its cases); in the history streams detectors are >= 2 x 2, scans 1x1 … 4x4, 4-9 calls per origin-model history, 3-7 per dataset-model history",
               "in histories a plane fit is only requested when the measured origins were set on an exact dyadic plane (the model is given its exact null vector); after a fit the fitted origins are float32 results, so a following shift is compared with the twin object bit for bit but not with the model / np.roll",
               "prep stream: intensities are perfect squares k^2 (k = 1..30) on the handed-in route so that sqrt and square are exact in float32 (bit equality for bilinear=True); on the public route patterns are outer products of "
               "positive integer vectors whose weighted mean index is an exact integer 1..size-2 (a strictly positive pattern cannot have its centre of mass on the border); the centred position (h//2, w//2) is the one np.fft.fftshift "
               "moves the corner to and the one descan_shifts is computed with; scans 1x1 … 4x4 (+ fixed 3x5 / 5x3), detectors 1 … 7",
               "plane fits need scan positions that are not collinear (sr, sc >= 2); 1 x n scans are used for the constant fit and the COM streams only",
               "fit tolerances: 5e-4*max(1,|z|) on float32 paths (torch PCA, com_fit), 1e-6*max(1,|z|) on fit_origin's float64 output; shift: 1e-5*max|I|"]
EXPLANATION = ("Theorems in Props/C18.lean are about Model/Origin.lean; every run feeds integer-valued datasets to the real torch and numpy COM code "
               "(every batch size, both numpy paths, masks) and compares bit-for-bit with the model's exact fractions.")

TOL32 = 5e-4


def pregenerate():
    """called by the runner before `lake build`: retranslate _plane / _parabola / _bezier_two of $QVERIF_REPO/src into
    lean/QuantemModel/Generated/OriginSurface.lean (theorems generated_eq_spec_* in Props/C18.lean).  A source outside the
    translator's grammar is returned as a note = a broken tie (the previous file stays in place), never a crash."""
    from translator import surface2lean
    try:
        surface2lean.regenerate()
    except surface2lean.TranslationError as e:
        return f"surface2lean: {e}"
    except Exception as e:  # noqa
        return f"surface2lean: {type(e).__name__}: {e}"
    return None


class HarnessError(RuntimeError):
    """a fault of the harness/driver itself (never swallowed)"""


def guarded(ctx, fn, case, *args, **kw):
    """an exception escaping the code under test is a finding about that code (reported with the input
    that triggered it), not an infrastructure failure"""
    import traceback
    try:
        fn(*args, **kw)
    except (HarnessError, hist_mod.HarnessError, g6_mod.HarnessError):
        raise
    except Exception as e:  # noqa
        tb = traceback.extract_tb(e.__traceback__)
        where = next((f"{f.filename.split('/src/')[-1]}:{f.lineno}" for f in reversed(tb) if "/quantem/" in f.filename), None)
        if where is None:
            raise
        ctx.pred_fail("origin-code-raises", f"{type(e).__name__}: {e} at {where}", case, observed=f"{type(e).__name__}: {e}", required="a result")


def f32(x):
    import numpy as np
    return np.float32(x)


# ---------------------------------------------------------------------------------------
# generators

def pick_scan(rng, lo=1, hi=5):
    """scan shapes with the degenerate classes 1xn, nx1, 2xn, nx2, 2x2 (and 1x1) well represented; `lo` = smallest extent allowed"""
    n = rng.randint(max(3, lo), hi)
    opts = [((rng.randint(max(2, lo), hi), rng.randint(max(2, lo), hi)), 8)]
    if lo <= 2:
        opts += [((2, n), 3), ((n, 2), 3), ((2, 2), 2)]
    if lo <= 1:
        opts += [((1, 1), 1), ((1, rng.randint(2, hi)), 2), ((rng.randint(2, hi), 1), 2)]
    return rng.weighted(opts)


def gen_dataset(rng, small=False):
    sr, sc = pick_scan(rng)
    h, w = rng.randint(2, 9), rng.randint(2, 9)
    if rng.chance(0.7) and h == w:
        w = w + 1 if w < 9 else w - 1
    kind = rng.weighted([("random", 4), ("blob", 4), ("ramp", 1), ("delta_bg", 2)])
    data = []
    for a in range(sr):
        for b in range(sc):
            if kind == "random":
                pat = [[rng.randint(1, 60) for _ in range(w)] for _ in range(h)]
            elif kind == "blob":
                cy, cx = rng.below(h), rng.below(w)
                pat = [[1 + max(0, 900 - 300 * (abs(r - cy) + abs(c - cx))) + rng.below(5) for c in range(w)] for r in range(h)]
            elif kind == "ramp":
                pat = [[1 + 3 * r + 7 * c + (a + 2 * b) for c in range(w)] for r in range(h)]
            else:
                cy, cx = rng.below(h), rng.below(w)
                pat = [[1 + (500 if (r, c) == (cy, cx) else 0) for c in range(w)] for r in range(h)]
            data.append(pat)
    mk = rng.weighted([("none", 5), ("binary", 3), ("half", 2), ("ones", 1)])
    mask = None
    if mk != "none":
        while True:
            if mk == "binary":
                mask = [[rng.choice([0, 1, 1]) for _ in range(w)] for _ in range(h)]
            elif mk == "half":
                mask = [[rng.choice([0, 1, 2, 3]) for _ in range(w)] for _ in range(h)]   # in halves
            else:
                mask = [[2 for _ in range(w)] for _ in range(h)]
            if any(v for row in mask for v in row):
                break
        if mk == "binary":
            mask = [[2 * v for v in row] for row in mask]
    return {"sr": sr, "sc": sc, "h": h, "w": w, "kind": kind, "mask_kind": mk, "data": data, "mask_halves": mask}


def oracle_com(ds):
    """exact intensity-weighted mean (row, column) per pattern as Fractions, mask included"""
    h, w = ds["h"], ds["w"]
    m = ds["mask_halves"]
    out = []
    for pat in ds["data"]:
        P = [[Fraction(pat[r][c]) * (Fraction(m[r][c], 2) if m is not None else 1) for c in range(w)] for r in range(h)]
        tot = sum(sum(row) for row in P)
        out.append((sum(r * v for r, row in enumerate(P) for v in row) / tot, sum(c * v for row in P for c, v in enumerate(row)) / tot))
    return out


def round_torch(fr):
    """float32(num) / float32(den): one correctly rounded float32 division of exact operands"""
    return float(f32(fr.numerator) / f32(fr.denominator))


def round_numpy(fr):
    """float64 quotient (Python int division is correctly rounded), then the float32 cast of the com_measured setter"""
    return float(f32(fr.numerator / fr.denominator))


def frac_of(s):
    a, b = s.split("/")
    return Fraction(int(a), int(b))


def to_np(ds):
    import numpy as np
    arr = np.array(ds["data"], dtype=np.float32).reshape(ds["sr"], ds["sc"], ds["h"], ds["w"])
    mask = None if ds["mask_halves"] is None else (np.array(ds["mask_halves"], dtype=np.float32) / 2)
    return arr, mask


def make_raster(arr):
    from quantem.core.datastructures.dataset4dstem import Dataset4dstem
    from quantem.diffractive_imaging.dataset_models import PtychographyDatasetRaster
    d4 = Dataset4dstem.from_array(array=arr.copy(), sampling=(1.0, 1.0, 0.1, 0.1), units=("A", "A", "A^-1", "A^-1"))
    return PtychographyDatasetRaster.from_dataset4dstem(d4, verbose=0)


def make_origin_model(arr):
    from quantem.core.datastructures.dataset4dstem import Dataset4dstem
    from quantem.diffractive_imaging.origin_models import CenterOfMassOriginModel
    return CenterOfMassOriginModel.from_dataset(Dataset4dstem.from_array(array=arr.copy()), device="cpu")


# ---------------------------------------------------------------------------------------
# stream: com

def com_case(ctx, drv, ds, batch_sizes=None):
    import numpy as np
    arr, mask = to_np(ds)
    sr, sc, h, w = ds["sr"], ds["sc"], ds["h"], ds["w"]
    n = sr * sc
    exact = oracle_com(ds)
    ds_nomask = dict(ds, mask_halves=None)
    exact_nomask = oracle_com(ds_nomask) if ds["mask_halves"] is not None else exact
    case_base = {"stream": "com", "ds": ds}
    nontrivial = (h != w) or (sr != sc) or ds["mask_halves"] is not None
    flat = [v for pat in ds["data"] for row in pat for v in row]
    mask_req = None if ds["mask_halves"] is None else [f"{v}/2" for row in ds["mask_halves"] for v in row]
    ctx.dist[f"com:scan={'square' if sr == sc else 'non-square'}"] += 1
    ctx.dist[f"com:det={'square' if h == w else 'non-square'}"] += 1
    ctx.dist[f"com:mask={ds['mask_kind']}"] += 1
    ctx.dist[f"com:pattern={ds['kind']}"] += 1

    # ---------------- numpy dataset model: vectorised and looped
    pd = make_raster(arr)
    m1 = drv.ask({"op": "com", "sr": sr, "sc": sc, "h": h, "w": w, "b": 1, "data": flat, "mask": mask_req})
    if "ok" not in m1:
        raise HarnessError(f"driver error {m1}")
    ds_model = {}
    for path, vec in (("vec", True), ("loop", False)):
        ctx.count()
        ctx.dist[f"com:path={path}"] += 1
        if nontrivial:
            ctx.mark(("com", sr, sc, h, w, ds["mask_kind"], path))
        data = arr.copy()
        pd._set_intensities_com(data, dp_mask=None if mask is None else mask.copy(), fit_function="none", vectorized_calculation=vec)
        got = np.asarray(pd.com_measured)            # (2, sr, sc) float32
        impl = [[float(got[0, a, b]), float(got[1, a, b])] for a in range(sr) for b in range(sc)]
        ds_model[path] = impl
        mg = m1["ok"][path]
        model = [[round_numpy(frac_of(mg[0][a][b])), round_numpy(frac_of(mg[1][a][b]))] for a in range(sr) for b in range(sc)]
        case = dict(case_base, path=path)
        if model != impl:
            ctx.disagree(f"com-{path}", case, model, impl, note="com_measured vs model (exact fraction rounded like the numpy path)")
        want = [[round_numpy(e[0]), round_numpy(e[1])] for e in exact]
        if impl != want:
            bad = next(i for i in range(n) if impl[i] != want[i])
            swapped = [impl[bad][1], impl[bad][0]] == want[bad]
            ctx.pred_fail(f"com-{'looped' if not vec else 'vectorised'}-{'rowcol-swapped' if swapped else 'wrong'}",
                          f"_set_intensities_com(vectorized_calculation={vec}) does not return the intensity-weighted mean (row, column)"
                          + (" — row and column are exchanged" if swapped else ""), case,
                          observed={"pattern": bad, "com_measured(row,col)": impl[bad]}, required={"(row,col)": want[bad], "exact": [str(exact[bad][0]), str(exact[bad][1])]})
        # the estimate must not alter the data it was given (a second estimate on the same array must see the same patterns)
        if not np.array_equal(data, arr):
            pd._set_intensities_com(data, dp_mask=None if mask is None else mask.copy(), fit_function="none", vectorized_calculation=True)
            again = np.asarray(pd.com_measured)
            impl2 = [[float(again[0, a, b]), float(again[1, a, b])] for a in range(sr) for b in range(sc)]
            if impl2 != want:
                bad = next(i for i in range(n) if impl2[i] != want[i])
                ctx.pred_fail(f"com-{'looped' if not vec else 'vectorised'}-mutates-input",
                              f"_set_intensities_com(vectorized_calculation={vec}, dp_mask=…) multiplies the caller's array by the mask in place: "
                              "re-estimating on the same data (vectorised path) no longer returns the masked intensity-weighted mean", case,
                              observed={"pattern": bad, "second_estimate": impl2[bad]}, required={"(row,col)": want[bad]})
    # ---------------- torch origin model: every batch size (no mask parameter exists)
    om = make_origin_model(arr)
    bs = batch_sizes if batch_sizes is not None else list(range(1, n + 1)) + [None, n + 3]
    want_t = [[round_torch(e[0]), round_torch(e[1])] for e in exact_nomask]
    first = None
    for b in bs:
        ctx.count()
        ctx.dist["com:path=torch"] += 1
        ctx.dist["com:torch b " + ("None" if b is None else "=1" if b == 1 else ">n" if b > n else "divides" if n % b == 0 else "non-dividing")] += 1
        if nontrivial or (b not in (None, n)):
            ctx.mark(("com", sr, sc, h, w, "torch", b))
        om.calculate_origin(max_batch_size=b)
        got = om.origin_measured.detach().cpu().numpy()
        impl = [[float(got[i, 0]), float(got[i, 1])] for i in range(n)]
        mb = drv.ask({"op": "com", "sr": sr, "sc": sc, "h": h, "w": w, "b": n if b is None else b, "data": flat, "mask": None})
        if "ok" not in mb:
            raise HarnessError(f"driver error {mb}")
        model = [None if p is None else [round_torch(frac_of(p[0])), round_torch(frac_of(p[1]))] for p in mb["ok"]["torch"]]
        case = dict(case_base, path="torch", b=b)
        if model != impl:
            ctx.disagree("com-torch", case, model, impl, note=f"origin_measured vs model, batch size {b}")
        if impl != want_t:
            bad = next(i for i in range(n) if impl[i] != want_t[i])
            swapped = [impl[bad][1], impl[bad][0]] == want_t[bad]
            ctx.pred_fail("com-torch-" + ("rowcol-swapped" if swapped else "wrong"),
                          "calculate_origin does not return the intensity-weighted mean (row, column)", case,
                          observed={"pattern": bad, "origin_measured": impl[bad], "batch": b}, required={"(row,col)": want_t[bad]})
        if first is None:
            first = impl
        elif impl != first:
            ctx.pred_fail("com-torch-batch-dependent", "calculate_origin depends on max_batch_size", case,
                          observed={"batch": b, "values": impl}, required={"batch": bs[0], "values": first})
    # ---------------- agreement clause: the direct-ptychography origin model and the ptychography dataset model, driven
    # on the SAME dataset, agree with each other (masked case: the origin model has no mask argument, it is given the
    # masked intensities I*m, exact in float32).  One rounds the exact quotient once, the other twice: <= 1 float32 ulp.
    def close(x, y):
        return x == y or abs(x - y) <= 2.4e-7 * max(abs(x), abs(y))
    if ds["mask_halves"] is None:
        om2, tag = om, "unmasked"
    else:
        om2, tag = make_origin_model(arr * mask[None, None]), "masked"
    nb = ctx.rng.fork(n * 131 + h).randint(1, n)
    for b in ([None] if ds["mask_halves"] is None else [None, 1, nb]):
        om2.calculate_origin(max_batch_size=b)
        got = om2.origin_measured.detach().cpu().numpy()
        for path in ("vec", "loop"):
            ctx.count()
            ctx.dist[f"agree:{tag}/{path}"] += 1
            ctx.mark(("agree", sr, sc, h, w, ds["mask_kind"], path, b))
            bad = [(i, k) for i in range(n) for k in range(2) if not close(float(got[i, k]), ds_model[path][i][k])]
            if bad:
                i, k = bad[0]
                ctx.pred_fail("com-origin-model-vs-dataset-model", f"CenterOfMassOriginModel.calculate_origin and PtychographyDatasetRaster._set_intensities_com ({path}) "
                              f"disagree on the centre of mass of the same ({tag}) dataset", dict(case_base, path=path, b=b),
                              observed={"pattern": i, "component": "row" if k == 0 else "column", "origin_model": float(got[i, k]), "dataset_model": ds_model[path][i][k]},
                              required="equal up to one float32 rounding")
    # the same through the public preprocessing entry point of the dataset model (both paths), unmasked
    if ds["mask_halves"] is None and (sr * 7 + sc + h) % 3 == 0:
        for vec in (True, False):
            pdp = make_raster(arr)
            pdp.preprocess(com_fit_function="constant", plot_rotation=False, plot_com=False, force_com_rotation=0, force_com_transpose=False, vectorized=vec)
            got = np.asarray(pdp.com_measured)
            ctx.count()
            ctx.dist["agree:preprocess/" + ("vec" if vec else "loop")] += 1
            bad = [(i, k) for i in range(n) for k in range(2) if not close(float(got[k, i // sc, i % sc]), first[i][k])]
            if bad:
                i, k = bad[0]
                ctx.pred_fail("com-origin-model-vs-preprocess", f"PtychographyDatasetRaster.preprocess(vectorized={vec}).com_measured and CenterOfMassOriginModel.origin_measured disagree on the same dataset",
                              dict(case_base, path="preprocess", vectorized=vec), observed={"pattern": i, "dataset_model": float(got[k, i // sc, i % sc]), "origin_model": first[i][k]},
                              required="equal up to one float32 rounding")
    ctx.sample({"stream": "com", "shape": [sr, sc, h, w], "mask": ds["mask_kind"], "pattern_kind": ds["kind"],
                "first_pattern_exact_com": [str(exact[0][0]), str(exact[0][1])], "batch_sizes": [b for b in bs][:8]}, limit=2)


# ---------------------------------------------------------------------------------------
# stream: comscale — intensity scale classes.  COM(c*I) = COM(I): the centre of mass does not depend on the unit of
# the intensities.  Whole datasets and individual patterns are multiplied by decimal factors (float32 rounding of every
# pixel: judged against a float64 weighted mean of the stored float32 values, relative tolerance) and by powers of two
# (exact scaling of every partial sum: the result must be BIT-IDENTICAL to the unscaled one), staying inside the float32
# normal range.

DEC_SCALES = [1.0, 1e-3, 1e-6, 1e-9, 1e-12, 1e6]
POW2_SCALES = [0, -20, -40, -60, 20]           # exponents
SCALE_TOL = 1e-4                               # of the detector extent (float32 accumulation of <= 100 positive terms)


def gen_scale(rng):
    ds = gen_dataset(rng)
    n = ds["sr"] * ds["sc"]
    kind = rng.weighted([("dec_dataset", 3), ("dec_patterns", 3), ("pow2_dataset", 2), ("pow2_patterns", 2)])
    if kind == "dec_dataset":
        f = rng.choice(DEC_SCALES[1:])
        fac = [f] * n
    elif kind == "dec_patterns":
        base = rng.choice(DEC_SCALES)
        fac = [base * (rng.choice([1e-3, 1e-6, 1e-9, 1e-12]) if rng.chance(0.35) else 1.0) for _ in range(n)]
        if all(x == base for x in fac):
            fac[rng.below(n)] = base * 1e-9
    elif kind == "pow2_dataset":
        fac = [rng.choice(POW2_SCALES[1:])] * n
    else:
        fac = [rng.choice(POW2_SCALES) for _ in range(n)]
        if all(x == 0 for x in fac):
            fac[rng.below(n)] = -40
    # keep every pixel (values 1..1000) inside the float32 normal range
    if kind.startswith("dec"):
        fac = [min(max(x, 1e-30), 1e12) for x in fac]
    return {"ds": ds, "kind": kind, "fac": fac}


def scale_case(ctx, drv, sc_):
    import numpy as np
    ds, kind, fac = sc_["ds"], sc_["kind"], sc_["fac"]
    arr, mask = to_np(ds)
    sr, sc, h, w = ds["sr"], ds["sc"], ds["h"], ds["w"]
    n = sr * sc
    pow2 = kind.startswith("pow2")
    f = np.array([np.float32(2.0) ** int(e) for e in fac] if pow2 else [np.float32(x) for x in fac], dtype=np.float32).reshape(sr, sc, 1, 1)
    scaled = (arr * f).astype(np.float32)                      # what the library is given
    case = {"stream": "comscale", "sc": sc_}
    ext = float(max(h, w))
    m64 = None if mask is None else mask.astype(np.float64)

    def oracle64(a):
        a = a.astype(np.float64) if m64 is None else a.astype(np.float64) * m64
        tot = a.sum(axis=(-2, -1))
        r = (a * np.arange(h)[:, None]).sum(axis=(-2, -1)) / tot
        c = (a * np.arange(w)[None, :]).sum(axis=(-2, -1)) / tot
        return np.stack([r, c], -1).reshape(n, 2)
    want = oracle64(scaled)
    tot_min = float((scaled if mask is None else scaled * mask).sum(axis=(-2, -1)).min())
    ctx.dist[f"comscale:{kind}"] += 1
    ctx.dist["comscale:min pattern total " + ("< 1e-7" if tot_min < 1e-7 else "< 1" if tot_min < 1 else ">= 1")] += 1
    ctx.dist[f"comscale:mask={ds['mask_kind']}"] += 1

    def paths(a, masked_for_torch):
        out = {}
        pd = make_raster(a)
        for path, vec in (("vec", True), ("loop", False)):
            pd._set_intensities_com(a.copy(), dp_mask=None if mask is None else mask.copy(), fit_function="none", vectorized_calculation=vec)
            g = np.asarray(pd.com_measured, dtype=np.float64)
            out[path] = np.stack([g[0].ravel(), g[1].ravel()], -1)
        om = make_origin_model(masked_for_torch)
        for b in (None, 1, max(1, n - 1)):
            om.calculate_origin(max_batch_size=b)
            out[f"torch(b={b})"] = om.origin_measured.detach().cpu().numpy().astype(np.float64).copy()
        return out
    got_scaled = paths(scaled, scaled if mask is None else (scaled * mask[None, None]).astype(np.float32))
    got_plain = paths(arr, arr if mask is None else (arr * mask[None, None]).astype(np.float32))
    for name, g in got_scaled.items():
        ctx.count()
        ctx.mark(("comscale", sr, sc, h, w, kind, ds["mask_kind"], name.split("(")[0]))
        bad_fin = not np.all(np.isfinite(g))
        dev = float("inf") if bad_fin else float(np.abs(g - want).max()) / ext
        ctx.stat_max("comscale_vs_float64_weighted_mean_rel", dev)
        label = "looped" if name == "loop" else "vectorised" if name == "vec" else "torch"
        if not dev <= SCALE_TOL:
            i = int(np.argmax(np.abs(np.nan_to_num(g - want, nan=np.inf)).max(1)))
            ctx.pred_fail(f"com-{label}-not-weighted-mean-scaled", f"centre of mass ({name}) of a pattern in small/large intensity units is not its intensity-weighted mean coordinate", dict(case, path=name),
                          observed={"pattern": i, "com": g[i].tolist(), "pattern_total_intensity": float(scaled.reshape(n, -1)[i].sum()), "factor": fac[i]},
                          required={"weighted_mean_float64": want[i].tolist(), "tolerance": SCALE_TOL * ext})
        # scale invariance against the same path on the unscaled data
        p = got_plain[name]
        if pow2:
            if not np.array_equal(g, p):
                i = int(np.argmax(np.abs(np.nan_to_num(g - p, nan=np.inf)).max(1)))
                ctx.pred_fail(f"com-{label}-not-scale-invariant", f"centre of mass ({name}) changes when a pattern is multiplied by a power of two (exact scaling: the result must be bit-identical)", dict(case, path=name),
                              observed={"pattern": i, "scaled_by_2**": fac[i], "com_scaled": g[i].tolist()}, required={"com_unscaled": p[i].tolist()})
        else:
            d2 = float("inf") if bad_fin else float(np.abs(g - p).max()) / ext
            ctx.stat_max("comscale_scaled_vs_unscaled_rel", d2)
            if not d2 <= SCALE_TOL:
                i = int(np.argmax(np.abs(np.nan_to_num(g - p, nan=np.inf)).max(1)))
                ctx.pred_fail(f"com-{label}-not-scale-invariant", f"centre of mass ({name}) is not invariant under multiplying the intensities by a constant", dict(case, path=name),
                              observed={"pattern": i, "factor": fac[i], "com_scaled": g[i].tolist()}, required={"com_unscaled": p[i].tolist(), "tolerance": SCALE_TOL * ext})
    # the three paths agree with each other on the scaled data as well
    ref = got_scaled["vec"]
    for name, g in got_scaled.items():
        if name != "vec" and not (np.all(np.isfinite(g)) and float(np.abs(g - ref).max()) / ext <= SCALE_TOL):
            ctx.pred_fail("com-paths-disagree-scaled", f"{name} and the vectorised dataset-model path disagree on data in small/large intensity units", dict(case, path=name),
                          observed={"max_abs_dev": float(np.abs(np.nan_to_num(g - ref, nan=np.inf)).max())}, required={"tolerance": SCALE_TOL * ext})
    # model: the exact-carrier COM of the integer dataset is the COM of every scaled copy (theorem com_scale_invariant);
    # tie the implementation on the scaled data to it
    flat = [v for pat in ds["data"] for row in pat for v in row]
    mask_req = None if ds["mask_halves"] is None else [f"{v}/2" for row in ds["mask_halves"] for v in row]
    m = drv.ask({"op": "com", "sr": sr, "sc": sc, "h": h, "w": w, "b": 1, "data": flat, "mask": mask_req})
    if "ok" not in m:
        raise HarnessError(f"driver error {m}")
    mg = m["ok"]["vec"]
    model = np.array([[float(frac_of(mg[0][a][b])), float(frac_of(mg[1][a][b]))] for a in range(sr) for b in range(sc)])
    tol_model = SCALE_TOL if pow2 else 5e-4       # decimal factors round every pixel (rel. 6e-8 each); far below either tolerance
    for name, g in got_scaled.items():
        d = float(np.abs(np.nan_to_num(g - model, nan=np.inf)).max()) / ext
        ctx.stat_max("comscale_model_vs_impl_rel", d if np.isfinite(d) else 1e30)
        if not d <= tol_model:
            ctx.disagree("comscale", dict(case, path=name), model.tolist(), g.tolist(), note=f"model COM of the unscaled integer data (scale invariant) vs {name} on the scaled data")
    ctx.sample({"stream": "comscale", "shape": [sr, sc, h, w], "kind": kind, "factors": fac[:4], "min_pattern_total": tot_min}, limit=9)


# ---------------------------------------------------------------------------------------
# stream: fit

def gen_fit(rng):
    sr, sc = pick_scan(rng, 1, 6)
    if (sr, sc) == (1, 1):
        sc = 2
    kind = "plane" if min(sr, sc) >= 2 and rng.chance(0.7) else "constant"
    q = 8

    def coef(lo, hi):
        return rng.randint(lo * q, hi * q) / q
    if kind == "plane":
        pr = (coef(-1, 1), coef(-1, 1), coef(2, 8))
        pc = (coef(-1, 1), coef(-1, 1), coef(2, 8))
        if rng.chance(0.15):
            pr = (0.0, 0.0, pr[2])
    else:
        pr = (0.0, 0.0, coef(0, 9))
        pc = (0.0, 0.0, coef(0, 9))
    return {"sr": sr, "sc": sc, "kind": kind, "pr": list(pr), "pc": list(pc)}


def fit_case(ctx, drv, fc):
    import numpy as np
    import torch
    from qv.driver import b2f, f2b
    from quantem.diffractive_imaging.ptycho_utils import fit_origin
    sr, sc, kind = fc["sr"], fc["sc"], fc["kind"]
    xs, ys = np.meshgrid(np.arange(sr), np.arange(sc), indexing="ij")
    zr = fc["pr"][0] * xs + fc["pr"][1] * ys + fc["pr"][2]      # exact in float32/64 (dyadic coefficients)
    zc = fc["pc"][0] * xs + fc["pc"][1] * ys + fc["pc"][2]
    scale = max(1.0, float(np.abs(zr).max()), float(np.abs(zc).max()))
    case = {"stream": "fit", "fc": fc}
    ctx.dist[f"fit:{kind}"] += 1
    ctx.dist[f"fit:scan={'1xn' if min(sr, sc) == 1 else 'non-square' if sr != sc else 'square'}"] += 1
    # ---------------- torch origin model
    om = make_origin_model(np.ones((sr, sc, 3, 4), dtype=np.float32))
    # alternative entry points of the same operation: the measured origins as an (n, 2) list or as an (sr, sc, 2) scan grid;
    # the probe positions inferred from the 4-D dataset or given explicitly (the same raster; tensor or ndarray, flat or grid)
    route = (sr * 5 + sc * 3 + int(round(8 * fc["pr"][2]))) % 6
    om_in = np.stack([zr, zc], -1).astype(np.float32)            # (sr, sc, 2)
    om.origin_measured = torch.tensor(om_in if route % 2 else om_in.reshape(-1, 2))
    pos_grid = np.stack([xs, ys], -1).astype(np.float32)
    pp = [None, None, torch.tensor(pos_grid.reshape(-1, 2)), pos_grid.reshape(-1, 2), torch.tensor(pos_grid), pos_grid][route]
    ctx.dist[f"fit:origin_measured={'grid' if route % 2 else 'flat'},positions={'inferred' if pp is None else 'explicit'}"] += 1
    om.fit_origin_background(probe_positions=pp, fit_method=kind)
    got = om.origin_fitted.detach().cpu().numpy().astype(np.float64)
    ctx.count()
    ctx.mark(("fit", "torch", sr, sc, kind))
    dev = max(float(np.abs(got[:, 0] - zr.ravel()).max()), float(np.abs(got[:, 1] - zc.ravel()).max())) / scale
    ctx.stat_max(f"fit_torch_{kind}_rel_dev", dev)
    if not dev <= TOL32:
        ctx.pred_fail(f"fit-torch-{kind}", f"fit_origin_background(fit_method='{kind}') does not return the surface the origins lie on", case,
                      observed={"max_rel_dev": dev, "fitted_first": got[0].tolist()}, required={"surface_first": [float(zr.ravel()[0]), float(zc.ravel()[0])]})
    # model tie
    if kind == "constant":
        m = drv.ask({"op": "fit_constant", "sc": sc, "o": [[f2b(a), f2b(b)] for a, b in zip(zr.ravel(), zc.ravel())]})
        mt = np.array([[b2f(p[0]), b2f(p[1])] for p in m["ok"]["torch"]])
        d = float(np.abs(mt - got).max()) / scale
        ctx.stat_max("fit_constant_model_vs_torch", d)
        if d > TOL32:
            ctx.disagree("fit-constant-torch", case, mt.tolist(), got.tolist())
    else:
        for comp, z in ((0, zr), (1, zc)):
            pts = np.stack([xs.ravel(), ys.ravel(), z.ravel()], -1).astype(np.float64)
            cov = np.cov((pts - pts.mean(0)).T)
            wv, ev = np.linalg.eigh(cov)
            nrm = ev[:, 0]
            gap = (wv[1] - wv[0]) / max(wv[2], 1e-30)
            if gap < 1e-3:      # smallest eigenvalue not isolated: the eigenvector is ill-conditioned
                ctx.dist["fit:pca-illconditioned-skipped"] += 1
                continue
            m = drv.ask({"op": "fit_plane", "nx": sr, "ny": sc, "z": [f2b(v) for v in z.ravel()], "nrm": [f2b(v) for v in nrm]})
            mz = np.array([b2f(v) for v in m["ok"]])
            d = float(np.abs(mz - got[:, comp]).max()) / scale
            ctx.stat_max("fit_plane_model_vs_torch", d)
            if d > TOL32:
                ctx.disagree("fit-plane-torch", case, mz.tolist(), got[:, comp].tolist(), note="fitPlanePCA (float64 eigenvector) vs fit_origin_background")
    # ---------------- numpy: fit_origin directly (float64) and through _set_intensities_com (com_fit, float32)
    ctx.count()
    ctx.mark(("fit", "numpy", sr, sc, kind))
    fr, fcc, rr, rc = fit_origin(data=(zr.astype(np.float64), zc.astype(np.float64)), fit_function=kind, mask=np.ones((sr, sc), bool))
    dev = max(float(np.abs(fr - zr).max()), float(np.abs(fcc - zc).max())) / scale
    ctx.stat_max(f"fit_origin_{kind}_rel_dev", dev)
    if not dev <= 1e-6:
        ctx.pred_fail(f"fit-origin-{kind}", f"fit_origin(fit_function='{kind}') does not return the surface the data lie on", case,
                      observed={"max_rel_dev": dev}, required="the surface (1e-6 relative)")
    if kind == "constant":
        m = drv.ask({"op": "fit_constant", "sc": sc, "o": [[f2b(a), f2b(b)] for a, b in zip(zr.ravel(), zc.ravel())]})
        mr = np.array([b2f(v) for v in m["ok"]["numpy_r"]]).reshape(sr, sc)
        d = float(np.abs(mr - fr).max()) / scale
        ctx.stat_max("fit_constant_model_vs_numpy", d)
        if d > 1e-9:
            ctx.disagree("fit-constant-numpy", case, mr.tolist(), fr.tolist())
    # through the dataset model: delta + uniform background patterns have COMs that are affine in the delta position
    h, w = 8, 9
    arr = np.ones((sr, sc, h, w), dtype=np.float32)
    for a in range(sr):
        for b in range(sc):
            if kind == "plane":
                arr[a, b, (1 + a) % h, (2 + b) % w] += 200.0 if (1 + a < h and 2 + b < w) else 0.0
            else:
                arr[a, b, 3, 5] += 200.0
    pd = make_raster(arr)
    pd._set_intensities_com(arr.copy(), fit_function=kind, vectorized_calculation=True)
    cm, cf = np.asarray(pd.com_measured, dtype=np.float64), np.asarray(pd.com_fit, dtype=np.float64)
    dev = float(np.abs(cm - cf).max()) / max(1.0, float(np.abs(cm).max()))
    ctx.count()
    ctx.stat_max(f"com_fit_{kind}_rel_dev", dev)
    if not dev <= TOL32:
        ctx.pred_fail(f"com-fit-{kind}", f"_set_intensities_com(fit_function='{kind}') : com_fit differs from com_measured although the measured origins lie exactly on a {kind}",
                      case, observed={"max_rel_dev": dev}, required="com_fit = com_measured (5e-4 relative)")
    ctx.sample({"stream": "fit", "fc": fc}, limit=4)


# ---------------------------------------------------------------------------------------
# stream: fitvar — fit_origin's curve_fit variants and mask paths

SURF_NPAR = {"constant": 1, "plane": 3, "parabola": 6, "bezier_two": 9}


def surface(kind, th, x, y):
    """the fitted families, written independently of the library (exact on dyadic coefficients / integer positions)"""
    if kind == "constant":
        return th[0] + 0 * x
    if kind == "plane":                       # _plane(xy, mx, my, b)
        return th[0] * x + th[1] * y + th[2]
    if kind == "parabola":                    # _parabola(xy, c0, cx1, cx2, cy1, cy2, cxy)
        return th[0] + th[1] * x + th[3] * y + th[2] * x * x + th[4] * y * y + th[5] * x * y
    c00, c01, c02, c10, c11, c12, c20, c21, c22 = th    # _bezier_two
    u, v = 1 - x, 1 - y
    return (c00 * u * u * v * v + c10 * 2 * u * x * v * v + c20 * x * x * v * v + c01 * 2 * u * u * v * y + c11 * 4 * u * x * v * y
            + c21 * 2 * x * x * v * y + c02 * u * u * y * y + c12 * 2 * u * x * y * y + c22 * x * x * y * y)


def gen_fitvar(rng):
    kind = rng.weighted([("constant", 1), ("plane", 3), ("parabola", 3), ("bezier_two", 3)])
    lo = 3 if kind in ("parabola", "bezier_two") else 2
    sr, sc = pick_scan(rng, lo, 6)
    if kind == "constant" and rng.chance(0.3):
        sr = 1

    def th():
        if kind == "bezier_two":
            return [rng.randint(-8, 8) / 8 for _ in range(9)]
        return [rng.randint(-16, 16) / 16 for _ in range(SURF_NPAR[kind])]
    mask = rng.weighted([("none", 4), ("all", 3), ("partial", 3 if kind in ("plane", "constant") and min(sr, sc) >= 3 else 0)])
    holes = []
    if mask == "partial":
        holes = rng.sample([[a, b] for a in range(sr) for b in range(sc)], rng.randint(1, 2))
    return {"sr": sr, "sc": sc, "kind": kind, "thr": th(), "thc": th(), "mask": mask, "holes": holes}


def fitvar_case(ctx, drv, fv):
    import numpy as np
    from quantem.diffractive_imaging.ptycho_utils import fit_origin
    sr, sc, kind = fv["sr"], fv["sc"], fv["kind"]
    xs, ys = np.meshgrid(np.arange(sr, dtype=np.float64), np.arange(sc, dtype=np.float64), indexing="ij")
    zr, zc = surface(kind, fv["thr"], xs, ys), surface(kind, fv["thc"], xs, ys)     # exact in binary64
    scale = max(1.0, float(np.abs(zr).max()), float(np.abs(zc).max()))
    case = {"stream": "fitvar", "fv": fv}
    ctx.count()
    ctx.mark(("fitvar", sr, sc, kind, fv["mask"]))
    ctx.dist[f"fitvar:{kind}/mask={fv['mask']}"] += 1
    # model: the same family evaluated at the exact carrier (ties _plane/_parabola/_bezier_two to Model/Origin.lean surfaceF)
    m = drv.ask({"op": "surface", "kind": kind, "nx": sr, "ny": sc, "theta": [str(Fraction(t)) if Fraction(t).denominator != 1 else int(t) for t in fv["thr"]]})
    if "ok" not in m:
        raise HarnessError(f"driver error {m}")
    mz = np.array([float(frac_of(v)) for v in m["ok"]]).reshape(sr, sc)
    if fv["mask"] == "none":
        mask = None
    else:
        mask = np.ones((sr, sc), bool)
        for a, b in fv["holes"]:
            mask[a, b] = False
    try:
        fr, fcc, _rr, _rc = fit_origin(data=(zr.copy(), zc.copy()), fit_function=kind, mask=mask)
    except Exception as e:  # noqa
        ctx.pred_fail(f"fit-origin-raises-mask-{fv['mask']}", f"fit_origin(fit_function='{kind}', mask={'None' if mask is None else fv['mask']}) raises {type(e).__name__}: {str(e)[:120]} "
                      "on origins that lie exactly on the fitted surface", case, observed=f"{type(e).__name__}: {e}"[:300], required="the surface")
        return
    fr, fcc = np.asarray(fr, dtype=np.float64), np.asarray(fcc, dtype=np.float64)
    if fr.shape != zr.shape:
        ctx.pred_fail(f"fit-origin-{kind}", "fit_origin returns an array of a different shape than the data", case, observed=list(fr.shape), required=list(zr.shape))
        return
    d = float(np.abs(mz - fr).max()) / scale
    ctx.stat_max(f"fit_origin_{kind}_model_vs_impl", d)
    if d > 1e-6:
        ctx.disagree(f"fitvar-{kind}", case, mz.tolist(), fr.tolist(), note="model surface at the true parameters vs fit_origin output")
    dev = max(float(np.abs(fr - zr).max()), float(np.abs(fcc - zc).max())) / scale
    ctx.stat_max(f"fit_origin_{kind}_rel_dev", dev)
    if not dev <= 1e-6:
        ctx.pred_fail(f"fit-origin-{kind}", f"fit_origin(fit_function='{kind}', mask={fv['mask']}) does not return the surface the data lie on", case,
                      observed={"max_rel_dev": dev}, required="the surface (1e-6 relative)")
    # through the dataset model: a delta on a uniform background has a centre of mass that is affine in the delta position,
    # so delta rows a*a (columns b) put the measured origins exactly on a parabola in the scan index
    if kind == "parabola" and sr <= 4:
        h, w = 10, 9
        arr = np.ones((sr, sc, h, w), dtype=np.float32)
        for a in range(sr):
            for b in range(sc):
                arr[a, b, a * a, b + 1] += 300.0
        pd = make_raster(arr)
        pd._set_intensities_com(arr.copy(), fit_function="parabola", vectorized_calculation=bool(fv["thr"][0] >= 0))
        cm, cf = np.asarray(pd.com_measured, dtype=np.float64), np.asarray(pd.com_fit, dtype=np.float64)
        dev = float(np.abs(cm - cf).max()) / max(1.0, float(np.abs(cm).max()))
        ctx.count()
        ctx.stat_max("com_fit_parabola_rel_dev", dev)
        if not dev <= TOL32:
            ctx.pred_fail("com-fit-parabola", "_set_intensities_com(fit_function='parabola'): com_fit differs from com_measured although the measured origins lie exactly on a parabola",
                          case, observed={"max_rel_dev": dev}, required="com_fit = com_measured (5e-4 relative)")
    ctx.sample({"stream": "fitvar", "fv": fv}, limit=7)


# ---------------------------------------------------------------------------------------
# stream: forms — every form in which origins can be handed to the origin model's setters (flat (N,2) / (sr,sc,2) scan grid,
# tensor / ndarray / nested list, a single (row, col) pair) must store the same origins and give identical fits and shifts,
# on every scan shape incl. 1xn, nx1, 2xn, nx2, 2x2

FORMS = ["flat_tensor", "flat_ndarray", "flat_list", "grid_tensor", "grid_ndarray", "grid_list"]


def as_form(vals, sr, sc, form):
    import numpy as np
    import torch
    a = np.asarray(vals, dtype=np.float32).reshape(sr * sc, 2)
    if form.startswith("grid"):
        a = a.reshape(sr, sc, 2)
    if form.endswith("tensor"):
        return torch.tensor(a)
    if form.endswith("list"):
        return a.tolist()
    return a.copy()


def gen_forms(rng):
    sr, sc = pick_scan(rng, 1, 5)
    h, w = rng.randint(2, 7), rng.randint(2, 7)
    same = rng.chance(0.25)
    n = sr * sc
    one = [rng.randint(-h, 2 * h), rng.randint(-w, 2 * w)]
    origins = [one] * n if same else [[rng.randint(-h, 2 * h), rng.randint(-w, 2 * w)] for _ in range(n)]
    plane = [rng.randint(-8, 8) / 8, rng.randint(-8, 8) / 8, rng.randint(16, 64) / 8, rng.randint(-8, 8) / 8, rng.randint(-8, 8) / 8, rng.randint(16, 64) / 8]
    data = [[[rng.randint(1, 200) for _ in range(w)] for _ in range(h)] for _ in range(n)]
    return {"sr": sr, "sc": sc, "h": h, "w": w, "origins": origins, "same": same, "plane": plane, "data": data}


def forms_case(ctx, drv, fm):
    import numpy as np
    import torch
    sr, sc, h, w = fm["sr"], fm["sc"], fm["h"], fm["w"]
    n = sr * sc
    arr = np.array(fm["data"], dtype=np.float32).reshape(sr, sc, h, w)
    case = {"stream": "forms", "fm": fm}
    shape_cls = "1x1" if n == 1 else "1xn" if sr == 1 else "nx1" if sc == 1 else "2x2" if (sr, sc) == (2, 2) else "2xn" if sr == 2 else "nx2" if sc == 2 else "general"
    ctx.dist[f"forms:scan={shape_cls}"] += 1
    xs, ys = np.meshgrid(np.arange(sr), np.arange(sc), indexing="ij")
    kind = "plane" if min(sr, sc) >= 2 else "constant"
    pl = fm["plane"]
    if kind == "plane":
        meas = np.stack([pl[0] * xs + pl[1] * ys + pl[2], pl[3] * xs + pl[4] * ys + pl[5]], -1).reshape(n, 2).astype(np.float32)
    else:
        meas = np.tile(np.array([[pl[2], pl[5]]], dtype=np.float32), (n, 1))
    orig = np.array(fm["origins"], dtype=np.float32)
    want_roll = np.stack([np.roll(arr.reshape(n, h, w)[i], (-fm["origins"][i][0], -fm["origins"][i][1]), axis=(0, 1)) for i in range(n)])
    forms = list(FORMS)
    ref = {}
    for form in forms + (["pair_tuple", "pair_tensor"] if fm["same"] else []):
        ctx.count()
        ctx.mark(("forms", shape_cls, form, kind))
        ctx.dist[f"forms:form={form}"] += 1
        fcase = dict(case, form=form)
        om = make_origin_model(arr)
        try:
            om.origin_measured = as_form(meas, sr, sc, form) if not form.startswith("pair") else as_form(meas, sr, sc, "flat_tensor")
            if form == "pair_tuple":
                om.origin_fitted = (float(orig[0, 0]), float(orig[0, 1]))
            elif form == "pair_tensor":
                om.origin_fitted = torch.tensor(orig[0])
            else:
                om.origin_fitted = as_form(orig, sr, sc, form)
        except Exception as e:  # noqa
            ctx.pred_fail("origin-setter-rejects-form", f"origin setter raised {type(e).__name__} for origins given as {form} on a {sr}x{sc} scan", fcase, observed=str(e)[:200], required="accepted like the flat (N, 2) form")
            continue
        sm, sf = om.origin_measured.detach().cpu().numpy(), om.origin_fitted.detach().cpu().numpy()
        # model of the setter (Model/Origin.lean `storeOrigins`: view((-1, 2)).expand((num_dps, 2))) on the integer origins
        mform = "pair" if form.startswith("pair") else "grid" if form.startswith("grid") else "flat"
        mreq = {"op": "store_origins", "n": n, "sc": sc, "form": mform, "data": [int(v) for pr in (fm["origins"][:1] if mform == "pair" else fm["origins"]) for v in pr]}
        mo = drv.ask(mreq)
        if "ok" not in mo:
            raise HarnessError(f"driver error {mo}")
        if mo["ok"] != [[int(a), int(b)] for a, b in sf.reshape(-1, 2).tolist()]:
            ctx.disagree("origin-setter", fcase, mo["ok"], sf.reshape(-1, 2).tolist(), note=f"storeOrigins vs origin_fitted stored from the {form} form")
        if sm.shape != (n, 2) or sf.shape != (n, 2) or not np.array_equal(sm, meas) or not np.array_equal(sf, orig):
            i = int(np.argmax(np.abs(sf.reshape(-1, 2)[:n] - orig).max(1))) if sf.size == orig.size else 0
            ctx.pred_fail("origin-setter-form-scrambles", f"origins handed to the origin_measured / origin_fitted setters as {form} on a {sr}x{sc} scan are not stored pattern by pattern as (row, col)", fcase,
                          observed={"pattern": i, "stored_fitted": sf.reshape(-1, 2)[i].tolist() if sf.size else None, "stored_measured_first": sm.reshape(-1, 2)[:2].tolist()},
                          required={"fitted": orig[i].tolist(), "measured_first": meas[:2].tolist()})
        # shift with the handed-in fitted origins (integer valued): the circular roll, identical for every form
        om.shift_origin_to(origin_coordinate=(0, 0), max_batch_size=None if n % 2 else 2)
        sh_ = om.shifted_tensor.detach().cpu().numpy().reshape(n, h, w).astype(np.float64)
        dev = float(np.abs(sh_ - want_roll).max()) / float(arr.max())
        if not dev <= 1e-5:
            i = int(np.argmax(np.abs(sh_ - want_roll).reshape(n, -1).max(1)))
            ctx.pred_fail("shift-int-not-roll", f"shift_origin_to with integer fitted origins given as {form} on a {sr}x{sc} scan is not the circular roll", fcase,
                          observed={"pattern": i, "origin": fm["origins"][i], "shifted_first_row": sh_[i][0].tolist()}, required={"roll_first_row": want_roll[i][0].tolist()})
        # fit of the handed-in measured origins (exactly on a plane / constant): the surface, identical for every form
        om.fit_origin_background(fit_method=kind)
        fit = om.origin_fitted.detach().cpu().numpy().astype(np.float64)
        scale = max(1.0, float(np.abs(meas).max()))
        dfit = float(np.abs(fit - meas).max()) / scale
        if not dfit <= TOL32:
            ctx.pred_fail(f"fit-torch-{kind}", f"fit_origin_background(fit_method='{kind}') on measured origins given as {form} ({sr}x{sc} scan) does not return the surface they lie on", fcase,
                          observed={"max_rel_dev": dfit}, required="the surface (5e-4 relative)")
        if not ref:
            ref = {"form": form, "shift": sh_, "fit": fit}
        elif not (np.array_equal(ref["shift"], sh_) and np.array_equal(ref["fit"], fit)):
            ctx.pred_fail("origin-forms-disagree", f"the same origins given as {form} and as {ref['form']} ({sr}x{sc} scan) give different shifts / fits", fcase,
                          observed={"shift_max_abs_dev": float(np.abs(ref["shift"] - sh_).max()), "fit_max_abs_dev": float(np.abs(ref["fit"] - fit).max())}, required="bit-identical")
    # model tie (once per case): the exact-carrier shift of the intended origins vs what the forms produced
    if ref:
        flat = [v for pat in fm["data"] for row in pat for v in row]
        m = drv.ask({"op": "shift", "h": h, "w": w, "b": 1, "data": flat, "coord": [0, 0], "origins": fm["origins"]})
        if "ok" not in m:
            raise HarnessError(f"driver error {m}")
        mod = np.array([[float(frac_of(v)) for v in p_] for p_ in m["ok"]]).reshape(n, h, w)
        if float(np.abs(mod - ref["shift"]).max()) / float(arr.max()) > 1e-5:
            ctx.disagree("forms-shift", case, mod.tolist(), ref["shift"].tolist(), note=f"shiftOriginTo at Rat vs shifted_tensor (origins given as {ref['form']})")
    ctx.sample({"stream": "forms", "scan": [sr, sc], "det": [h, w], "forms": forms + (["pair_tuple", "pair_tensor"] if fm["same"] else []), "kind": kind}, limit=11)


# ---------------------------------------------------------------------------------------
# stream: shift

def gen_shift(rng):
    sr, sc = pick_scan(rng, 1, 4)
    h, w = rng.randint(2, 8), rng.randint(2, 8)
    if h == w and rng.chance(0.7):
        w = w + 1
    if rng.chance(0.12):                       # a detector axis of length 1 (line detector): the roll along it is the identity
        if rng.chance(0.5):
            h = 1
        else:
            w = 1
    data = [[[rng.randint(1, 200) for _ in range(w)] for _ in range(h)] for _ in range(sr * sc)]
    # integer origins (the clause of the property) or, for the model tie only, origins in quarter pixels (exact in float32)
    sub = rng.chance(0.2)
    q = 4 if sub else 1
    origins = [[rng.randint(q * (-h - 1), q * 2 * h) / q, rng.randint(q * (-w - 1), q * 2 * w) / q] for _ in range(sr * sc)]
    if not sub:
        origins = [[int(a), int(b)] for a, b in origins]
    if rng.chance(0.3):
        origins = [origins[0]] * (sr * sc)
    coord = rng.weighted([([0, 0], 4), ([h // 2, w // 2], 2), ([rng.randint(0, h - 1), rng.randint(0, w - 1)], 1)])
    mode = "bilinear" if sub else rng.weighted([("bilinear", 5), ("nearest", 1), ("bicubic", 1)])
    return {"sr": sr, "sc": sc, "h": h, "w": w, "data": data, "origins": origins, "coord": coord, "mode": mode, "sub": sub}


def shift_case(ctx, drv, sh, batch_sizes=None):
    import numpy as np
    import torch
    sr, sc, h, w = sh["sr"], sh["sc"], sh["h"], sh["w"]
    n = sr * sc
    arr = np.array(sh["data"], dtype=np.float32).reshape(sr, sc, h, w)
    om = make_origin_model(arr)
    om.origin_measured = torch.zeros((n, 2))
    of = torch.tensor(sh["origins"], dtype=torch.float32)
    grid_route = (sr + 2 * sc + h) % 2 == 1
    om.origin_fitted = of.reshape(sr, sc, 2) if grid_route else of       # the fitted origins as an (sr, sc, 2) scan grid or an (n, 2) list
    ctx.dist[f"shift:origin_fitted={'grid' if grid_route else 'flat'}"] += 1
    cy, cx = sh["coord"]
    sub, mode = bool(sh.get("sub")), sh.get("mode", "bilinear")
    want = None if sub else np.stack([np.roll(arr.reshape(n, h, w)[i], (-(sh["origins"][i][0] - cy), -(sh["origins"][i][1] - cx)), axis=(0, 1)) for i in range(n)])
    ctx.dist[f"shift:origins={'quarter-pixel (model tie only)' if sub else 'integer'}"] += 1
    ctx.dist[f"shift:mode={mode}"] += 1
    ctx.dist["shift:detector=" + ("axis of length 1" if min(h, w) == 1 else "square" if h == w else "non-square")] += 1
    flat = [v for pat in sh["data"] for row in pat for v in row]
    bs = batch_sizes if batch_sizes is not None else sorted({1, 2, n, n + 1, max(1, n - 1)}) + [None]
    amax = float(arr.max())
    for b in bs:
        ctx.count()
        ctx.mark(("shift", sr, sc, h, w, b, tuple(sh["coord"])))
        ctx.dist["shift:b " + ("None" if b is None else "=1" if b == 1 else ">n" if b > n else "divides" if n % b == 0 else "non-dividing")] += 1
        ctx.dist["shift:coord=" + ("corner" if sh["coord"] == [0, 0] else "other")] += 1
        om.shift_origin_to(origin_coordinate=(cy, cx), max_batch_size=b, mode=mode)
        got = om.shifted_tensor.detach().cpu().numpy().reshape(n, h, w).astype(np.float64)
        case = {"stream": "shift", "sh": sh, "b": b}
        if want is not None:
            dev = float(np.abs(np.nan_to_num(got - want, nan=np.inf)).max()) / amax
            ctx.stat_max("shift_vs_roll_rel_dev", dev if np.isfinite(dev) else 1e30)
            if not dev <= 1e-5:
                i = int(np.argmax(np.abs(np.nan_to_num(got - want, nan=np.inf)).reshape(n, -1).max(1)))
                ctx.pred_fail("shift-int-not-roll", f"shift_origin_to(mode='{mode}') with an integer fitted origin is not the circular roll of the pattern", case,
                              observed={"pattern": i, "origin": sh["origins"][i], "shifted": got[i].tolist()}, required={"roll": want[i].tolist()})
        if mode != "bilinear":
            continue                        # the model is the bilinear sampler
        m = drv.ask({"op": "shift", "h": h, "w": w, "b": n if b is None else b, "data": flat, "coord": [cy, cx],
                     "origins": [[hist_mod.rat(a), hist_mod.rat(c)] for a, c in sh["origins"]]})
        if "ok" not in m:
            raise HarnessError(f"driver error {m}")
        if any(p is None for p in m["ok"]):
            ctx.disagree("shift", case, "model leaves a pattern unassigned", "n/a")
            continue
        mod = np.array([[float(frac_of(v)) for v in p] for p in m["ok"]]).reshape(n, h, w)
        d = float(np.abs(np.nan_to_num(mod - got, nan=np.inf)).max()) / amax
        ctx.stat_max("shift_model_vs_impl_rel_dev", d if np.isfinite(d) else 1e30)
        if not d <= 1e-5:
            ctx.disagree("shift", case, mod.tolist(), got.tolist(), note="shiftOriginTo at Rat vs shifted_tensor")
    ctx.sample({"stream": "shift", "shape": [sr, sc, h, w], "origins": sh["origins"][:3], "coord": sh["coord"]}, limit=5)


def e2e_case(ctx, rng):
    """forward(): calculate_origin → constant fit → shift to the corner, on patterns whose COM is an exact integer"""
    import numpy as np
    sr, sc, h, w = rng.randint(1, 3), rng.randint(2, 4), rng.randint(3, 7), rng.randint(3, 8)
    oy, ox = rng.randint(0, h - 1), rng.randint(0, w - 1)
    base = np.array([[rng.randint(1, 50) for _ in range(w)] for _ in range(h)], dtype=np.float32)
    # symmetric cross around (oy, ox) within the frame → COM of the added part is exactly (oy, ox); remove the base's own pull by using deltas only
    arr = np.zeros((sr, sc, h, w), dtype=np.float32)
    arr[..., oy, ox] = 100.0 + float(base[0, 0])
    om = make_origin_model(arr)
    om.forward(max_batch_size=rng.choice([1, 2, None]), fit_method="constant", estimate_detector_orientation=False, origin_coordinate=(0, 0))
    got = om.shifted_tensor.detach().cpu().numpy()
    want = np.roll(arr, (-oy, -ox), axis=(-2, -1))
    ctx.count()
    ctx.dist["shift:e2e-forward"] += 1
    dev = float(np.abs(got - want).max()) / float(arr.max())
    ctx.stat_max("e2e_forward_vs_roll_rel_dev", dev)
    if not dev <= 1e-5:
        ctx.pred_fail("forward-int-not-roll", "forward(fit_method='constant') on patterns with integer centre of mass does not roll it to the corner",
                      {"stream": "e2e", "shape": [sr, sc, h, w], "origin": [oy, ox]}, observed={"max_rel_dev": dev}, required="np.roll")


# ---------------------------------------------------------------------------------------

SIGNATURES = {
    "CenterOfMassOriginModel.from_dataset": [["cls", None], ["dataset", None], ["device", "cpu"]],
    "CenterOfMassOriginModel.calculate_origin": [["self", None], ["max_batch_size", "None"]],
    "CenterOfMassOriginModel.fit_origin_background": [["self", None], ["probe_positions", "None"], ["fit_method", "plane"]],
    "CenterOfMassOriginModel.shift_origin_to": [["self", None], ["origin_coordinate", "(0, 0)"], ["max_batch_size", "None"], ["mode", "bilinear"]],
    "CenterOfMassOriginModel.forward": [["self", None], ["max_batch_size", "None"], ["fit_origin_bkg", "True"], ["probe_positions", "None"], ["fit_method", "plane"],
                                        ["estimate_detector_orientation", "True"], ["rotation_angles_deg", "None"], ["shift_to_origin", "True"],
                                        ["origin_coordinate", "(0, 0)"], ["mode", "bilinear"]],
    "PtychographyDatasetRaster._set_intensities_com": [["self", None], ["intensities", None], ["dp_mask", "None"], ["fit_function", "plane"], ["vectorized_calculation", "True"]],
    "fit_origin": [["data", None], ["mask", "None"], ["fit_function", "plane"], ["robust", "False"], ["robust_steps", "3"], ["robust_thresh", "2"]],
}
PREPROCESS_COM_DEFAULTS = {"com_fit_function": "plane", "vectorized": "True"}


def signature_tie(ctx):
    """parameter order and defaults of the anchored entry points (the model's argument order / `None is num_dps` / default
    target (0, 0) / default fit "plane" are read off these)"""
    import inspect
    from quantem.diffractive_imaging import ptycho_utils as pu
    from quantem.diffractive_imaging.dataset_models import PtychographyDatasetRaster
    from quantem.diffractive_imaging.origin_models import CenterOfMassOriginModel

    def sig(f):
        return [[k, None if v.default is inspect.Parameter.empty else str(v.default)] for k, v in inspect.signature(f).parameters.items()]
    got = {}
    for name in SIGNATURES:
        try:
            if name.startswith("CenterOfMassOriginModel."):
                f = getattr(CenterOfMassOriginModel, name.split(".")[1])
                got[name] = ([["cls", None]] if name.endswith("from_dataset") else []) + sig(f)
            elif name.startswith("PtychographyDatasetRaster."):
                got[name] = sig(getattr(PtychographyDatasetRaster, name.split(".")[1]))
            else:
                got[name] = sig(getattr(pu, name))
        except Exception as e:  # noqa
            got[name] = f"{type(e).__name__}: {e}"
    ctx.count()
    if got != SIGNATURES:
        ctx.disagree("signatures", {"stream": "signatures"}, SIGNATURES, got, note="parameter order / defaults of the anchored functions")
    try:
        pp = inspect.signature(PtychographyDatasetRaster.preprocess).parameters
        gotp = {k: str(pp[k].default) for k in PREPROCESS_COM_DEFAULTS}
    except Exception as e:  # noqa
        gotp = f"{type(e).__name__}: {e}"
    if gotp != PREPROCESS_COM_DEFAULTS:
        ctx.disagree("signatures", {"stream": "signatures"}, PREPROCESS_COM_DEFAULTS, gotp, note="preprocess(): centre-of-mass options")


def run(ctx):
    import torch
    from qv.driver import Driver
    torch.set_num_threads(min(4, torch.get_num_threads()))
    drv = Driver("C18")
    try:
        signature_tie(ctx)
        guarded(ctx, hist_mod.forward_partial_case, {"stream": "forward_partial"}, ctx, drv)
        rng = ctx.rng.fork(11)
        for _ in range(ctx.n(220, 1500)):
            hs = hist_mod.gen_omhist(rng)
            guarded(ctx, hist_mod.omhist_case, {"stream": "omhist", "hist": hs}, ctx, drv, hs)
        rng = ctx.rng.fork(12)
        for _ in range(ctx.n(110, 800)):
            hs = hist_mod.gen_dshist(rng)
            guarded(ctx, hist_mod.dshist_case, {"stream": "dshist", "hist": hs}, ctx, drv, hs)
        rng = ctx.rng.fork(1)
        for _ in range(ctx.n(300, 2000)):
            ds = gen_dataset(rng)
            guarded(ctx, com_case, {"stream": "com", "ds": ds}, ctx, drv, ds)
        rng = ctx.rng.fork(6)
        for _ in range(ctx.n(120, 800)):
            sc_ = gen_scale(rng)
            guarded(ctx, scale_case, {"stream": "comscale", "sc": sc_}, ctx, drv, sc_)
        rng = ctx.rng.fork(2)
        for _ in range(ctx.n(150, 1000)):
            fc = gen_fit(rng)
            guarded(ctx, fit_case, {"stream": "fit", "fc": fc}, ctx, drv, fc)
        rng = ctx.rng.fork(5)
        for _ in range(ctx.n(120, 800)):
            fv = gen_fitvar(rng)
            guarded(ctx, fitvar_case, {"stream": "fitvar", "fv": fv}, ctx, drv, fv)
        rng = ctx.rng.fork(8)
        for _ in range(ctx.n(90, 600)):
            fm = gen_forms(rng)
            guarded(ctx, forms_case, {"stream": "forms", "fm": fm}, ctx, drv, fm)
        rng = ctx.rng.fork(3)
        for _ in range(ctx.n(150, 1000)):
            sh = gen_shift(rng)
            guarded(ctx, shift_case, {"stream": "shift", "sh": sh}, ctx, drv, sh)
        rng = ctx.rng.fork(4)
        for _ in range(ctx.n(50, 300)):
            guarded(ctx, e2e_case, {"stream": "e2e"}, ctx, rng)
        # growth 6 (kept LAST so that the streams above see the same generator states as before)
        rng = ctx.rng.fork(13)
        for _ in range(ctx.n(40, 400)):
            pc = g6_mod.gen_prep(rng)
            guarded(ctx, g6_mod.prep_case, {"stream": "prep", "pc": pc}, ctx, drv, pc)
        g6_mod.fixed_blocks(ctx, drv, guarded)
    finally:
        drv.close()


def replay(ctx, rep):
    from qv.driver import Driver
    case = rep.get("case") or (rep.get("correspondence_disagreements") or [{}])[0].get("case")
    if case is None:
        return True
    drv = Driver("C18")
    try:
        st = case.get("stream")
        if st == "com":
            com_case(ctx, drv, case["ds"], batch_sizes=[case["b"]] if "b" in case else None)
        elif st == "fit":
            fit_case(ctx, drv, case["fc"])
        elif st == "comscale":
            scale_case(ctx, drv, case["sc"])
        elif st == "fitvar":
            fitvar_case(ctx, drv, case["fv"])
        elif st == "forms":
            forms_case(ctx, drv, case["fm"])
        elif st == "shift":
            shift_case(ctx, drv, case["sh"], batch_sizes=[case["b"]] if "b" in case else None)
        elif st == "omhist":
            hist_mod.omhist_case(ctx, drv, case["hist"])
        elif st == "dshist":
            hist_mod.dshist_case(ctx, drv, case["hist"])
        elif st == "prep":
            g6_mod.prep_case(ctx, drv, case["pc"])
        elif st == "forward_partial":
            hist_mod.forward_partial_case(ctx, drv)
        elif st == "signatures":
            signature_tie(ctx)
        elif st == "e2e":
            from qv.prng import Rng
            for s in range(50):
                e2e_case(ctx, Rng(s))
    finally:
        drv.close()
    return True
