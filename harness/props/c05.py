"""C05 — checkpoint / resume equivalence for iterative ptychography (save, reload, clone).

Streams (all on the real ``Ptychography`` class, tiny CPU float32 problems from c05_problem.py)
  resume-pinned   every arm executes ``p.rng = s`` before the first call after the split, so the
                  full-batch order is the same in all arms and the runs are deterministic:
                  uninterrupted  vs  save → Ptychography.from_file → continue  vs  clone() → continue,
                  for EVERY split point of the call program; tolerance TOL_PINNED
  resume-natural  same without touching the rng (the reloaded object draws a fresh, unseeded
                  full-batch permutation: only the summation order differs); tolerance TOL_NATURAL
  reports         right after from_file / clone: num_iters, iter_losses, iter_lrs, constraints, obj,
                  probe, snapshots equal those of the saved object (exact); clone / reloaded object share no
                  Parameter / optimizer / scheduler / model object with the source (is-identity walk); the source
                  object is continued as well, before or after its clone (both orders over the cases)
  resave          a checkpoint written with mode="o" over an OLDER checkpoint of the same path (zip and dir)
                  after a reset with a smaller optimizer set / fewer snapshots reloads as what was saved
  session         call histories on one object with calls the library REJECTS at every argument stage (batch size, reset
                  meeting a stored configuration that was rejected, constraint key / category, optimizer key / type /
                  keyword, scheduler key / type / missing type, loss type — with and without reset=True and with valid
                  optimizer_params before the offending entry), staged optimisation (optimizers added to / removed from
                  models between stages without a reset), valid resets, scheduler changes, alternative argument forms
                  (list / tuple optimizer_params, optimizer classes and upper-case type strings, autograd=False, device=,
                  from_file(device=)); every call of the history is a split point (pinned stream), and after EVERY call the
                  call-level Lean model (Model/CheckpointSession.lean) must agree with the real session (stream trace-session)
  trace           the recorded event trace of the same runs is replayed on the Lean model
                  (Model/Checkpoint.lean): every reconnect_optimizer_to_parameters call (parameter
                  identities, optimizer-state key order before/after `.to()`), every _record_iter
                  call (optimizers dict → LR history, zero back-fill / 0.0 for removed), the
                  symbolic iteration machine (which parameter has optimizer state, in which order,
                  after how many steps), the attribute projection of save (skip list)
  g6 (growth 6)   fixed blocks of c05_g6.py (every seed, no time guard): 12 iterations with store_snapshots=True (checkpoints holding
                  10 / 11 / 12 snapshots and histories of two-digit length, zip and dir, LR ramp end and plateau reductions on both
                  sides of the checkpoint), 6x12 and 12x6 scans with learned positions through every reload path, clone() / reload
                  while the dataset has no optimizer followed by a "dataset" entry in optimizer_params on BOTH objects (deepcopy and
                  fallback path; the is-identity walk is repeated after the continuation), and `double`: save → run → save →
                  from_file(first) twice → continue both → save/from_file of a reloaded object → from_file(second) → continue
  trace-live      every traced zero_grad_all(): .grad presence per parameter before / after it and right before the following
                  step_optimizers() against Model/CheckpointLive.lean (zeroGradAll, backwardAcc); stale gradients on models
                  without optimizer occur in the staged histories
The property predicate (resume equivalence, reload reports the same) is evaluated on the real
code's observables only; the model is not involved in it.
"""
import os
import tempfile
import time

LEVEL = "proof"
EXTRA_PROPS = ["QuantemModel.Props.C05Ext"]   # growth 6: the transient .grad tensors (live loop = .grad-free iteration)
MANIFEST_ENTRY = {
    "category": "proof",
    "text": "Lean 4 theorems over a protocol-level model of Ptychography checkpointing (Model/Checkpoint.lean + Model/CheckpointSession.lean): an abstract full-batch iteration (loss, gradient-presence, per-parameter optimizer update and scheduler are parameters of every theorem) over a concrete state — per-model parameter lists, torch-style optimizer state keyed by parameter in insertion order, stored optimizer / scheduler configuration, LR bookkeeping of _record_iter, constraints — with save = skip-list projection composed with the C01 serializer model, from_file = C01 load + re-binding by reconnect_optimizer_to_parameters, clone = save/load fallback, and ONE reconstruct(...) CALL modelled branch by branch in source order including every branch that raises part-way (batch_size setter, reset_recon = parameter re-creation + optimizer rebuild with the re-binding on failure, constraints setter, optimizer_params setter + set_optimizers, scheduler_params setter, set_schedulers, _set_targets, the loop). Proved: resume equivalence iter^[n-k](fromFile(save(iter^[k] r))) = iter^[n] r for every split k <= n, every step function and every well-formed state; the same OVER EVERY HISTORY OF CALLS, accepted or rejected at any stage, split after any prefix (resume_eq_history_checkpoint / _clone), from the exception-safety invariant that every call keeps every optimizer bound to the live parameters (call_keeps_invariant, history_keeps_invariant, reset_recon_exception_safe: holds whatever the optimizers were bound to before), and for the loop WITH its transient .grad tensors (Props/C05Ext: liveIter_fst / liveIterate_fst — zero_grad_all, accumulating backward, step_optimizers do to the reconstruction exactly what the .grad-free iteration does, for EVERY content of .grad incl. stale never-zeroed gradients of models without optimizer; live_resume_eq_checkpoint / _clone — resume equivalence of the live loop although .grad is not in the file; zero_after_counterexample — false for 'zero_grad after the step'); with a counterexample for reset_recon before the repair (reset_unrepaired_counterexample: the rejected reset leaves the optimizer on the discarded tensor, the uninterrupted run stops training, the reloaded one does not); the re-binding keeps every parameter's moments for every state (keyed by parameter), whereas the former positional re-keying keeps them iff the state keys are a prefix of the parameter list (counterexample); _record_iter keeps every LR history as long as the iteration count and equals the per-iteration lookup with 0.0 for absent optimizers, for every sequence of iterations/resets with optimizers added or removed. Tied to the code on every run by a run-level differential check on real reconstructions (optimizers sgd/adam/adamw x LRs x schedulers none/plateau/exp/cyclic/linear x object types x 1-2 probe modes x 1-2 slices x zip/dir x every split point; session histories with rejected calls, staged optimisation, autograd on/off and alternative argument forms with every call a split point), by replaying the recorded event trace (optimizer-state key order before/after .to(), LR bookkeeping, which parameters have state) on the Lean model, and by running the call-level model next to the real session and comparing after every call: raised or not, optimizer / scheduler / stored configuration per model, optimizer bound to the live parameters, scheduler attached to the live optimizer, iteration count, LR-history keys and lengths. The source object is continued as well (before or after its clone), clone/reload must share no Parameter/optimizer/scheduler/model object with the source, and checkpoints re-saved with mode='o' over an older checkpoint of the same path must reload as saved.",
    "note": "Partial by nature: Lean proves that resume equivalence follows from component-wise round trip + re-binding + bookkeeping + exception safety of the call level on the model; that torch's pickled modules/optimizers/schedulers really round-trip (the Pickle hypothesis of the theorems) and that the real numerical run is reproduced to tolerance is measured on every run, not proved. Transient .grad tensors (never in a checkpoint) are in the model since growth 6 (Model/CheckpointLive.lean): that stale gradients are never consumed is proved from the loop order zero_grad_all → backward → step_optimizers and from 'zero_grad clears the param group the step reads'; the stream trace-live compares the .grad presence masks around every traced zero_grad_all with the model, the torch semantics of accumulation itself stays trusted. Snapshots (_snapshots) are not in the Lean model: their round trip (order and content, also with more than ten stored) is measured by the reports predicate on fixed blocks. Full-batch only; the batch order is pinned through the public rng setter in the deterministic stream and left to the library in the natural stream. DIP/parametric models, validation splits and GPU device moves are not exercised.",
    "technique": "Lean 4 proof (iterate/induction over call histories, invariants incl. rejected calls, list lemmas, reuse of C01/C14 round-trip theorems) + run-level differential check, event-trace and call-level session correspondence",
}
RULE = ("(growth 6: a `double` case = one configuration with two checkpoints, five continued objects) one case = one (configuration, split point): real runs (uninterrupted, save/from_file/continue, clone/continue, saved source continued); "
        "distinct non-trivial = distinct (optimizer types, schedulers, optimized keys, object type, probes, slices, store, raw, "
        "program shape, split position class first/inner/last, pinned|natural; for session histories also the sequence of call kinds "
        "incl. the kind of every rejected call, the split call, autograd, from_file device) with at least one iteration in total")
TRUSTED = ["loss.backward() accumulates into .grad of the leaves it reaches and leaves the others alone; optimizer.zero_grad() sets .grad of its param group to None (the `accum` / `zeroModel` of Model/CheckpointLive.lean; presence masks compared by trace-live)",
           "torch.save/torch.load (pickle) of whole nn.Module objects incl. their optimizer and scheduler: hypothesis `Pickle` of the theorems, observed by the reports/resume streams",
           "torch optimizers are per-parameter updates that skip parameters whose .grad is None (the abstract `upd`/`grad` of the model); LR schedulers are functions of (scheduler state, loss, lr)",
           "the classification of a call's arguments handed to the call-level model (valid / unknown key, known / unknown / 'none' optimizer and scheduler type, accepted / rejected keyword, batch size, loss type) is computed by the harness from the arguments and the DEFAULT_CONSTRAINTS tables of the real classes; that the library rejects exactly these is what the trace-session stream compares",
           "NumPy Generator / torch CPU kernels are deterministic for equal seeds and thread count (one thread; measured: pinned stream deviation 0)"]
ASSUMPTIONS = ["'continuing with the same calls': the call program is split at the checkpoint into (calls up to it, continuation); all arms execute exactly the same calls, the continuation of a split call carries no optimizer/scheduler arguments (those re-create the optimizers in the library)",
               "a call the library rejects is a call of the history like any other: every arm executes it (before or after the checkpoint), its exception is caught and the caller carries on; the property is judged on the observables only (iteration count, losses, LR history, object, probe, constraints, snapshots)",
               "'saving it together with its data' = save_raw_data=True; the save_raw_data=False + from_file(dset=fresh dataset) route is exercised only for configurations without a dataset optimizer / dataset constraints (the dataset's optimizer is not in the file on that route)",
               "pinned stream: every arm sets p.rng = s (public setter) before the first continuation call; natural stream: nothing is set, the reloaded object's full-batch permutation differs (summation order only)",
               "tolerances: relative to the largest magnitude of the uninterrupted observable; pinned 1e-6 (measured: exactly 0), natural 1e-5 (property text). In the natural stream the floating-point observables are judged only for well-conditioned cases: the uninterrupted run is repeated with two other full-batch orders and must move by <= 2e-7 (measured: among 668 cases judged at a 5e-7 floor the largest reload/clone deviation was 4.9e-6, so the floor was tightened to keep a margin below 1e-5); otherwise (Adam-amplified rounding noise, large cyclic LRs) only iteration count, constraints and LR-history keys/lengths are judged there and the pinned stream judges the same case deterministically",
               "schedulers are given explicit parameters (gamma, total_iters, step sizes) so that a split call builds the same scheduler as the unsplit one would",
               "clone()'s in-memory path (copy.deepcopy succeeds only for a dataset built with learn_scan_positions=False) is exercised by a fixed block of configurations, every split point",
               "two checkpoints in one history (c05_g6.double_case): the uninterrupted object and every arm execute p.rng = 3001 before the middle leg and p.rng = 3002 before the last leg; all checkpoints with save_raw_data=True",
               "quick tier: the forced configurations and the session histories run every (call-boundary) split; random single-run configurations with more than four split points run the first, the one after one iteration, the last and one random split (thorough: every split point)"]
EXPLANATION = ("Theorems in Props/C05.lean are about Model/Checkpoint.lean + Model/CheckpointSession.lean (which import the C01 serializer model); each run performs real "
               "reconstructions with every split point — also call histories with rejected calls and staged optimisation — compares uninterrupted/reloaded/cloned runs, "
               "replays the recorded event trace on the model and runs the call-level model next to the real session.")

TOL_PINNED = 1e-6
TOL_NATURAL = 1e-5
NATURAL_COND = 2e-7     # natural stream: float observables judged only if the batch order alone moves the uninterrupted run by less
OBSERVABLES = ("num_iters", "iter_losses", "iter_lrs", "obj", "probe", "constraints", "snapshots")


class HarnessError(RuntimeError):
    pass


# ---------------------------------------------------------------------------------------
# generator

LRS = [1e-3, 5e-3, 1e-2, 5e-2, 0.1]


# numeric kinds a hyper-parameter may arrive in (same value in every kind: integers for the integer kinds, dyadic
# fractions otherwise).  Which parameter accepts which kind was established on the unchanged library + torch:
# betas must be Python floats (np.float64 is one); momentum / constraint values cannot be 0-d arrays.
KINDS_ALL = ["int", "float", "f32", "f64", "i64", "arr0", "arr0f32"]
KINDS_NOARR = ["int", "float", "f32", "f64", "i64"]
KINDS_PYFLOAT = ["float", "f64"]
DYADIC_LRS = [0.125, 0.0625, 0.03125, 0.015625]


def typed(rng, kinds, frac_values, int_values, p_typed=0.5, plain=None):
    """a number: with probability 1 - p_typed a plain float from `plain` (or frac_values), otherwise tagged with a kind"""
    if not rng.chance(p_typed):
        return rng.choice(plain or frac_values)
    k = rng.choice(kinds)
    if k in ("int", "i64"):
        if not int_values:
            k = "float"
        else:
            return {"num": rng.choice(int_values), "kind": k}
    return {"num": rng.choice(frac_values), "kind": k}


def gen_opt(rng, typ, force_kind=None):
    if force_kind:
        lr = {"num": 1 if force_kind in ("int", "i64") else rng.choice(DYADIC_LRS), "kind": force_kind}
    else:
        lr = typed(rng, KINDS_ALL, DYADIC_LRS, [1], 0.4, LRS)
    d = {"type": typ, "lr": lr}
    if typ == "sgd" and rng.chance(0.6):
        d["momentum"] = typed(rng, KINDS_NOARR, [0.5, 0.875], [0], 0.5, [0.5, 0.9])
    if typ == "adamw" and rng.chance(0.4):
        d["weight_decay"] = typed(rng, KINDS_ALL, [0.125, 0.015625], [0], 0.5, [0.0, 0.01, 0.1])
    if typ == "adam" and rng.chance(0.2):
        k = rng.choice(KINDS_PYFLOAT)
        d["betas"] = [{"num": 0.75, "kind": k}, {"num": 0.875, "kind": k}] if rng.chance(0.5) else [0.8, 0.9]
    return d


def gen_sched(rng, kind):
    if kind == "none":
        return {"type": "none"}
    if kind == "plateau":
        return {"type": "plateau", "factor": typed(rng, KINDS_ALL, [0.5, 0.25], [], 0.4), "patience": rng.choice([0, 1]), "cooldown": 0,
                "threshold": typed(rng, KINDS_ALL, [0.5, 0.0009765625], [], 0.4, [1e-3, 0.5])}
    if kind == "exp":
        return {"type": rng.choice(["exp", "gamma"]), "gamma": typed(rng, KINDS_ALL, [0.5, 0.75, 0.875], [], 0.4, [0.5, 0.7, 0.9])}
    if kind == "cyclic":
        return {"type": "cyclic", "step_size_up": rng.choice([1, 2]), "step_size_down": rng.choice([1, 2, 3])}
    if kind == "linear":
        return {"type": "linear", "start_factor": typed(rng, KINDS_ALL, [0.5, 0.25], [], 0.4), "total_iters": rng.choice([2, 3])}
    raise HarnessError(kind)


SCHED_KINDS = ["none", "plateau", "exp", "cyclic", "linear"]
OPT_TYPES = ["sgd", "adam", "adamw"]


def gen_cfg(rng, idx, force=None):
    """one configuration; `force` selects the coverage the first configurations must hit"""
    force = force or {}
    cfg = {"scan": rng.choice([[3, 3], [2, 3], [3, 2], [4, 3]]), "roi": [8, 8], "seed": rng.below(4), "rng_seed": 3 + rng.below(5),
           "num_probes": force.get("num_probes", rng.weighted([(1, 3), (2, 2)])),
           "obj_type": force.get("obj_type", rng.choice(["complex", "pure_phase", "potential"])),
           "num_slices": force.get("num_slices", rng.weighted([(1, 4), (2, 1)])),
           "learn_tilt": force.get("learn_tilt", rng.chance(0.15)),
           "store": force.get("store", rng.choice(["zip", "dir"]))}
    keysets = [["object"], ["object", "probe"], ["object", "probe", "dataset"], ["probe"], ["object", "dataset"]]
    keys = force.get("keys", rng.weighted([(keysets[0], 2), (keysets[1], 5), (keysets[2], 3), (keysets[3], 1), (keysets[4], 1)]))
    base_t = force.get("opt", rng.choice(OPT_TYPES))
    opt = {k: gen_opt(rng, base_t if rng.chance(0.8) else rng.choice(OPT_TYPES), force.get("lr_kind")) for k in keys}
    sk = force.get("sched", rng.choice(SCHED_KINDS))
    sched = None
    if sk != "none" or rng.chance(0.3):
        sched = {k: gen_sched(rng, sk if rng.chance(0.8) else rng.choice(SCHED_KINDS)) for k in keys if rng.chance(0.85)}
    if force.get("lr_kind") and sk != "none":
        sched = {k: gen_sched(rng, sk) for k in keys}      # every optimizer's lr is changed by its scheduler
    cons = {}
    if rng.chance(0.35):
        cons["object"] = rng.choice([{"tv_weight_xy": typed(rng, KINDS_NOARR, [0.015625, 0.0078125], [], 0.5, [0.01])}, {"apply_fov_mask": True},
                                     {"positivity": False}, {"gaussian_sigma": typed(rng, KINDS_NOARR, [1.5, 0.75], [1], 0.5, [1.0])}])
    if cfg["obj_type"] == "potential" and rng.chance(0.75):
        # torch.clamp passes no gradient at the bound: a potential object starting at 0 with positivity on never moves
        cons["object"] = dict(cons.get("object", {}), positivity=False)
    if rng.chance(0.25):
        cons["probe"] = rng.choice([{"center_probe": True}, {"orthogonalize_probe": False},
                                    {"tv_weight": typed(rng, KINDS_NOARR, [0.015625], [], 0.5, [0.01])}])
    if "dataset" in keys and (force.get("descan_const") or rng.chance(0.3)):
        cons["dataset"] = rng.choice([{"descan_shifts_constant": True}, {"descan_tv_weight": 0.01}]) \
            if not force.get("descan_const") else {"descan_shifts_constant": True}
    loss_type = rng.weighted([(None, 5), ("l2_intensity", 1), ("l1_amplitude", 1), ("poisson", 1)])
    shape = force.get("shape", rng.weighted([("single", 6), ("history", 3), ("ds-removed", 1 if "dataset" in keys else 0)]))
    if shape == "single":
        n = force.get("n", rng.randint(1, 5))
        calls = [{"n": n, "opt": opt, "sched": sched, "cons": cons or None, "reset": True}]
    elif shape == "ds-removed":
        # positions/descan are learned, then the dataset optimizer is removed: from there on the
        # save_raw_data=False route (learned values travel in _dataset_metadata) must resume exactly
        cons.pop("dataset", None)
        opt = dict(opt)
        opt["dataset"] = {"type": rng.choice(["adam", "adamw"]), "lr": rng.choice([0.05, 0.1])}   # adam: positions move by ~lr px per iteration
        calls = [{"n": rng.randint(1, 2), "opt": opt, "sched": None, "cons": cons or None, "reset": True},
                 {"n": rng.randint(1, 3), "opt": {"dataset": {"type": "none"}}}]
    else:
        # optimizers added / removed / re-typed between calls (LR back-fill and 0.0 for removed)
        a, b, c = rng.randint(0, 2), rng.randint(1, 2), rng.randint(0, 1)
        first_keys = keys[:1]
        calls = [{"n": a, "opt": {k: opt[k] for k in first_keys}, "sched": ({k: v for k, v in (sched or {}).items() if k in first_keys} or None),
                  "cons": cons or None, "reset": True},
                 {"n": b, "opt": opt, "sched": sched}]
        rem = rng.choice(keys)
        third = {rem: {"type": "none"}} if rng.chance(0.6) else {rem: gen_opt(rng, rng.choice(OPT_TYPES))}
        calls.append({"n": c + (1 if a + b + c == 0 else 0), "opt": third})
    if loss_type:
        for cl in calls:
            cl["loss_type"] = loss_type
    if rng.chance(0.3):
        calls[0]["snap"] = rng.choice([1, 2])      # store_snapshots=True, store_snapshots_every
    cfg["calls"] = calls
    for flag in ("learn_positions", "learn_descan"):       # dataset constructor flags (non-default values only when forced)
        if flag in force:
            cfg[flag] = force[flag]
    # request for the save_raw_data=False route; whether it is taken is decided at the checkpoint (run_case)
    cfg["raw"] = force.get("raw", rng.chance(0.6))
    if not cfg["raw"]:
        cfg["auto"] = force.get("auto", rng.chance(0.5))
    return cfg


# ---------------------------------------------------------------------------------------
# session histories: rejected calls, staged optimisation, alternative argument forms

BAD_KINDS = ["cons-key", "cons-cat", "opt-key", "opt-type", "opt-kw", "sched-type", "sched-key", "sched-notype", "batch", "loss"]
SESSION_FORCED = [
    # fixed blocks (the same for every seed): the input classes that exposed defects / seeded changes so far
    # reset + new optimizers + a misspelt constraint, then carry on
    {"events": ["bad:cons-key:reset+opt", "stage-add"], "active": ["object"]},
    # a rejected optimizer configuration stays stored; the next reset meets it
    {"events": ["bad:opt-kw", "reset", "bad:opt-key:reset+opt"], "active": ["object", "probe"], "victim": "object"},
    # optimizers appear / disappear between stages, never a reset
    {"events": ["stage-add", "stage-remove", "stage-add"], "active": ["object"]},
    {"events": ["bad:opt-type:opt", "stage-add", "reset"], "active": ["probe"], "victim": "probe"},
    # new optimizers accepted, then the scheduler (or the next model's optimizer) rejected
    {"events": ["bad:sched-type:opt", "bad:batch", "sched"], "active": ["object", "probe"], "victim": "probe"},
    {"events": ["bad:loss:reset", "bad:cons-cat:reset+opt", "stage-add"]},
    # the rejected model is the FIRST of three that have optimizers: the rebuild of the models after it never runs
    {"events": ["bad:opt-kw", "reset"], "active": ["object", "probe", "dataset"], "victim": "object", "keys3": True},
    {"events": ["bad:opt-type:opt", "reset", "stage-remove"], "active": ["object", "probe", "dataset"], "victim": "probe", "keys3": True},
]


def gen_session(rng, idx, force=None):
    """a call history on one object: a first stage that optimises a SUBSET of the models, then events — calls the library
    rejects (bad constraint key / category, optimizer key / type / keyword, scheduler key / type, batch size, loss type;
    with and without reset=True and valid optimizer_params before the offending entry), optimizers added to / removed
    from models between stages without a reset, valid resets, scheduler changes — each followed by plain continuation
    calls.  Every call of the history is a split point."""
    cfg = {"scan": rng.choice([[3, 3], [2, 3], [3, 2]]), "roi": [8, 8], "seed": rng.below(4), "rng_seed": 3 + rng.below(5),
           "num_probes": rng.weighted([(1, 3), (2, 1)]), "obj_type": rng.choice(["complex", "pure_phase", "potential"]),
           "num_slices": rng.weighted([(1, 4), (2, 1)]), "learn_tilt": rng.chance(0.15), "store": rng.choice(["zip", "dir"]),
           "raw": True, "session": True}
    if rng.chance(0.3):
        cfg["load_device"] = "cpu"          # from_file(path, device="cpu"): one more .to() on the reloaded object
    autograd = None if rng.chance(0.75) else False
    t = rng.choice(OPT_TYPES)

    def one_opt():
        d = gen_opt(rng, t if rng.chance(0.7) else rng.choice(OPT_TYPES))
        if rng.chance(0.2):     # alternative spellings of the type: upper case, the optimizer class itself
            d["type"] = {"sgd": rng.choice(["SGD", "class:SGD"]), "adam": rng.choice(["Adam", "class:Adam"]), "adamw": rng.choice(["AdamW", "class:AdamW"])}[d["type"]]
        return d
    fopt = force if isinstance(force, dict) else {"events": force or []}
    all_keys = ["object", "probe", "dataset"] if (rng.chance(0.4) or fopt.get("keys3")) else ["object", "probe"]
    opt = {k: one_opt() for k in all_keys}
    active = [rng.choice(all_keys[:2])] if rng.chance(0.75) else list(all_keys[:2])       # first stage: a subset
    if fopt.get("active"):
        active = list(fopt["active"])
    cons = {}
    if cfg["obj_type"] == "potential":
        cons["object"] = {"positivity": False}
    if rng.chance(0.3):
        cons["probe"] = rng.choice([{"center_probe": True}, {"orthogonalize_probe": False}])
    sk = rng.choice(SCHED_KINDS)
    sched0 = {k: gen_sched(rng, sk) for k in active} if sk != "none" else None
    first = {"n": rng.randint(1, 2), "opt": {k: opt[k] for k in active}, "sched": sched0, "cons": cons or None, "reset": True}
    if rng.chance(0.15) and active == all_keys[:2] and not fopt.get("active"):
        first = {"n": first["n"], "opt_list": list(active), "opt_list_form": rng.choice(["list", "tuple"]), "cons": cons or None, "reset": True}
    calls = [first]
    poisoned = set()        # models whose stored optimizer configuration was rejected (every later reset meets it again)
    was_poisoned = False
    events = list(fopt.get("events") or [])
    if not events:
        pool = [("bad", 11), ("stage-add", 4), ("stage-remove", 2), ("reset", 2), ("sched", 1)]
        events = [rng.weighted(pool) for _ in range(rng.randint(2, 3))]
        if not any(e in ("bad", "stage-add") for e in events):
            events[rng.below(len(events))] = rng.choice(["bad", "stage-add"])
    for ev in events:
        parts = ev.split(":")
        c = None
        if parts[0] == "bad":
            kind = parts[1] if len(parts) > 1 else rng.choice(BAD_KINDS)
            flags = parts[2] if len(parts) > 2 else rng.choice(["", "reset", "opt", "reset+opt", "reset+opt"])
            c = {"n": 0, "bad": kind}
            if "reset" in flags:
                c["reset"] = True
            okeys = list(active) if active else [all_keys[0]]
            if "opt" in flags or kind.startswith("opt-"):
                c["opt"] = {k: opt[k] for k in okeys}      # valid entries come first: they take effect before the rejection
            # the model whose entry is rejected: mostly one that has an optimizer (or precedes one that has)
            victim = rng.choice(active) if (active and rng.chance(0.7)) else rng.choice(all_keys)
            if fopt.get("victim"):
                victim = fopt["victim"]
            if kind == "cons-key":
                c["cons"] = {"object": {"tv_weight_xy": 0.0078125}, victim: {"no_such_constraint": 1}} if victim != "object" \
                    else {"probe": {"center_probe": False}, "object": {"no_such_constraint": 1}}
            elif kind == "cons-cat":
                c["cons"] = {"probe": {"center_probe": False}, "objekt": {"tv_weight_xy": 0.5}}
            elif kind == "opt-key":
                c["opt"] = dict(c["opt"], **{rng.choice(["prob", "obj", "Object", "positions"]): {"type": "adam", "lr": 0.01}})
            elif kind == "opt-type":
                c["opt"] = dict(c["opt"])
                c["opt"].pop(victim, None)
                c["opt"][victim] = {"type": rng.choice(["lbfgs", "rmsprop", "None"]), "lr": 0.01}
                poisoned.add(victim)
            elif kind == "opt-kw":
                c["opt"] = dict(c["opt"])
                c["opt"].pop(victim, None)
                c["opt"][victim] = {"type": rng.choice(["adam", "sgd"]), "lr": 0.01, "no_such_option": 1}
                poisoned.add(victim)
            elif kind == "sched-type":
                c["sched"] = {okeys[0]: {"type": "exp", "gamma": 0.5}, victim: {"type": rng.choice(["cosine", "exponential", "step"])}} if victim != okeys[0] \
                    else {victim: {"type": "cosine"}}
            elif kind == "sched-key":
                c["sched"] = {okeys[0]: {"type": "exp", "gamma": 0.5}, "objekt": {"type": "exp", "gamma": 0.5}}
            elif kind == "sched-notype":
                c["sched"] = {victim: {"gamma": 0.5}}
            elif kind == "batch":
                c["batch"] = rng.choice([0, -1, 0.4, "many"])
            elif kind == "loss":
                c["loss_type"] = rng.choice(["l3", "amp", "L2"])
        elif parts[0] == "stage-add":
            cand = [k for k in all_keys if k not in active]
            if not cand:
                cand = [rng.choice(all_keys)]
            k = rng.choice(cand)
            c = {"n": rng.randint(1, 2), "opt": {k: opt[k]}}        # only the new model: the others keep their optimizers
            if rng.chance(0.3):
                c["opt"] = dict({a: opt[a] for a in active}, **c["opt"])     # … or all of them re-created
            if k not in active:
                active.append(k)
            poisoned.discard(k)
            for a in list(c["opt"]):
                poisoned.discard(a)
        elif parts[0] == "stage-remove":
            if active:
                k = rng.choice(active)
                active.remove(k)
                c = {"n": rng.randint(1, 2), "opt": {k: {"type": "none"}}}
                poisoned.discard(k)
        elif parts[0] == "reset":
            c = {"n": rng.randint(1, 2), "reset": True}
            if rng.chance(0.4):
                c["opt"] = {k: opt[k] for k in active} or None
        elif parts[0] == "sched":
            if active:
                c = {"n": rng.randint(1, 2), "sched": {k: gen_sched(rng, rng.choice(SCHED_KINDS[1:])) for k in active if rng.chance(0.7)}}
        if c is None:
            continue
        if was_poisoned and not c.get("bad") and (c.get("reset") or c.get("opt") or c.get("opt_list")):
            # a rejected optimizer configuration stays stored in its model: reset_recon() and set_optimizers() meet it
            # again, so every later reset / optimizer_params call may be rejected as well (until it is replaced)
            c["bad"] = "after-rejected-config"
        elif was_poisoned and c.get("bad") and (c.get("reset") or c.get("opt")):
            c["bad"] += "+after-rejected-config"
        was_poisoned = was_poisoned or bool(poisoned)
        calls.append(c)
        if c.get("bad") or rng.chance(0.6):
            calls.append({"n": rng.randint(1, 2)})       # the caller carries on
    if autograd is False:
        for c in calls:
            c["autograd"] = False
    if rng.chance(0.2):
        calls[-1]["device"] = "cpu"
    cfg["calls"] = calls
    return cfg


def session_splits(cfg, every):
    """quick tier: after every call of the history (incl. right after a rejected call) and after the first iteration;
    thorough: every split point"""
    if every:
        return splits_of(cfg)
    out = [[j, c["n"]] for j, c in enumerate(cfg["calls"])]
    if cfg["calls"][0]["n"] >= 2:
        out.insert(0, [0, 1])
    return out


def splits_of(cfg):
    return [[j, off] for j, c in enumerate(cfg["calls"]) for off in range(0, c["n"] + 1)]


def cfg_sig(cfg, split, pinned):
    calls = cfg["calls"]
    kinds = sorted({(k, str(v.get("type")), (v.get("lr") or {}).get("kind") if isinstance(v.get("lr"), dict) else "plain")
                    for c in calls for k, v in (c.get("opt") or {}).items()})
    scheds = sorted({(k, str(v.get("type"))) for c in calls for k, v in (c.get("sched") or {}).items()})
    total = sum(c["n"] for c in calls)
    before = sum(c["n"] for c in calls[:split[0]]) + split[1]
    pos = "first" if before == 0 else ("last" if before == total else "inner")
    return (str(kinds), str(scheds), cfg["obj_type"], cfg["num_probes"], cfg["num_slices"], cfg["store"], cfg["raw"], cfg["learn_tilt"],
            len(calls), pos, "pinned" if pinned else "natural") + \
        ((("learn_positions", cfg["learn_positions"], cfg.get("learn_descan", True)),) if "learn_positions" in cfg else ()) + \
        ((str([c.get("bad") or ("reset" if c.get("reset") else "opt" if (c.get("opt") or c.get("opt_list")) else "") for c in calls]),
          split[0], bool(calls[0].get("autograd", True)), cfg.get("load_device")) if cfg.get("session") else ())


# ---------------------------------------------------------------------------------------
# one case

def state_gap(views):
    """some optimizer has a parameter without state before a parameter with state
    (the input class on which positional re-keying would move moments)"""
    for v in views.values():
        if v is None:
            continue
        have = sorted(i for i, _, _ in v["state"] if i is not None)
        if have and have != list(range(len(have))):
            return True
    return False


def run_case(ctx, drv, cfg, split, pinned, scratch):
    """returns nothing; reports through ctx"""
    from . import c05_problem as cp
    case = {"cfg": cfg, "split": split, "pinned": bool(pinned)}
    if cfg.get("auto"):      # raw data on disk: from_file reloads and re-preprocesses the dataset by itself
        cfg = dict(cfg, raw_path=os.path.join(scratch, "c05_raw_%dx%d_%d.zip" % (cfg["scan"][0], cfg["scan"][1], cfg["seed"])))
    pin = (1000 + 7 * split[0] + split[1]) if pinned else None
    tol = TOL_PINNED if pinned else TOL_NATURAL
    stream = "resume-pinned" if pinned else "resume-natural"
    pre, post = cp.split_program(cfg["calls"], split[0], split[1])
    total = sum(c["n"] for c in cfg["calls"])
    ctx.count()
    ctx.dist[f"stream:{stream}"] += 1
    logs = {"uninterrupted": [], "source": [], "reload": [], "clone": []}
    sess = {"pre": [], "post": []}        # session state after every call (saved object before the checkpoint, reloaded one after)
    ids_box = [None]

    def watch(tag):
        def after(p, c, outcome):
            view, ids_box[0] = cp.session_view(p, ids_box[0])
            sess[tag].append(view)
        return after if cfg.get("session") else None
    try:
        U = cp.run_calls(cp.build(cfg), pre, log=logs["uninterrupted"])
        cp.run_calls(U, post, pin, log=logs["uninterrupted"])
        with cp.Trace() as tr:
            B = cp.build(cfg)
            if cfg.get("session"):
                sess["init"], ids_box[0] = cp.session_view(B)
            cp.run_calls(B, pre, log=logs["source"], after=watch("pre"))
            n_pre_events = len(tr.events)
            views_B = cp.all_opt_views(B)
            obs_B0 = cp.observe(B)
            # the save_raw_data=False route is only taken when the dataset model carries nothing that is not in the
            # file (no optimizer / scheduler, default constraints): see ASSUMPTIONS
            raw_eff = bool(cfg["raw"]) or B.dset.has_optimizer() or B.dset.constraints != dict(B.dset.DEFAULT_CONSTRAINTS)
            cfg_eff = dict(cfg, raw=raw_eff)
            R, names_before, names_after = cp.save_and_reload(B, cfg_eff, scratch)
            views_B_after_save = cp.all_opt_views(B)
            views_R = cp.all_opt_views(R)
            C, clone_path = cp.clone(B)
            views_C = cp.all_opt_views(C)
            obs_B = cp.observe(B)
            obs_R0, obs_C0 = cp.observe(R), cp.observe(C)
            shared = {"clone": cp.shared_state(C, B), "reload": cp.shared_state(R, B)}
            if cfg.get("session"):
                sess["reloaded"], ids_box[0] = cp.session_view(R)
            cp.run_calls(R, post, pin, log=logs["reload"], after=watch("post"))
            # the saved/cloned object itself is continued too, before or after its clone (both orders over the
            # cases): a clone that shares training state with its source shows up in whichever runs second
            order = "clone-first" if (split[0] + split[1] + int(bool(pinned))) % 2 == 0 else "source-first"
            for X in ((C, B) if order == "clone-first" else (B, C)):
                cp.run_calls(X, post, pin, log=logs["clone" if X is C else "source"])
            views_R_end = cp.all_opt_views(R)
            # … and once more after BOTH were continued (optimizers / parameters created by the continuation calls)
            shared["clone (after both were continued)"] = cp.shared_state(C, B)
    except Exception as e:  # the checkpoint protocol itself raised on a valid configuration
        import traceback
        gap = ""
        ctx.pred_fail("checkpoint-raises:" + type(e).__name__, "save / from_file / clone / continue raised on a valid configuration", case,
                      observed=traceback.format_exc()[-1500:], required="no exception" + gap)
        ctx.dist["raised"] += 1
        return
    gap = state_gap(views_B)
    if cfg.get("session"):
        for c, o in zip(pre + post, logs["uninterrupted"]):
            if c.get("bad"):
                ctx.dist[f"session:rejected:{c['bad']}={o}"] += 1
        ctx.dist["session:optimizer_unbound_somewhere_in_history=%s" % any(v[k]["bound"] is False for v in sess["pre"] for k in cp.KEYS)] += 1
    ctx.dist[f"route:save_raw_data={raw_eff}" + (":dataset_auto_reloaded_from_file" if (not raw_eff and cfg.get("auto")) else "")] += 1
    ctx.dist[f"clone_path:{clone_path}"] += 1
    ctx.dist[f"state_gap:{gap}"] += 1
    if total > 0:
        ctx.mark(cfg_sig(cfg, split, pinned))
    ctx.sample({"cfg": cfg, "split": split, "pinned": bool(pinned)}, limit=4)
    obs_U = cp.observe(U)
    sfx = ("+state-gap" if gap else "") + ("+dataset-auto-reload" if (not raw_eff and cfg.get("auto")) else "")
    # non-degeneracy of the continuation: does it change what is compared?
    moved = cp.compare(obs_U, obs_B0)
    for k in ("obj", "probe", "iter_losses", "iter_lrs"):
        ctx.dist[f"continuation_changes:{k}={moved[k] != 0.0}"] += 1
    import numpy as np
    ctx.dist[f"positions_learned={bool(np.abs((B.dset.scan_positions_px - B.dset.initial_scan_positions_px).detach().numpy()).max() > 0)}"] += 1

    # --- predicate 1: the reloaded / cloned object reports what the saved one reports (exact)
    ctx.dist[f"continue_order:{order}"] += 1
    for name, names_shared in shared.items():
        if names_shared:
            ctx.pred_fail(f"{name.split(' ')[0]}-shares-state", f"the object returned by {name} holds training-state objects of its source (is-identity): "
                          "continuing one changes the other", case, observed=names_shared[:12], required="no shared Parameter / optimizer / scheduler / model object")
    for name, o in (("reload", obs_R0), ("clone", obs_C0)):
        dev = cp.compare(o, obs_B0)
        bad = {k: _js(v) for k, v in dev.items() if v != 0.0 and k != "snapshots"}
        if bad:
            ctx.pred_fail(f"{name}-reports-differently", f"right after {name} the object does not report the saved state", case,
                          observed={"differs": bad, "got": cp.summary(o)}, required=cp.summary(obs_B0))
    # saving must not change what the saved object itself reports
    dev = cp.compare(obs_B, obs_B0)
    if any(v != 0.0 for v in dev.values()):
        ctx.pred_fail("save-changes-source", "save()/clone() changed what the saved object reports", case,
                      observed={k: _js(v) for k, v in dev.items() if v != 0.0}, required="unchanged")

    # --- predicate 2: resume equivalence
    judged_float = True
    if not pinned:
        # conditioning of the case: what the batch order alone does to the *uninterrupted* run (two other orders).
        # Where that already approaches the tolerance (Adam's normalisation amplifies rounding noise, large LRs,
        # cyclic schedules) the floating-point observables of this stream are not judged — the pinned stream
        # judges the same case deterministically.
        floor = 0.0
        for alt in (4242, 777):
            Ualt = cp.run_calls(cp.build(cfg), pre)
            cp.run_calls(Ualt, post, alt)
            d = cp.compare(cp.observe(Ualt), obs_U)
            floor = max(floor, d["iter_losses"], d["obj"], d["probe"], d["iter_lrs"])
        ctx.stat_max("resume-natural:batch_order_noise_floor", floor if floor != float("inf") else 1.0)
        judged_float = floor <= NATURAL_COND
        ctx.dist[f"natural:float_observables_judged={judged_float}"] += 1
    for name, X in (("reload", R), ("clone", C), ("source", B)):
        o = cp.observe(X)
        dev = cp.compare(o, obs_U)
        dev.pop("snapshots_exact")      # digests of float arrays: exact comparison belongs to the reports predicate
        for k in OBSERVABLES:
            if dev[k] == dev[k] and dev[k] != float("inf") and judged_float:
                ctx.stat_max(f"{stream}:{name}:{k}", dev[k])
        if judged_float:
            bad = {k: _js(v) for k, v in dev.items() if not (v <= tol)}
        else:   # discrete part only: iteration count, constraints, LR-history keys and lengths
            bad = {k: _js(v) for k, v in dev.items() if v == float("inf") or (k in ("num_iters", "constraints", "snapshots") and v != 0.0)}
        if bad:
            ctx.pred_fail(f"{name}-continue-differs{sfx}",
                          f"continuing after {name} differs from the uninterrupted run beyond {tol:g} (relative)", case,
                          observed={"differs": bad, "got": cp.summary(o), "optimizer_state_at_save": _views_json(views_B),
                                    **({"call_outcomes": logs} if cfg.get("session") else {})},
                          required=cp.summary(obs_U))

    # --- correspondence with the Lean model on the recorded event trace
    if drv is not None:
        trace_correspondence(ctx, drv, cp, case, tr, B, R, C, n_pre_events, views_B, views_B_after_save, views_R, views_C,
                             views_R_end, names_before, names_after, clone_path, cfg_eff, sess, logs)


def _js(v):
    """deviation as strict JSON (inf = a discrete observable differs / shapes differ)"""
    return "different" if v == float("inf") or v != v else v


def _views_json(views):
    return {k: (None if v is None else {"n": v["n"], "state": [[i, s] for i, _, s in v["state"]], "lr": v["lr"]}) for k, v in views.items()}


# ---------------------------------------------------------------------------------------
# event trace → Lean model

def trace_correspondence(ctx, drv, cp, case, tr, B, R, C, n_pre, views_B, views_B_saved, views_R, views_C, views_R_end,
                         names_before, names_after, clone_path, cfg, sess=None, logs=None):
    evs_B = tr.of(B)
    evs_R = tr.of(R)
    evs_C = tr.of(C)
    # (a) every reconnect call: model's re-keying vs the real optimizer state after the call
    reqs, metas = [], []
    for who, evs in (("saved", evs_B), ("reload", evs_R), ("clone", evs_C)):
        for e in evs:
            if e["ev"] != "reconnect":
                continue
            reqs.append({"op": "reconnect", "cur": e["cur"], "old_params": e["old_params"], "state": e["before"]})
            metas.append((who, e))
    for (who, e), ans in zip(metas, drv.ask_many(reqs) if reqs else []):
        ctx.count()
        ctx.dist["trace:reconnect"] += 1
        if "err" in ans:
            raise HarnessError(f"driver: {ans}")
        ok = ans["ok"]
        ctx.dist[f"trace:reconnect:prefix_hyp={ok['prefix']}"] += 1
        ctx.dist[f"trace:reconnect:identity_hyp={ok['identity']}"] += 1
        impl = {"state": e["after"], "group": e.get("group_after"), "lr_kept": e.get("lr_kept"), "sched_bound": e.get("sched_bound")}
        model = {"state": ok["state"], "group": ok["params"], "lr_kept": True, "sched_bound": True}
        if impl != model:
            ctx.disagree("trace-reconnect", dict(case, who=who, event={k: v for k, v in e.items() if k != "obj"}), model, impl,
                         "optimizer state after reconnect_optimizer_to_parameters differs from Model.Checkpoint.reconnect")
        if ok["identity"] and ok["state"] != e["before"]:
            raise HarnessError("model: reconnect_preserves violated on a concrete instance")
        if not ok["prefix"]:
            ctx.dist["trace:reconnect:positional_would_misalign"] += int(ok["positional"] != ok["state"])
    # (b) LR bookkeeping: replay the _record_iter / reset events of the saved object then of the reloaded one
    for who, first, second in (("reload", evs_B[:0] + [e for e in tr.events[:n_pre] if e["obj"] == id(B)], evs_R), ("clone", None, evs_C)):
        if first is None:
            first = [e for e in tr.events[:n_pre] if e["obj"] == id(B)]
        ops, checks = [], []
        for e in first + second:
            if e["ev"] == "record":
                ops.append({"k": "record", "opts": e["opts"], "loss": e["loss"]})
                checks.append(e)
            elif e["ev"] == "reset":
                ops.append({"k": "reset"})
                checks.append(None)
        if not ops:
            continue
        ans = drv.ask({"op": "book", "ops": ops})
        if "err" in ans:
            raise HarnessError(f"driver: {ans}")
        ctx.count()
        ctx.dist["trace:book"] += 1
        ctx.dist[f"trace:book:len={len(ops)}"] += 1
        for st, e in zip(ans["ok"]["steps"], checks):
            if e is None:
                continue
            model = {"lrs": {k: v for k, v in st["lrs"]}, "nloss": st["nloss"]}
            impl = {"lrs": {k: v for k, v in sorted(e["lrs"].items())}, "nloss": e["nloss"]}
            if model != impl:
                ctx.disagree("trace-record-iter", dict(case, who=who), model, impl,
                             "LR history after _record_iter differs from Model.Checkpoint.recordIter (replayed across the reload)")
                break
            if not st["inv"]:
                raise HarnessError("model: record_iter_inv violated on a concrete instance")
    # (c) symbolic iteration machine: which parameter has state, in which order, after how many steps
    for who, X, views_mid, views_end in (("reload", R, views_R, views_R_end),) if not cfg.get("session") else ():
        steps_pre = [e for e in tr.events[:n_pre] if e["obj"] == id(B) and e["ev"] in ("step", "reset")]
        steps_post = [e for e in tr.of(X) if e["ev"] in ("step", "reset")]
        # optimizers are re-created by every reconstruct(optimizer_params=…): start the machine at the last such call
        pre_calls, post_calls = cp.split_program(cfg["calls"], case["split"][0], case["split"][1])
        last_opt = max(i for i, c in enumerate(pre_calls) if c.get("opt") is not None)
        skip_iters = sum(c["n"] for c in pre_calls[:last_opt])
        step_evs = [e for e in steps_pre if e["ev"] == "step"][skip_iters:]
        if any(c.get("opt") is not None for c in post_calls):
            continue   # optimizers re-created after the checkpoint: the machine would restart there
        sizes = {k: v["n"] for k, v in views_B.items() if v is not None}
        req = {"op": "symiter", "sizes": [[k, n] for k, n in sorted(sizes.items())],
               "pre": [[[k, m] for k, m in sorted(e["grads"].items()) if k in sizes] for e in step_evs],
               "post": [[[k, m] for k, m in sorted(e["grads"].items()) if k in sizes] for e in steps_post if e["ev"] == "step"]}
        ans = drv.ask(req)
        if "err" in ans:
            raise HarnessError(f"driver: {ans}")
        ctx.count()
        ctx.dist["trace:symiter"] += 1

        def shape(views):
            out = {}
            for k, v in sorted(views.items()):
                if v is None or k not in sizes:
                    continue
                steps = [s for _, _, s in v["state"]]
                out[k] = {"keys": [i for i, _, _ in v["state"]], "steps": steps if all(s is not None for s in steps) else None}
            return out

        def mshape(ms, ref):
            out = {}
            for k, keys, steps in ms:
                out[k] = {"keys": keys, "steps": steps if (k in ref and ref[k]["steps"] is not None) else None}
            return out
        for tag, real, mod in (("at-save", shape(views_B), ans["ok"]["mid"]), ("after-reload", shape(views_mid), ans["ok"]["reloaded"]),
                               ("end", shape(views_end), ans["ok"]["end"])):
            # SGD without momentum keeps no state at all: the machine's keys are compared only for stateful optimizers
            real2 = {k: v for k, v in real.items() if v["keys"] or not _stateless(cfg, k)}
            mod2 = {k: v for k, v in mshape(mod, real).items() if k in real2}
            if real2 != mod2:
                ctx.disagree("trace-symbolic-iter", dict(case, who=who, at=tag), mod2, real2,
                             "optimizer-state keys/order/step counts differ from the abstract iteration machine")
                break
        if not ans["ok"]["resume_eq"]:
            raise HarnessError("model: resume_eq violated on a concrete instance")
    # (f) growth 6 — the live-gradient model (Model/CheckpointLive.lean): every zero_grad_all() of the saved and of the reloaded
    # object, with the .grad presence masks before it, and the masks right before the following step_optimizers()
    for who, evs in (("saved", evs_B), ("reload", evs_R)):
        pairs, last_zero = [], None
        for e in evs:
            if e["ev"] == "zero":
                last_zero = e
            elif e["ev"] == "step" and last_zero is not None and "all_grads" in e:
                pairs.append((last_zero, e))
                last_zero = None
        if len(pairs) > 3:
            pairs = pairs[:2] + pairs[-1:]
        reqs = [{"op": "live", "models": [[k, z["has"][k], z["before"][k], s_["all_grads"][k]] for k in cp.KEYS]} for z, s_ in pairs]
        for (z, s_), ans in zip(pairs, drv.ask_many(reqs) if reqs else []):
            if "err" in ans:
                raise HarnessError(f"driver: {ans}")
            ctx.count()
            ctx.dist["trace:live"] += 1
            stale = any(z["before"][k][i] and not z["has"][k] for k in cp.KEYS for i in range(len(z["before"][k])))
            ctx.dist[f"trace:live:stale_grad_on_a_model_without_optimizer={stale}"] += 1
            model = {"zeroed": {k: m for k, m in ans["ok"]["zeroed"]}, "after": {k: m for k, m in ans["ok"]["after"]}}
            impl = {"zeroed": z["after"], "after": s_["all_grads"]}
            if model != impl:
                ctx.disagree("trace-live", dict(case, who=who, zero_event={k: v for k, v in z.items() if k != "obj"}), model, impl,
                             ".grad presence after zero_grad_all() / before step_optimizers() differs from Model.CheckpointLive (zeroGradAll / backwardAcc)")
                break
            if not ans["ok"]["live_eq_iter"]:
                raise HarnessError("model: liveIter_fst violated on a concrete instance")
    # (e) session histories: the call-level model
    if cfg.get("session") and sess is not None:
        pre_calls, post_calls = cp.split_program(cfg["calls"], case["split"][0], case["split"][1])
        session_correspondence(ctx, drv, cp, case, B, pre_calls, post_calls, sess, logs)
    # (d) attribute projection of save: names loaded = names saved minus the skip list
    skip = [] if cfg["raw"] else ["_dset", "dset"]
    ans = drv.ask({"op": "project", "names": names_before + ([] if cfg["raw"] else ["_dataset_metadata"]), "skip": skip})
    if "err" in ans:
        raise HarnessError(f"driver: {ans}")
    ctx.count()
    ctx.dist["trace:project"] += 1
    expect = sorted(ans["ok"] + ([] if cfg["raw"] else ["_dset"]))   # from_file re-attaches the dataset it is given
    if expect != names_after:
        ctx.disagree("trace-projection", case, expect, names_after, "attribute names after from_file differ from the skip-list projection")


OPT_KWARGS = {"type", "lr", "momentum", "weight_decay", "betas"}
SCHED_TYPES = ["cyclic", "plateau", "exp", "gamma", "linear", "none"]


def abstract_call(cp, p, c):
    """the abstract description of one real reconstruct() call that Model/CheckpointSession.lean executes: which
    argument is well-formed, in the order the dicts are given.  The classification reads only the call's arguments
    and the constraint-key tables of the real model classes."""
    b = c.get("batch") if "batch" in c else None
    try:
        batch_ok = b is None or int(round(b)) > 0
    except (TypeError, ValueError):
        batch_ok = False
    cons = []
    for cat, d in (c.get("cons") or {}).items():
        keys = set(cp.model_of(p, cat).DEFAULT_CONSTRAINTS) if cat in cp.KEYS else set()
        cons.append([cat, [[k, k in keys] for k in d]])
    opt = None
    if c.get("opt_list") is not None:
        opt = [[k, "ok"] for k in c["opt_list"]]
    elif c.get("opt") is not None:
        opt = []
        for k, v in c["opt"].items():
            t = v.get("type", "adam")
            if t == "none":
                kind = "none"
            elif t.startswith("class:") or t.lower() in ("adam", "adamw", "sgd"):
                kind = "ok" if set(v) <= OPT_KWARGS else "badkw"
            else:
                kind = "unknown"
            opt.append([k, kind])
    sched = None
    if c.get("sched") is not None:
        sched = []
        for k, v in c["sched"].items():
            if not v:
                kind = "empty"
            elif "type" not in v:
                kind = "notype"
            elif v["type"].lower() in SCHED_TYPES:
                kind = "none" if v["type"].lower() == "none" else "ok"
            else:
                kind = "unknown"
            sched.append([k, kind])
    lt = c.get("loss_type")
    loss_ok = (not lt) or ("amplitude" in lt) or ("intensity" in lt) or lt == "poisson"
    return {"batchOk": bool(batch_ok), "reset": bool(c.get("reset")), "cons": cons, "opt": opt, "sched": sched, "lossOk": bool(loss_ok),
            "n": int(c["n"])}


def session_correspondence(ctx, drv, cp, case, B, pre, post, sess, logs):
    """the call-level model (Model/CheckpointSession.lean: reconstruct's argument processing with every branch that
    raises part-way, reset_recon, set_optimizer / set_scheduler / remove_optimizer, the iteration count and LR-history
    lengths) against the real session: after EVERY call of the history — the saved object before the checkpoint, the
    RELOADED object after it (theorem resume_eq_history_checkpoint: the model carries on from the same state) —
    raised or not, which models have an optimizer / scheduler / stored configuration, whether each optimizer is bound
    to the live parameters, which parameters are new tensor objects, iteration count, LR-history keys/lengths"""
    calls = pre + post
    views = sess["pre"] + sess["post"]
    outcomes = logs["source"][:len(pre)] + logs["reload"]
    if len(views) != len(calls):
        raise HarnessError("session views out of step with the calls")
    # which parameters reset() re-creates as new tensors: the object and the probe array (`nn.Parameter(initial.clone())`);
    # probe tilt, scan positions and descan shifts are written in place (`self._x.data = initial`)
    sizes = {k: len(cp.opt_params(cp.model_of(B, k))) for k in cp.KEYS}
    keep = {"object": [False] * sizes["object"], "probe": [True] * (sizes["probe"] - 1) + [False], "dataset": [True] * sizes["dataset"]}
    req = {"op": "session", "keep": [[k, keep[k]] for k in cp.KEYS], "calls": [abstract_call(cp, B, c) for c in calls]}
    ans = drv.ask(req)
    if "err" in ans:
        raise HarnessError(f"driver: {ans}")
    ctx.count()
    ctx.dist["trace:session"] += 1
    prev = {k: list(range(n)) for k, n in sizes.items()}
    for i, (c, st, view, out) in enumerate(zip(calls, ans["ok"]["steps"], views, outcomes)):
        ctx.dist["trace:session:calls"] += 1
        ctx.dist[f"trace:session:raised={st['raised']}"] += 1
        model = {"raised": st["raised"], "num_iters": st["num_iters"], "lrs": {k: n for k, n in st["lrs"]}}
        impl = {"raised": out is not None, "num_iters": view["num_iters"], "lrs": dict(view["lrs"])}
        for m in st["models"]:
            k = m["key"]
            # across the checkpoint every tensor is a new object in the real session; the model keeps identities
            at_reload = (i == len(pre))
            model[k] = {"opt": m["opt"], "sched": m["sched"], "bound": m["bound"], "cfg": m["cfg"], "scfg": m["scfg"]}
            impl[k] = {x: view[k][x] for x in ("opt", "sched", "bound", "cfg", "scfg")}
            # (which parameters reset() re-creates as new tensor objects is an implementation detail as long as every
            # optimizer ends up bound to the live ones: it is recorded in the evidence, not compared)
            if not at_reload and view[k]["kept"] is not None:
                ctx.dist[f"trace:session:reset_keeps_tensor_identity:{k}={[i in set(prev[k]) for i in m['ids']] == view[k]['kept']}"] += int(bool(c.get("reset")))
            if view[k]["sched_bound"] is False:
                impl[k]["sched"] = "bound-to-a-discarded-optimizer"
            prev[k] = m["ids"]
        if not st["inv"]:
            raise HarnessError("model: record_iter_inv violated on a concrete session")
        if model != impl:
            ctx.disagree("trace-session", dict(case, at_call=i, call=c), model, impl,
                         "session state after a reconstruct() call differs from Model.Checkpoint.exec")
            break


def _stateless(cfg, key):
    """the optimizer of `key` keeps no per-parameter state (plain SGD)"""
    last = None
    for c in cfg["calls"]:
        if c.get("opt") and key in c["opt"]:
            last = c["opt"][key]
    from .c05_problem import num_of
    return last is not None and last.get("type") == "sgd" and not num_of(last.get("momentum"))


# ---------------------------------------------------------------------------------------
# direct histories for reconnect_optimizer_to_parameters (branches real CPU runs never reach)

def reconnect_direct(ctx, drv, cp):
    """On CPU `nn.Module.to` keeps the Parameter objects, so the runs above only ever exercise the
    'same tensor' branch.  Here the real method is driven through the other branches on real models:
    parameters replaced by new tensors (state must follow the position in the previous param group),
    parameter list shrunk after the optimizer was built (entries beyond it are dropped / merged),
    every subset of parameters carrying state.  Pure correspondence (stream trace-reconnect)."""
    import torch
    cfg = {"scan": [2, 3], "roi": [8, 8], "seed": 0, "rng_seed": 5, "num_probes": 1, "obj_type": "complex", "num_slices": 1,
           "learn_tilt": True, "store": "zip", "raw": True, "calls": []}
    names = {"probe": ["_probe_tilt", "_probe"], "dataset": ["_descan_shifts", "_scan_positions_px"]}
    for which in ("probe", "dataset"):
        for state_mask in range(4):
            for fresh_mask in range(4):
                for shrink in (False, True):
                    p = cp.build(cfg)
                    cp.run_calls(p, [{"n": 0, "opt": {which: {"type": "adam", "lr": 0.01}}, "reset": True}])
                    m = cp.model_of(p, which)
                    o = m.optimizer
                    params = cp.opt_params(m)
                    if len(params) != 2:
                        raise HarnessError("reconnect_direct expects two optimizable parameters")
                    for i in (1, 0):       # insertion order of the state dict: parameter 1 first
                        if state_mask >> i & 1:
                            o.state[params[i]] = {"step": torch.tensor(float(3 + i)), "exp_avg": torch.full_like(params[i], 0.5 + i)}
                    for i in range(2):
                        if fresh_mask >> i & 1:
                            setattr(m, names[which][i], torch.nn.Parameter(params[i].detach().clone(), requires_grad=True))
                    if shrink:
                        if which == "probe":
                            m.learn_probe_tilt = False
                        else:
                            m.learn_descan = False
                    with cp.Trace() as tr:
                        m.to("cpu")
                    evs = [e for e in tr.events if e["ev"] == "reconnect"]
                    if len(evs) != 1:
                        raise HarnessError(f"expected one reconnect event, got {len(evs)}")
                    e = evs[0]
                    ans = drv.ask({"op": "reconnect", "cur": e["cur"], "old_params": e["old_params"], "state": e["before"]})
                    if "err" in ans:
                        raise HarnessError(f"driver: {ans}")
                    ok = ans["ok"]
                    ctx.count()
                    ctx.dist["trace:reconnect-direct"] += 1
                    ctx.dist[f"trace:reconnect-direct:identity_hyp={ok['identity']}"] += 1
                    case = {"direct": {"model": which, "state_mask": state_mask, "fresh_mask": fresh_mask, "shrink": shrink}}
                    ctx.mark(("reconnect-direct", which, state_mask, fresh_mask, shrink))
                    impl = {"state": e["after"], "group": e.get("group_after")}
                    model = {"state": ok["state"], "group": ok["params"]}
                    if impl != model:
                        ctx.disagree("trace-reconnect", dict(case, event={k: v for k, v in e.items() if k != "obj"}), model, impl,
                                     "optimizer state after reconnect_optimizer_to_parameters (direct history) differs from Model.Checkpoint.reconnect")


# ---------------------------------------------------------------------------------------
# checkpoint written over an older checkpoint of the same path

def gen_resave(rng, store):
    base = {"scan": rng.choice([[3, 3], [2, 3]]), "roi": [8, 8], "seed": rng.below(4), "rng_seed": 3 + rng.below(5), "num_probes": 1,
            "obj_type": rng.choice(["complex", "pure_phase"]), "num_slices": 1, "learn_tilt": False, "store": store, "raw": True, "calls": []}
    t = rng.choice(["adam", "adamw", "sgd"])
    full = {"object": gen_opt(rng, t), "probe": gen_opt(rng, t), "dataset": {"type": "adam", "lr": rng.choice([0.01, 0.05])}}
    dropped = rng.choice(["dataset", "probe", "dataset"])
    smaller = {k: (dict(v) if k != dropped else {"type": "none"}) for k, v in full.items()}
    return {"cfg": base, "resave": {"first": {"n": rng.randint(2, 3), "opt": full, "reset": True, "snap": 1},
                                    "second": {"n": rng.randint(0, 2), "opt": smaller, "reset": True, "snap": rng.choice([1, 2])},
                                    "post": {"n": rng.randint(1, 2)}, "dropped": dropped}}


def resave_case(ctx, case, scratch):
    """run A is checkpointed to PATH; the reconstruction is restarted (reset=True) with a smaller optimizer set
    (fewer LR histories, fewer snapshots), interrupted and checkpointed to the same PATH with mode='o'.
    Reloading PATH must report exactly what was saved and resume like the uninterrupted run."""
    import contextlib
    import io
    import shutil
    import warnings
    from . import c05_problem as cp
    from quantem.diffractive_imaging.ptychography import Ptychography
    cfg, rs = case["cfg"], case["resave"]
    store = cfg["store"]
    path = os.path.join(scratch, "c05_resave" + (".zip" if store == "zip" else ""))

    def wipe():
        if os.path.isdir(path):
            shutil.rmtree(path)
        elif os.path.exists(path):
            os.remove(path)
    wipe()
    ctx.count()
    ctx.dist["stream:resave"] += 1
    ctx.dist[f"resave:store={store}:dropped={rs['dropped']}"] += 1
    pin = 2024
    try:
        U = cp.run_calls(cp.build(cfg), [rs["first"], rs["second"]])
        cp.run_calls(U, [rs["post"]], pin)
        B = cp.run_calls(cp.build(cfg), [rs["first"]])
        with warnings.catch_warnings(), contextlib.redirect_stdout(io.StringIO()):
            warnings.simplefilter("ignore")
            B.save(path, mode="o", store=store, save_raw_data=True, verbose=0)
            cp.run_calls(B, [rs["second"]])
            B.save(path, mode="o", store=store, save_raw_data=True, verbose=0)
            obs_B = cp.observe(B)
            R = Ptychography.from_file(path)
        obs_R0 = cp.observe(R)
        raw_lrs = {k: len(v) for k, v in R._iter_lrs.items()}
        cp.run_calls(R, [rs["post"]], pin)
        obs_R = cp.observe(R)
    except Exception:
        import traceback
        ctx.pred_fail("resave-raises", "re-saving over an existing checkpoint / reloading / continuing raised", case,
                      observed=traceback.format_exc()[-1500:], required="no exception")
        return
    finally:
        wipe()
    ctx.mark(("resave", store, rs["dropped"], rs["first"]["n"], rs["second"]["n"], rs["second"]["snap"]))
    dev = cp.compare(obs_R0, obs_B)
    bad = {k: _js(v) for k, v in dev.items() if v != 0.0 and k != "snapshots"}
    if bad:
        ctx.pred_fail(f"resave-reports-differently:{store}", "a checkpoint written with mode='o' over an older checkpoint of the same path "
                      "does not reload as what was saved", case,
                      observed={"differs": bad, "got": cp.summary(obs_R0), "lr_history_lengths": raw_lrs}, required=cp.summary(obs_B))
    dev = cp.compare(obs_R, cp.observe(U))
    dev.pop("snapshots_exact")
    for k in OBSERVABLES:
        if dev[k] != float("inf"):
            ctx.stat_max(f"resave:reload:{k}", dev[k])
    bad = {k: _js(v) for k, v in dev.items() if not (v <= TOL_PINNED)}
    if bad:
        ctx.pred_fail(f"resave-continue-differs:{store}", "continuing after reloading a re-saved checkpoint differs from the uninterrupted run", case,
                      observed={"differs": bad, "got": cp.summary(obs_R)}, required=cp.summary(cp.observe(U)))


# ---------------------------------------------------------------------------------------

FORCED = [
    {"opt": "adam", "sched": "none", "keys": ["object", "probe"], "shape": "single", "n": 3, "store": "zip", "obj_type": "complex"},
    {"opt": "sgd", "sched": "exp", "keys": ["object", "probe"], "shape": "single", "n": 3, "store": "dir", "obj_type": "potential"},
    {"opt": "adamw", "sched": "plateau", "keys": ["object", "probe", "dataset"], "shape": "single", "n": 4, "store": "zip", "num_probes": 2},
    {"opt": "adam", "sched": "cyclic", "keys": ["object", "probe", "dataset"], "shape": "history", "store": "dir", "obj_type": "pure_phase"},
    {"opt": "adam", "sched": "none", "keys": ["object", "probe"], "shape": "single", "n": 3, "learn_tilt": True, "num_slices": 1},
    {"opt": "adam", "sched": "linear", "keys": ["object", "probe", "dataset"], "shape": "single", "n": 3, "descan_const": True},
    {"opt": "sgd", "sched": "none", "keys": ["object", "probe"], "shape": "single", "n": 2, "learn_tilt": True, "num_slices": 2},
    {"opt": "adam", "sched": "plateau", "keys": ["object"], "shape": "single", "n": 3, "raw": False, "auto": False},
    {"opt": "sgd", "sched": "none", "keys": ["object", "dataset"], "shape": "ds-removed", "raw": False, "learn_tilt": False, "auto": False},
    {"opt": "adam", "sched": "exp", "keys": ["object", "probe", "dataset"], "shape": "ds-removed", "raw": False, "learn_tilt": False, "auto": True},
    {"opt": "adamw", "sched": "none", "keys": ["object", "probe"], "shape": "single", "n": 3, "raw": False, "auto": True},
    # a learning rate given as an integer / NumPy scalar / 0-d array, with a scheduler that changes it:
    # the recorded LR history mixes kinds (int first, floats afterwards)
    {"opt": "sgd", "sched": "exp", "keys": ["object", "probe"], "shape": "single", "n": 4, "lr_kind": "int", "store": "zip"},
    {"opt": "adam", "sched": "linear", "keys": ["object", "probe"], "shape": "single", "n": 3, "lr_kind": "i64", "store": "dir"},
    {"opt": "adamw", "sched": "cyclic", "keys": ["object"], "shape": "single", "n": 3, "lr_kind": "arr0"},
    {"opt": "sgd", "sched": "plateau", "keys": ["object", "probe"], "shape": "history", "lr_kind": "f32"},
]


def run(ctx):
    import torch
    from qv.driver import Driver
    torch.set_num_threads(1)     # tiny tensors: one thread is ~40x faster than four on a loaded machine (no OpenMP barriers), and deterministic
    scratch = os.environ.get("QVERIF_SCRATCH") or tempfile.mkdtemp(prefix="c05_")
    old_tmp = tempfile.tempdir
    tempfile.tempdir = scratch          # Ptychography.clone() stages its fallback file in tempfile.gettempdir()
    drv = None if os.environ.get("C05_NO_DRIVER") else Driver("C05")
    rng = ctx.rng.fork(5)
    n_cfg = ctx.n(34, 150)
    budget = 140.0 if not ctx.thorough() else 1050.0
    if ctx.search_mode:
        budget *= 2
    t0 = time.time()
    only = None     # development aid: C05_ONLY="3,8" runs only these configuration indexes (same random stream)
    if os.environ.get("C05_ONLY"):
        only = {int(x) for x in os.environ["C05_ONLY"].split(",")}
    try:
        if drv is not None and only is None:
            from . import c05_problem as cp0
            reconnect_direct(ctx, drv, cp0)
        if only is None:
            rrng = ctx.rng.fork(9)
            for j in range(ctx.n(4, 16)):
                resave_case(ctx, gen_resave(rrng.fork(j), ["dir", "zip"][j % 2]), scratch)
        # session histories (rejected calls, staged optimisation): pinned stream, every call of the history a split point
        if only is None or os.environ.get("C05_SESSION"):
            srng = ctx.rng.fork(11)
            sess_budget = (45.0 if not ctx.thorough() else 300.0) * (2 if ctx.search_mode else 1)
            only_s = {int(x) for x in os.environ["C05_SESSION"].split(",")} if os.environ.get("C05_SESSION") else None
            for i in range(ctx.n(10, 60)):
                cfg = gen_session(srng.fork(i), i, SESSION_FORCED[i] if i < len(SESSION_FORCED) else None)
                if only_s is not None and i not in only_s:
                    continue
                ctx.dist["cfg:session"] += 1
                ctx.dist[f"cfg:session:calls={len(cfg['calls'])}"] += 1
                for c in cfg["calls"]:
                    ctx.dist["session:call:" + (("bad:" + c["bad"]) if c.get("bad") else "reset" if c.get("reset") else
                                                 "configure" if (c.get("opt") or c.get("opt_list") or c.get("sched")) else "continue")] += 1
                for sp in session_splits(cfg, ctx.thorough()):
                    run_case(ctx, drv, cfg, sp, True, scratch)
                # (the time guard only limits the RANDOM histories: the fixed session blocks run on every machine load)
                if i + 1 >= len(SESSION_FORCED) and time.time() - t0 > sess_budget + 15.0:
                    ctx.dist["session_stopped_on_time_budget_after_cfgs"] = i + 1
                    break
        # clone()'s in-memory path: copy.deepcopy(self) only succeeds for a dataset built with learn_scan_positions=False
        # (otherwise the dataset holds a non-leaf tensor and clone() takes the save / from_file fallback).  Fixed block,
        # the same class for every seed, every split point.
        if only is None:
            crng = ctx.rng.fork(13)
            for j in range(ctx.n(2, 6)):
                cfg = gen_cfg(crng.fork(j), j, {"learn_positions": False, "learn_descan": j % 2 == 0, "shape": "single", "n": 2 + j % 2,
                                                "keys": ["object", "probe"], "raw": True, "opt": OPT_TYPES[j % 3]})
                ctx.dist["cfg:clone-in-memory-block"] += 1
                for sp in splits_of(cfg):
                    run_case(ctx, drv, cfg, sp, True, scratch)
        # growth 6: fixed blocks for the size / orientation / two-objects-alive classes (c05_g6.py), every seed, no time guard
        if only is None or os.environ.get("C05_G6"):
            from . import c05_g6
            tg = time.time()
            for name, cfg, sps in c05_g6.fixed_cases():
                ctx.dist["cfg:g6:" + name] += 1
                for sp in sps:
                    run_case(ctx, drv, cfg, sp, True, scratch)
            for name, cfg in c05_g6.double_cases():
                c05_g6.double_case(ctx, cfg, scratch, TOL_PINNED, OBSERVABLES)
            ctx.extra["g6_fixed_block_seconds"] = round(time.time() - tg, 1)
        for i in range(n_cfg):
            force = FORCED[i] if i < len(FORCED) else None
            cfg = gen_cfg(rng.fork(100 + i), i, force)
            splits = splits_of(cfg)
            ctx.dist[f"cfg:calls={len(cfg['calls'])}"] += 1
            ctx.dist[f"cfg:store={cfg['store']}"] += 1
            ctx.dist[f"cfg:raw={cfg['raw']}"] += 1
            ctx.dist[f"cfg:obj_type={cfg['obj_type']}"] += 1
            ctx.dist[f"cfg:probes={cfg['num_probes']}"] += 1
            ctx.dist[f"cfg:slices={cfg['num_slices']}"] += 1
            ctx.dist[f"cfg:learn_tilt={cfg['learn_tilt']}"] += 1
            for c in cfg["calls"]:
                for k, v in (c.get("opt") or {}).items():
                    ctx.dist[f"opt:{k}:{v.get('type')}"] += 1
                    for hp in ("lr", "momentum", "weight_decay"):
                        if hp in v:
                            ctx.dist[f"numkind:{hp}:{v[hp]['kind'] if isinstance(v[hp], dict) else 'plain-float'}"] += 1
                for k, v in (c.get("sched") or {}).items():
                    ctx.dist[f"sched:{k}:{v.get('type')}"] += 1
            natural_split = splits[rng.below(len(splits))]
            if only is not None and i not in only:
                continue
            if not ctx.thorough() and force is None and len(splits) > 4:
                # quick tier, random configurations: first, after one iteration, last and the natural stream's split
                # (the forced configurations and the thorough tier run every split point)
                splits = [sp for n_, sp in enumerate(splits) if n_ in (0, 1, len(splits) - 1) or sp == natural_split]
            for sp in splits:
                run_case(ctx, drv, cfg, sp, True, scratch)
                # natural stream: every split in the thorough tier; one split per configuration in the quick tier
                # (every second one of the forced configurations, which all run regardless of the time guard)
                if ctx.thorough() or (sp == natural_split and (force is None or i % 2 == 0)):
                    run_case(ctx, drv, cfg, sp, False, scratch)
            # the time guard only limits the RANDOM configurations: the forced ones (fixed input classes, among them the
            # ones that exposed earlier defects and seeded changes) run on every machine load
            if i + 1 >= len(FORCED) and time.time() - t0 > budget:
                ctx.dist["stopped_on_time_budget_after_cfgs"] = i + 1
                break
        ctx.extra["tolerances"] = {"pinned": TOL_PINNED, "natural": TOL_NATURAL, "natural_conditioning_floor": NATURAL_COND}
    finally:
        tempfile.tempdir = old_tmp
        if drv is not None:
            drv.close()


def replay(ctx, rep):
    import torch
    from qv.driver import Driver
    torch.set_num_threads(1)     # tiny tensors: one thread is ~40x faster than four on a loaded machine (no OpenMP barriers), and deterministic
    case = rep.get("case") or {}
    if "cfg" not in case:
        print("replay file carries no case (tie-level failure); re-run ./check C05")
        return True
    scratch = os.environ.get("QVERIF_SCRATCH") or tempfile.mkdtemp(prefix="c05_")
    old_tmp = tempfile.tempdir
    tempfile.tempdir = scratch
    drv = None if os.environ.get("C05_NO_DRIVER") else Driver("C05")
    try:
        if "resave" in case:
            resave_case(ctx, case, scratch)
        elif case.get("double"):
            from . import c05_g6
            c05_g6.double_case(ctx, case["cfg"], scratch, TOL_PINNED, OBSERVABLES)
        elif "direct" in case:
            from . import c05_problem as cp0
            reconnect_direct(ctx, drv, cp0)
        else:
            run_case(ctx, drv, case["cfg"], case["split"], case.get("pinned", True), scratch)
    finally:
        tempfile.tempdir = old_tmp
        if drv is not None:
            drv.close()
    return not ctx.pred_failures and not ctx.disagreements
