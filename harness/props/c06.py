"""C06 — Dataset binning, Fourier resampling, padding and cropping obey conservation laws.

Streams
  hist      short operation histories on ONE dataset object (fourier_resample, in-place / copying pad, bin, crop, array assignment,
            fourier_resample again with the same axes): array values vs the composed model after every step + the resample clauses
            judged against the data the object held before the step (stale per-object state cannot hide)
  exact     integer / Gaussian-integer arrays through the real Dataset.bin / pad / crop vs the Lean model at Rat
            (equality) + the statement's bin / pad∘crop clauses checked with exact Python oracles
  float     random float64/complex128 (some int/float32) arrays through the real fourier_resample vs the Lean model at
            Float (tolerance rule) + mean / centre / extent / linearity / identity / up-down round-trip predicates and an
            independent dense-DFT-matrix oracle
  indexmap  complex exponentials through the real fourier_resample: the populated output FFT bin (discrete observable)
            vs the executable index map `freqMap n m` — every (n, m, k) up to a bound (exhaustive)
  reject    (c06_more.py) exact histories on one object that mix REJECTED calls of all four methods (every rejection reason, in place and
            copying) with valid calls: after a rejected call array and calibration are bit-identical (snapshot + untouched twin), the
            later valid calls satisfy the laws, every state and error kind equals the Lean model's
  forms     (c06_more.py) the public ARGUMENT FORMS and keyword DEFAULTS (axes None/int/float/bool/tuple/list/NumPy ints, reducer letter
            case, bin factors int/bool/NumPy int/list/tuple, out_shape with float entries, factors int/float/tuple/list, positional vs
            keyword passing, omitted keywords, pad modes constant/edge/wrap/reflect/symmetric) vs Model/ResampleArgs.lean
  fixed / session (c06_g6.py) FIXED blocks, identical for every seed: size thresholds and exact multiples, axis order / sign, negative calibration,
            narrow integer extremes, different shapes onto one output shape, repeated calls (see c06_g6.py)
The hist stream also inserts rejected calls between its steps and snapshots every dataset the history leaves behind; float / hist
inputs are drawn over value-structure classes (zero imaginary part in a complex dtype, zero real part, delta, constant, pure Nyquist,
zeros, integer-valued) and complex data is judged for linearity over COMPLEX scalars (i*x included).
"""
import itertools
import warnings
from fractions import Fraction

import numpy as np

from props.c03 import (DTYPES, LAYOUTS, UNITS, apply_layout, gen_layout, arr_json, array_py, axes_list, axes_py, cls_of, dyadic, err_name, fj, fr, gen_array,
                       gen_shape, jf, kind_of, ndinfo_py, num_close, view)
from qv.driver import b2f, f2b

LEVEL = "proof"
EXTRA_PROPS = ["QuantemModel.Props.C06Ext",      # growth round 6: calibration N-D / order independence / kernel form
               "QuantemModel.Props.C06Tie"]      # generated_eq_spec_*: the traced index arithmetic of the current source = the model


def pregenerate():
    """called by the runner before `lake build`: EXECUTE the current Dataset.bin / pad / crop / fourier_resample of
    $QVERIF_REPO on tagged arrays and rewrite lean/QuantemModel/Generated/ResampleTrace.lean (only if the text changes).
    What the tracer cannot follow comes back as a note (the previous file stays); it never crashes the check."""
    from translator import resample2lean
    try:
        resample2lean.regenerate()
    except resample2lean.TranslationError as e:
        return f"resample2lean: {e}"
    return None
MANIFEST_ENTRY = {
    "category": "proof",
    "text": "Lean 4 theorems over an executable model of Dataset.bin/pad/crop/fourier_resample (Model/Resample.lean; generic "
            "element type for the exact ops, numeric carrier for the Fourier path). Binning (N-D, any shape/factors): every "
            "binned element is exactly its block sum, only indices >= f*(n//f) are dropped and every covered pixel is read by "
            "exactly one block, the total over the covered region is preserved (any commutative additive monoid), the "
            "origin/sampling update puts binned pixel j at the mean coordinate of its block. Padding/cropping (N-D): floor/ceil "
            "widths sum to out-n, padded array = original at offset `before` in zeros, and the index expression Dataset.crop "
            "builds from ((before,-after),...) (after=0 -> None) is accepted by the NumPy index normalisation and returns the "
            "original array. Fourier resampling: the index map freqMap n m (fftshift, centred crop/zero-pad, ifftshift run on "
            "bin numbers; the data path provably follows it) preserves signed frequency, is injective, keeps exactly the "
            "in-band bins, keeps DC, is the identity for n=m and is undone by the down-map for m>=n; the calibration update "
            "preserves physical centre and extent; and over the reals (carrier = R, DFT = the defining sums, roots of unity "
            "from Mathlib) the 1-D operator equals the explicit band-limited DFT formula, preserves the mean, is C-linear, is "
            "the identity for unchanged length, up->down returns the original for every complex signal and - with the `.real` "
            "steps of the code - for every real signal without Nyquist content (Hermitian-symmetry proof; real output proved). "
            "All of these are lifted to the N-D operator (a fold of the 1-D operator over the (axis, length) pairs plus the single "
            "N_out/N_in rescale) by induction over the axis list: N-D mean/total, linearity, identity, round trip (complex; and "
            "real arrays with the `.real` steps under a per-stage no-Nyquist condition), and N-D calibration (centre/extent on "
            "every resampled axis, other axes untouched). Mean reducer = block sums / block volume (theorem); padding to a "
            "smaller shape pads nothing. Growth round 5: the REAL-input path of the N-D operator (real part of the inverse transform, "
            "then the rescale) preserves total and mean in every direction (also down-sampling, where the complex result is not real), "
            "is linear over the real scalars and is the identity for unchanged shape; pad in ANY mode (arbitrary fill rule: constant, "
            "edge, wrap, reflect, symmetric ...) followed by crop of the pad widths returns the original array; the factors= entry point "
            "preserves the extent whatever round(n*f) gives; after any history of bin calls on an axis the calibration is that of one "
            "binning by the product of the factors (block-centre coordinates over histories); an argument layer "
            "(Model/ResampleArgs.lean: Python forms of axes / bin_factors / reducer / out_shape / factors, keyword defaults as structure "
            "defaults, pad modes) with theorems that the axes forms agree, that bin(f) is the block sum over all axes returned as a new "
            "dataset, and that over EVERY history of calls (raising or not) the object ends in the state reached by the calls that "
            "returned normally (a raising call is a no-op). "
            "Growth round 6 (Props/C06Ext.lean, Props/C06Tie.lean): the unscaled 1-D operator is a linear map with an explicit kernel that "
            "depends on the two lengths only; two fold steps along different axes commute; the N-D fold and fourier_resample itself (real "
            "or complex path, rescale included) are invariant under every permutation of the (axis, length) pairs, so the N-D round trip "
            "holds with the SAME axes tuple both times (complex, and real under the per-stage no-Nyquist condition); N-D calibration of bin "
            "(every binned axis: sampling times f, pixel j at the mean coordinate of its block, origin / sampling of any sign; other axes "
            "untouched) and order independence of the calibration folds of bin and fourier_resample; Python's round is within 1/2 "
            "(factors= realises the nearest length, integral products exactly). Mechanical tie: harness/translator/resample2lean.py "
            "EXECUTES the current Dataset.bin / pad / crop / fourier_resample on tagged arrays (pixel i = 2^i or i+1, one complex "
            "exponential per bin, exact probe calibrations) before every build and rewrites Generated/ResampleTrace.lean; "
            "generated_eq_spec_bin1/bin2/pad/crop/freq/binMeta/rsMeta prove every traced entry equal to binNd / padNd+padWidths / "
            "sliceIndices / freqMap / binMeta / resampleMeta. "
            "Tied to the code on every run by exact equality (bin/pad/crop on integer data), a Float run of the same definitions "
            "against np.fft (tolerance 1e-9) and an exhaustive discrete index-map stream; histories with rejected calls (every "
            "rejection reason of the four methods; bit-identical state after a rejected call, untouched twin, laws on the later valid "
            "calls) and the public argument forms / defaults / pad modes are compared with the model call by call; the statement's "
            "clauses are evaluated on the real code with exact block / dense-DFT oracles as the failing-input search.",
    "note": "Trusted: Lean kernel + propext/Classical.choice/Quot.sound; np.fft is assumed to compute the defining DFT sums "
            "(exercised by the Float stream); IEEE rounding is measured, not proved; N-D fourier_resample is modelled as a fold "
            "of the 1-D operator over the axes - that np.fft.fftn/ifftn is this separable composition is measured (Float "
            "stream), the N-D laws of the fold are proved, including (round 6) its independence of the order of the axes; the "
            "N-D theorems are for distinct axes; duplicate axes are not generated. That a raising call leaves the object "
            "unchanged is a property of the code's statement order (all writes after the last raise): the model encodes it by returning "
            "either an error or a new state, the reject / forms / hist streams measure it on every run (bit-identical snapshots); the "
            "history theorem is about that model. The dtype (not the values) selects the real or the complex path: measured by the "
            "value-structure classes of the float stream and the dtype-kind comparison with the model. np.pad's own modes are modelled "
            "(padAxisSrc) and compared, not verified. String forms of numeric arguments, non-integral float axes and NumPy scalars as "
            "a bare axes argument are modelled but not generated (behaviour there is incidental). The mechanical tie covers the sizes it "
            "traces (bin n <= 9 and eight 2-D shapes, pad n <= 6, crop len <= 5, freqMap n, m <= 8, calibration f, n, m <= 6); beyond them the "
            "streams decide. A source the tracer cannot follow is reported as a note and the last good translation stays.",
    "technique": "Lean 4 proof (list/array algebra, index-map arithmetic, roots-of-unity sums over C) + model-vs-implementation correspondence",
}
RULE = ("a case is one operation (or one law instance) on one array; distinct non-trivial = distinct (stream, op, ndim, dtype kind, "
        "axes pattern, parity pattern / divisibility pattern, reducer or up/down direction) with at least 2 elements; reject / forms: "
        "distinct (method, valid or rejection reason, in place?, ndim, previous step, dtype kind / set of keywords written); fixed blocks count through the exact / float rules, "
        "a session = distinct (ndim, dtype kind, axes as given, output lengths)")
TRUSTED = ["resample2lean.py (tracer: tags 2^i / i+1, exponentials, probe calibrations -> literal Lean tables; float calibration values are read as rationals with denominator <= 4096)",
           "np.fft.fftn/ifftn compute the defining DFT sums; np.pad / reshape / sum semantics (modelled as gathers and block sums)",
           "np.pad modes edge / wrap / reflect / symmetric as index maps (padAxisSrc), compared on every run",
           "Python exception semantics: a statement that raises has no effect of its own; isinstance / int() / float() / str().lower() on the argument forms generated"]
ASSUMPTIONS = [
    "every array handed to Dataset*.from_array / the array setter is drawn over memory-layout classes as well as dtypes and containers: C-contiguous, Fortran order, fully transposed and permuted views, negative strides (np.flip), step-sliced views of a larger buffer, read-only; the logical values (and therefore the model input) never depend on the layout",
    "calibration reaches the datasets through every route: float lists, Python int tuples and integer ndarrays via Dataset/Dataset2d/3d/4d/4dstem.from_array or via the origin/sampling property setters (35 % integer-typed)",
    "exact stream: integer (or Gaussian-integer) data with |x| <= 9 — and, for 40 % of the bin cases, narrow integer dtypes (uint8/int8/uint16/int16/int32/uint32) with values within 20 % of the dtype extremes, checked against an exact Python-integer block-sum oracle —, dyadic calibration, so every float operation of the code is exact and equality is demanded; mean reducer compared exactly when the block volume is a power of two, else to 1e-12 (float64) / 5e-4 (float32)",
    "float stream: tolerance |impl - model| <= 1e-9 * max(1, max|model|) on float64/complex128 data, 5e-4 on float32/complex64 data; law predicates use 1e-9 (5e-4) relative to max(1, max|x|)",
    "'cropping the pad widths' is read as crop(((before, -after), ...)) — the only reading under which Dataset.crop (start, stop) slices undo a pad; `-0` is why the code maps after == 0 to None",
    "round trip: 'no Nyquist-frequency content' is enforced by projecting out bin n/2 along every resampled even axis; up-sampling means m >= n on every resampled axis",
    "a call that raises (bad reducer / factor / axes, both or neither of out_shape and factors, wrong lengths, negative pad widths ...) is read as 'not an operation': the statement's conservation clauses are judged over the history, so array, origin and sampling must be bit-identical after it (predicate `rejected-call-changed-state`); when a call this harness means to be rejected is accepted, the history ends there and only the model comparison reports it",
    "complex dtypes are drawn with structured values (imaginary part exactly 0 everywhere, real part 0, a single non-zero entry, constant, pure Nyquist, zeros): the path fourier_resample takes must depend on the dtype only; complex data is judged for linearity over complex scalars, real data over real scalars (the code takes the real part)",
    "fixed blocks (c06_g6.py, identical for every VERIF_SEED): bin with axis lengths 1..300 around 127/128/129 and 255/256/257 and factors 1, 2, 3, n//2, n//2+1, n-1, n, n+1, 2n (a factor larger than the axis gives an EMPTY axis: n // f = 0, everything is trailing remainder - the code accepts it and the model agrees), narrow integer dtypes filled with their extreme values, axes in descending / negative order with a different factor per axis on H > W and H < W arrays, origins and samplings of every sign (negative sampling is accepted by Dataset and the statement's coordinate clauses are sign-agnostic); fourier_resample of datasets of different shapes onto one output shape one after the other in one process, every such case twice, lengths up to 300 up and down; sessions: the same call twice, the (axis, parameter) pairs permuted, in place twice vs the copying form, pad in place twice then crop",
    "forms stream: only argument forms the signatures' annotations / docstrings cover are generated as valid (integral floats as axes, NumPy integers inside tuples, list or tuple, any letter case of the reducer); n*f is exact (dyadic factors), ties x.5 included",
]
EXPLANATION = ("Theorems in Props/C06.lean are about Model/Resample.lean (and Core/Dft.lean for the spectral part); every run executes "
               "the same definitions at Rat / Float against the real Dataset methods and compares.")


def tol_for(dtype):
    dt = np.dtype(dtype)
    prec64 = (dt.itemsize // (2 if dt.kind == "c" else 1)) >= 8 or dt.kind in "iu"
    return 1e-9 if prec64 else 5e-4


# ------------------------------------------------------------------------------------------
# exact stream

def gen_calib(rng, ndim):
    return ({"l": [fj(dyadic(rng)) for _ in range(ndim)]}, {"l": [fj(Fraction(rng.randint(1, 16), 4)) for _ in range(ndim)]},
            {"l": [rng.choice(UNITS) for _ in range(ndim)]})


def gen_axes_subset(rng, ndim):
    r = rng.random()
    if r < 0.3:
        return None
    k = rng.randint(1, ndim)
    axes = rng.sample(list(range(ndim)), k)
    if rng.chance(0.6):
        axes = sorted(axes)
    axes = [a - ndim if rng.chance(0.3) else a for a in axes]
    if len(axes) == 1 and rng.chance(0.5):
        return {"one": axes[0]}
    return {"many": axes}


def cal_value(v, route):
    """calibration list -> the Python object handed to the code: float list, Python int tuple or integer ndarray"""
    if route in ("int_tuple", "setter_tuple"):
        return tuple(int(x) for x in v["l"])
    if route in ("int_ndarray", "setter_ndarray"):
        return np.array([int(x) for x in v["l"]], dtype=np.int64)
    return ndinfo_py(v)


def make_ds(new):
    """every constructor / setter route for the calibration: (sub)class.from_array with float lists, Python int tuples or integer
    ndarrays, or defaults followed by the `origin` / `sampling` property setters"""
    cls = cls_of(new["cls"])
    a = array_py(new["array"], new["dtype"])
    route = new.get("route", "float")
    if route.startswith("setter"):
        ds = cls.from_array(a, units=list(new["units"]["l"]))
        ds.origin = cal_value(new["origin"], route)
        ds.sampling = cal_value(new["sampling"], route)
        return ds
    return cls.from_array(a, origin=cal_value(new["origin"], route), sampling=cal_value(new["sampling"], route), units=list(new["units"]["l"]))


NARROW = {"uint8": (0, 255), "int8": (-128, 127), "uint16": (0, 65535), "int16": (-32768, 32767),
          "int32": (-2 ** 31, 2 ** 31 - 1), "uint32": (0, 2 ** 32 - 1)}


def gen_extreme_array(rng, shape, dtype):
    """narrow integer data near the dtype extremes (block sums overflow the *input* dtype; NumPy's default np.sum
    accumulates small integers in the platform integer, which is what the code relies on)"""
    lo, hi = NARROW[dtype]
    span = max(1, (hi - lo) // 5)
    n = int(np.prod(shape))
    mode = rng.below(3)
    vals = []
    for _ in range(n):
        if mode == 0 or lo == 0:
            vals.append(hi - rng.below(span))                # all near the maximum (e.g. uint16 ~ 52000..65535, uint8 ~ 205..255)
        elif mode == 1:
            vals.append(lo + rng.below(span))                # all near the minimum of a signed dtype
        else:
            vals.append(hi - rng.below(span) if rng.chance(0.5) else lo + rng.below(span))
    return np.array(vals, dtype=np.int64).reshape(shape).astype(dtype)


def gen_exact_case(rng):
    ndim = rng.weighted([(1, 3), (2, 4), (3, 3), (4, 2)])
    shape = gen_shape(rng, ndim, cap=400)
    if rng.chance(0.5):
        shape = [max(s, rng.randint(2, 9)) if rng.chance(0.5) else s for s in shape]
        while int(np.prod(shape)) > 500:
            shape[rng.below(ndim)] = 2
    dtype = rng.choice(DTYPES)
    a = gen_array(rng, shape, dtype)
    o, s, u = gen_calib(rng, ndim)
    cls = "Dataset" if rng.chance(0.6) or ndim == 1 else {2: "Dataset2d", 3: "Dataset3d", 4: rng.choice(["Dataset4d", "Dataset4dstem"])}[ndim]
    layout = gen_layout(rng)      # memory layout of the array handed to from_array (C, Fortran, transposed / permuted / flipped / stepped views, read-only)
    new = {"op": "new", "cls": cls, "array": dict(arr_json(a), layout=layout), "dtype": dtype, "origin": o, "sampling": s, "units": u}
    if rng.chance(0.35):     # integer-typed calibration through every constructor / setter route (also on the subclasses' own from_array)
        new["route"] = rng.choice(["int_tuple", "int_ndarray", "setter_tuple", "setter_ndarray"])
        new["origin"] = {"l": [rng.randint(-5, 9) for _ in range(ndim)]}
        new["sampling"] = {"l": [rng.randint(1, 5) for _ in range(ndim)]}
        if ndim in (2, 3, 4) and rng.chance(0.6):
            new["cls"] = {2: "Dataset2d", 3: "Dataset3d", 4: rng.choice(["Dataset4d", "Dataset4dstem"])}[ndim]
    kind = rng.weighted([("bin", 5), ("padcrop", 3), ("pad", 1), ("crop", 1)])
    if kind == "bin" and rng.chance(0.4):
        dtype = rng.choice(sorted(NARROW))
        a = gen_extreme_array(rng, shape, dtype)
        new["array"] = dict(arr_json(a), layout=layout)
        new["dtype"] = dtype
        new["extreme"] = True
    if kind == "bin":
        axes = gen_axes_subset(rng, ndim)
        axl = axes_list(axes, ndim)
        fs = [rng.weighted([(1, 1), (2, 5), (3, 4), (4, 2), (5, 1), (7, 0.5)]) for _ in axl]
        f = {"one": fs[0]} if rng.chance(0.3) else {"many": fs}
        op = {"op": "bin", "f": f, "axes": axes, "mean": rng.chance(0.4), "inplace": rng.chance(0.4)}
    elif kind == "padcrop":
        out = [n + (rng.randint(0, 5) if not rng.chance(0.04) else -1) for n in shape]
        op = {"op": "pad", "arg": {"out": out}, "inplace": rng.chance(0.4)}
    elif kind == "pad":
        r = rng.random()
        if r < 0.3:
            arg = {"all": rng.randint(0, 2)}
        elif r < 0.5:
            arg = {"pair": [rng.randint(0, 3), rng.randint(0, 3)]}
        else:
            arg = {"per": [[rng.randint(0, 3), rng.randint(0, 3)] for _ in range(ndim)]}
        op = {"op": "pad", "arg": arg, "inplace": rng.chance(0.4)}
    else:
        axes = gen_axes_subset(rng, ndim)
        axl = axes_list(axes, ndim)
        ws = []
        for a_ in axl:
            L = shape[a_ % ndim]
            b = rng.randint(0, L // 2)
            e = -rng.randint(0, (L - b) // 2) if rng.chance(0.5) else rng.randint(b, L)
            ws.append([b, e])
        op = {"op": "crop", "widths": ws, "axes": axes, "inplace": rng.chance(0.4)}
    return new, kind, op


def exact_frac_array(a):
    """ndarray -> object array of (Fraction re, Fraction im)"""
    flat = np.asarray(a).ravel()
    if np.iscomplexobj(flat):
        return [(fr(float(z.real)), fr(float(z.imag))) for z in flat]
    return [(fr(float(z)) if flat.dtype.kind == "f" else Fraction(int(z)), Fraction(0)) for z in flat]


def bin_oracle(shape, vals, facs):
    """exact block sums: vals = list of (re, im) Fractions in C order; facs one per axis"""
    nd = len(shape)
    out_shape = [n // f for n, f in zip(shape, facs)]
    strides = [int(np.prod(shape[k + 1:])) for k in range(nd)]
    out = []
    for j in itertools.product(*[range(n) for n in out_shape]):
        sr = Fraction(0)
        si = Fraction(0)
        for t in itertools.product(*[range(f) for f in facs]):
            pos = sum((j[k] * facs[k] + t[k]) * strides[k] for k in range(nd))
            sr += vals[pos][0]
            si += vals[pos][1]
        out.append((sr, si))
    return out_shape, out


def run_exact(ctx, drv, ncases):
    from props import c03
    warnings.simplefilter("ignore")
    for c in range(ncases):
        rng = ctx.rng.fork(1000 + c)
        new, kind, op = gen_exact_case(rng)
        case = {"stream": "exact", "new": new, "kind": kind, "op": op}
        check_exact_case(ctx, drv, case)


def check_exact_case(ctx, drv, case):
    from props import c03
    new, kind, op = case["new"], case["kind"], case["op"]
    src = make_ds(new)
    a0 = src.array.copy()
    shape = list(a0.shape)
    ndim = len(shape)
    o0 = [fr(float(x)) for x in src.origin]
    s0 = [fr(float(x)) for x in src.sampling]
    ops = [op]
    ds = make_ds(new)
    ip = bool(op.get("inplace"))
    try:
        ret = c03.apply_op(ds, op)
        res = ds if ip else ret
        err = None
    except Exception as e:  # noqa
        res, err = None, err_name(e)
    ctx.count()
    ctx.dist[f"exact:{kind}"] += 1
    ctx.dist[f"exact:ndim{ndim}"] += 1
    ctx.dist["exact:dtype:" + new["dtype"] + (":extreme" if new.get("extreme") else "")] += 1
    ctx.dist["exact:calibration-route:" + new.get("route", "float")] += 1
    ctx.dist["exact:layout:" + str(new["array"].get("layout", "C"))] += 1
    parity = "".join("e" if n % 2 == 0 else "o" for n in shape)
    if a0.size >= 2:
        sig_axes = "all" if op.get("axes") is None else ("neg" if any(a < 0 for a in axes_list(op.get("axes"), ndim)) else "sub")
        ctx.mark(("exact", kind, ndim, kind_of(a0.dtype), sig_axes, parity if ndim <= 2 else parity.count("e"), bool(op.get("mean")), ip))
    if err is not None:
        ctx.pred_fail(f"exact-{kind}-raises", f"valid {kind} raised {err}", case, observed=err, required="result")
        return
    # ---- second step of the pad→crop law on the implementation
    if kind == "padcrop":
        out = op["arg"]["out"]
        widths = [(max(0, (o_ - n) // 2), max(0, -((n - o_) // 2))) for o_, n in zip(out, shape)]      # floor / ceil
        op2 = {"op": "crop", "widths": [[b, -a] for b, a in widths], "axes": None, "inplace": ip}
        ops.append(op2)
        padded = res
        exp_shape = [n + b + a for n, (b, a) in zip(shape, widths)]
        if all(o_ >= n for o_, n in zip(out, shape)) and list(padded.shape) != list(out):
            ctx.pred_fail("pad-output-shape", "pad(output_shape) did not produce the requested output shape", case,
                          observed=list(padded.shape), required=list(out))
        try:
            r2 = c03.apply_op(padded, op2)
            back = padded if ip else r2
        except Exception as e:  # noqa
            ctx.pred_fail("padcrop-raises", f"crop of the pad widths raised {err_name(e)}", case, observed=err_name(e), required="original data")
            return
        if not all(o_ >= n for o_, n in zip(out, shape)):
            ctx.dist["exact:padcrop:out<n (predicate skipped, correspondence only)"] += 1
        elif back.array.shape != a0.shape or not np.array_equal(back.array, a0):
            ctx.pred_fail("pad-crop-roundtrip", "pad(output_shape) followed by cropping the pad widths does not return the original data", case,
                          observed={"shape": list(back.array.shape)}, required={"shape": shape})
        res_final = back
    else:
        res_final = res
    # ---- bin clauses with the exact oracle
    if kind == "bin":
        axl = [a % ndim for a in axes_list(op["axes"], ndim)]
        fs = [op["f"]["one"]] * len(axl) if "one" in op["f"] else list(op["f"]["many"])
        facs = [1] * ndim
        for a_, f_ in zip(axl, fs):
            facs[a_] = f_
        vol = int(np.prod(fs))
        exp_shape, exp = bin_oracle(shape, exact_frac_array(a0), facs)
        got = exact_frac_array(res.array)
        tol = tol_for(res.array.dtype)
        if list(res.array.shape) != exp_shape:
            ctx.pred_fail("bin-shape", "binned shape is not n // f per axis (trailing remainder dropped)", case,
                          observed=list(res.array.shape), required=exp_shape)
        else:
            if op.get("mean"):
                exp = [(x / vol, y / vol) for x, y in exp]
            exact_ok = (not op.get("mean")) or (vol & (vol - 1)) == 0
            scale = max([1] + [max(abs(x), abs(y)) for x, y in exp])
            dmax = max([0] + [max(abs(g[0] - e[0]), abs(g[1] - e[1])) for g, e in zip(got, exp)])
            if (exact_ok and dmax != 0) or dmax > (1e-12 if tol == 1e-9 else tol) * scale:
                ctx.pred_fail("bin-block-sum", "binned values are not the sum (mean) of exactly the pixels of each block", case,
                              observed=[str(g[0]) for g in got[:12]], required=[str(e[0]) for e in exp[:12]])
            elif dmax:
                ctx.stat_max("bin_mean_rel_error", float(dmax / scale))
            if not op.get("mean"):
                cov = a0[tuple(slice(0, (n // f) * f) for n, f in zip(shape, facs))]
                ci, co = exact_frac_array(cov), got                       # exact Python integers / Fractions, no float or dtype arithmetic
                tot_in = (sum(x for x, _ in ci), sum(y for _, y in ci))
                tot_out = (sum(x for x, _ in co), sum(y for _, y in co))
                if tot_in != tot_out:
                    ctx.pred_fail("bin-counts", "sum over the covered region is not preserved", case,
                                  observed=[str(v) for v in tot_out], required=[str(v) for v in tot_in])
        ro = [fr(float(x)) for x in res.origin]
        rs = [fr(float(x)) for x in res.sampling]
        req_s = [s0[k] * facs[k] for k in range(ndim)]
        # origin = mean coordinate of the first block; centre of block j: o' + j s' = mean_i (o + (j f + i) s)
        req_o = [sum(o0[k] + i * s0[k] for i in range(facs[k])) / facs[k] for k in range(ndim)]
        if rs != req_s:
            ctx.pred_fail("bin-sampling", "sampling is not multiplied by the bin factor on exactly the binned axes", case,
                          observed=[str(x) for x in rs], required=[str(x) for x in req_s])
        if ro != req_o:
            ctx.pred_fail("bin-origin", "origin is not the mean coordinate of the first block", case,
                          observed=[str(x) for x in ro], required=[str(x) for x in req_o])
    # ---- correspondence with the model
    reqs = [dict({k: v for k, v in o.items() if k not in ("dtype",)}, follow=not o.get("inplace")) for o in ops]
    ans = drv.ask({"op": "exact", "new": {k: v for k, v in new.items() if k not in ("route", "extreme")}, "ops": reqs})
    if "err" in ans:
        raise RuntimeError(f"driver error {ans}")
    last = ans["ok"][-1]
    if "err" in last.get("r", {}):
        ctx.disagree("exact", case, {"err": last["r"]["err"]}, "ok", note=f"{kind}: model raises")
        return
    m = last["recv"] if ip else last["r"]["ok"]
    iv = view(res_final)
    inexact = kind == "bin" and op.get("mean") and (int(np.prod([op["f"]["one"]] * len(axes_list(op["axes"], ndim)) if "one" in op["f"] else op["f"]["many"])) & (int(np.prod([op["f"]["one"]] * len(axes_list(op["axes"], ndim)) if "one" in op["f"] else op["f"]["many"])) - 1)) != 0
    flags = {"meta_inexact": False, "data_inexact": bool(inexact), "f32": tol_for(res_final.array.dtype) != 1e-9}
    c03.compare_view(ctx, "exact", case, m, iv, flags, kind)
    ctx.sample({"stream": "exact", "kind": kind, "shape": shape, "dtype": new["dtype"], "op": op}, limit=2)


# ------------------------------------------------------------------------------------------
# float stream (fourier_resample)

def dft_matrix_oracle(x, axes, outs):
    """independent float64 oracle: along each axis y = (m/n) * W_m^{-1} S W_n x with dense DFT matrices and the
    signed-frequency selection S (kept band: -(n//2) <= s <= n-1-n//2 intersected with the output band)."""
    y = np.asarray(x, dtype=np.complex128)
    for ax, m in zip(axes, outs):
        n = y.shape[ax]
        k = np.arange(n)
        Wn = np.exp(-2j * np.pi * np.outer(k, k) / n)
        kk = np.arange(m)
        Wm_inv = np.exp(2j * np.pi * np.outer(kk, kk) / m) / m
        S = np.zeros((m, n))
        for ko in range(m):
            s = ko if ko <= (m - 1) - m // 2 else ko - m            # signed frequency of output bin (band -(m//2) .. m-1-m//2)
            if -(n // 2) <= s <= n - 1 - n // 2:
                S[ko, s % n] = 1.0
        T = (m / n) * (Wm_inv @ S @ Wn)
        y = np.moveaxis(np.tensordot(T, np.moveaxis(y, ax, 0), axes=(1, 0)), 0, ax)
    return y


def remove_nyquist(x, axes):
    y = np.asarray(x, dtype=np.complex128 if np.iscomplexobj(x) else np.float64).copy()
    for ax in axes:
        n = y.shape[ax]
        if n % 2 == 0:
            alt = ((-1.0) ** np.arange(n)).reshape([-1 if k == ax else 1 for k in range(y.ndim)])
            y = y - alt * np.sum(y * alt, axis=ax, keepdims=True) / n
    return y


def gen_float_case(rng):
    ndim = rng.weighted([(1, 4), (2, 4), (3, 2)])
    cap = {1: 12, 2: 10, 3: 6}[ndim]
    shape = [rng.randint(1, cap) if not rng.chance(0.1) else 1 for _ in range(ndim)]
    k = rng.randint(1, ndim)
    axes = sorted(rng.sample(list(range(ndim)), k)) if rng.chance(0.7) else rng.sample(list(range(ndim)), k)
    outs = []
    for a in axes:
        n = shape[a]
        r = rng.random()
        m = n if r < 0.1 else (rng.randint(n, min(2 * n + 2, 14)) if r < 0.55 else rng.randint(1, max(1, n)))
        outs.append(m)
    dtype = rng.weighted([("float64", 5), ("complex128", 5), ("int32", 1), ("float32", 1), ("complex64", 1), ("uint8", 0.4), ("bool", 0.3), ("int64", 0.3)])
    values = rng.weighted(VALUE_CLASSES)
    seedv = rng.next() & 0xFFFFFFFF
    mode = rng.weighted([("out_shape", 3), ("factors", 1)])
    neg = rng.chance(0.25)
    return {"stream": "float", "shape": shape, "axes": axes, "outs": outs, "dtype": dtype, "seed": seedv, "mode": mode, "neg_axes": neg,
            "inplace": rng.chance(0.3), "values": values,
            "route": "float" if rng.chance(0.65) else rng.choice(["int_tuple", "int_ndarray", "setter_tuple", "setter_ndarray"]),
            "layout": gen_layout(rng)}


VALUE_CLASSES = [("random", 8), ("zero-imag", 2.5), ("zero-real", 1.5), ("delta", 1.5), ("const", 1), ("alt", 1), ("zeros", 0.5), ("int-valued", 1)]


def float_array(case, which=0):
    """the input array of a float / hist case.  `values` is the value STRUCTURE (the logical dtype is `dtype` in every class):
    random | zero-imag (complex dtype, imaginary part exactly 0 everywhere) | zero-real | delta (a single non-zero entry) |
    const | alt (pure Nyquist pattern +-1 along every axis) | zeros | int-valued"""
    g = np.random.default_rng(case["seed"] + 7919 * which)
    shape = case["shape"]
    dt = np.dtype(case["dtype"])
    vc = case.get("values", "random")
    if dt.kind in "iub":
        if vc in ("delta", "zeros"):
            a = np.zeros(shape, dtype=np.int64)
            if vc == "delta" and a.size:
                a.flat[int(g.integers(0, a.size))] = int(g.integers(1, 20))
        elif vc == "const":
            a = np.full(shape, int(g.integers(1, 20)), dtype=np.int64)
        elif vc == "alt":
            a = (np.indices(shape).sum(axis=0) % 2) * 2 - 1 if dt.kind == "i" else np.indices(shape).sum(axis=0) % 2
        else:
            a = g.integers(0 if dt.kind in "ub" else -20, 2 if dt.kind == "b" else 20, size=shape)
        return np.asarray(a).astype(dt)
    if vc == "delta":
        re = np.zeros(shape)
        if re.size:
            re.flat[int(g.integers(0, re.size))] = float(g.uniform(0.5, 2))
    elif vc == "const":
        re = np.full(shape, float(g.uniform(-2, 2)))
    elif vc == "alt":
        re = ((np.indices(shape).sum(axis=0) % 2) * 2.0 - 1.0) * float(g.uniform(0.5, 2))
    elif vc == "zeros":
        re = np.zeros(shape)
    elif vc == "int-valued":
        re = g.integers(-9, 10, size=shape).astype(float)
    else:
        re = g.uniform(-1, 1, size=shape) + (g.uniform(-3, 3) if which == 0 else 0.0)
    if dt.kind == "c":
        if vc == "zero-imag":
            return (re + 0j).astype(dt)
        if vc == "zero-real":
            return (1j * re).astype(dt)
        if vc in ("delta", "const", "alt", "zeros"):
            ph = complex(np.exp(1j * g.uniform(0, 2 * np.pi))) if g.uniform() < 0.5 else (1.0 if g.uniform() < 0.5 else 1j)
            return (re * ph).astype(dt)
        if vc == "int-valued":
            return (re + 1j * g.integers(-9, 10, size=shape)).astype(dt)
        return (re + 1j * g.uniform(-1, 1, size=shape)).astype(dt)
    return re.astype(dt)


def call_resample(ds, case, axes, outs):
    ndim = len(case["shape"])
    axes_arg = tuple(a - ndim if case.get("neg_axes") else a for a in axes)
    if len(axes_arg) == ndim and sorted(axes) == list(range(ndim)) and list(axes) == sorted(axes) and case["seed"] % 3 == 0:
        axes_arg = None
    elif len(axes_arg) == 1 and case["seed"] % 2 == 0:
        axes_arg = axes_arg[0]
    kw = {"axes": axes_arg, "modify_in_place": bool(case.get("inplace"))}
    if case["mode"] == "factors":
        # factors that reproduce `outs` exactly: (m + 0.25) / n rounds to m for every n >= 1
        fs = tuple((m + 0.25) / ds.shape[a] for a, m in zip(axes, outs))
        kw["factors"] = fs if len(fs) > 1 or case["seed"] % 5 else fs[0]
        if len(set(fs)) > 1 and not isinstance(kw["factors"], tuple):
            kw["factors"] = fs
    else:
        kw["out_shape"] = tuple(outs)
    r = ds.fourier_resample(**kw)
    return ds if case.get("inplace") else r


def check_float_case(ctx, drv, case):
    from quantem.core.datastructures import Dataset
    warnings.simplefilter("ignore")
    shape, axes, outs = case["shape"], case["axes"], case["outs"]
    ndim = len(shape)
    x = float_array(case)
    route = case.get("route", "float")
    if route == "float":
        o0 = [Fraction(k, 2) - 1 for k in range(ndim)]
        s0 = [Fraction(k + 1, 4) for k in range(ndim)]
        mk = lambda arr: Dataset.from_array(apply_layout(arr.copy(), case.get("layout")), origin=[float(v) for v in o0], sampling=[float(v) for v in s0])  # noqa
    else:       # integer-typed calibration (Python int tuple / integer ndarray) through subclass constructors or the property setters
        o0 = [Fraction(k - 1) for k in range(ndim)]
        s0 = [Fraction(k + 1) for k in range(ndim)]
        kls = cls_of({2: "Dataset2d", 3: "Dataset3d"}.get(ndim, "Dataset"))
        cal = {"origin": {"l": [int(v) for v in o0]}, "sampling": {"l": [int(v) for v in s0]}}

        def mk(arr):
            if route.startswith("setter"):
                d_ = kls.from_array(apply_layout(arr.copy(), case.get("layout")))
                d_.origin = cal_value(cal["origin"], route)
                d_.sampling = cal_value(cal["sampling"], route)
                return d_
            return kls.from_array(apply_layout(arr.copy(), case.get("layout")), origin=cal_value(cal["origin"], route), sampling=cal_value(cal["sampling"], route))
    ctx.dist["float:calibration-route:" + route] += 1
    ctx.dist["float:layout:" + str(case.get("layout", "C"))] += 1
    tol = tol_for(x.dtype)
    sfx = "_f64" if tol == 1e-9 else "_f32"
    ctx.count()
    ctx.dist["float:dtype:" + case["dtype"]] += 1
    ctx.dist["float:values:" + case.get("values", "random")] += 1
    ctx.dist[f"float:ndim{ndim}"] += 1
    dirs = "".join("u" if m > shape[a] else ("d" if m < shape[a] else "=") for a, m in zip(axes, outs))
    par = "".join(("e" if shape[a] % 2 == 0 else "o") + ("e" if m % 2 == 0 else "o") for a, m in zip(axes, outs))
    ctx.dist["float:dir:" + ("".join(sorted(set(dirs))))] += 1
    if x.size >= 2:
        ctx.mark(("float", ndim, np.dtype(case["dtype"]).kind, len(axes), dirs, par, case["mode"]))
    try:
        res = call_resample(mk(x), case, axes, outs)
    except Exception as e:  # noqa
        ctx.pred_fail("resample-raises", f"valid fourier_resample raised {err_name(e)}: {e}", case, observed=err_name(e), required="result")
        return
    y = res.array
    exp_shape = list(shape)
    for a, m in zip(axes, outs):
        exp_shape[a] = m
    if list(y.shape) != exp_shape:
        ctx.pred_fail("resample-shape", "output shape is not the requested one", case, observed=list(y.shape), required=exp_shape)
        return
    scale = max(1.0, float(np.max(np.abs(x))) if x.size else 1.0)
    # (1) mean
    dm = abs(complex(np.mean(y)) - complex(np.mean(x)))
    ctx.stat_max("mean_abs_error_over_scale" + sfx, dm / scale)
    if dm > tol * scale:
        ctx.pred_fail("resample-mean", "fourier_resample does not preserve the array mean", case, observed=str(complex(np.mean(y))), required=str(complex(np.mean(x))))
    # (2) physical centre and extent
    ro = [float(v) for v in res.origin]
    rs = [float(v) for v in res.sampling]
    for k in range(ndim):
        n, m = shape[k], exp_shape[k]
        c_old = float(o0[k]) + (n - 1) / 2 * float(s0[k])
        c_new = ro[k] + (m - 1) / 2 * rs[k]
        if abs(c_new - c_old) > 1e-12 * max(1, abs(c_old)):
            ctx.pred_fail("resample-centre", "physical centre of the field of view not preserved", case, observed=c_new, required=c_old)
        if abs(m * rs[k] - n * float(s0[k])) > 1e-12 * n * float(s0[k]):
            ctx.pred_fail("resample-extent", "extent of the field of view not preserved", case, observed=m * rs[k], required=n * float(s0[k]))
    # (3) independent dense-DFT oracle
    oracle = dft_matrix_oracle(x, axes, outs)
    if np.isrealobj(x):
        oracle = oracle.real
    d = float(np.max(np.abs(y - oracle))) if y.size else 0.0
    ctx.stat_max("impl_vs_dense_dft_oracle" + sfx, d / scale)
    if d > tol * scale:
        ctx.pred_fail("resample-values", "fourier_resample differs from band-limited (signed-frequency) DFT resampling", case,
                      observed=float(d), required=f"<= {tol}*{scale}")
    # (4) identity when the shape is unchanged
    if all(m == shape[a] for a, m in zip(axes, outs)):
        di = float(np.max(np.abs(y - x))) if y.size else 0.0
        if di > tol * scale:
            ctx.pred_fail("resample-identity", "fourier_resample with unchanged shape is not the identity", case, observed=di, required=0)
    # (5) linearity
    x2 = float_array(case, 1)
    a_, b_ = 1.5, -0.75
    if np.iscomplexobj(x):      # complex data: linear over the COMPLEX scalars (i*x included: b_ = 0 is pure homogeneity R(i x) = i R(x))
        a_, b_ = [(1j, 0.0), (1.5 - 0.5j, -0.75 + 0.25j), (1j, -0.75), (-1.0, 1j)][case["seed"] % 4]
        ctx.dist["float:linearity-scalars:" + ("i*x" if b_ == 0.0 else "complex")] += 1
    try:
        y2 = call_resample(mk(x2), case, axes, outs).array
        comb = (a_ * x.astype(np.complex128 if np.iscomplexobj(x) else np.float64) + b_ * x2)
        yc = call_resample(mk(comb), case, axes, outs).array
        dl = float(np.max(np.abs(yc - (a_ * y + b_ * y2)))) if y.size else 0.0
        sc2 = max(scale, float(np.max(np.abs(comb))) if comb.size else 1.0)
        ctx.stat_max("linearity_defect_over_scale" + sfx, dl / sc2)
        if dl > tol * 4 * sc2:
            ctx.pred_fail("resample-linear", "fourier_resample is not linear", case, observed=dl, required=0)
    except Exception as e:  # noqa
        ctx.pred_fail("resample-raises", f"fourier_resample raised {err_name(e)} on a linear combination", case, observed=str(e), required="result")
    # (6) up then down returns the original (no Nyquist content)
    if all(m >= shape[a] for a, m in zip(axes, outs)) and np.dtype(case["dtype"]).kind in "fc":
        xb = remove_nyquist(x, axes).astype(x.dtype)
        try:
            up = call_resample(mk(xb), case, axes, outs)
            c2 = dict(case, mode="out_shape", inplace=False)
            down = call_resample(up, c2, axes, [shape[a] for a in axes]).array
            dr = float(np.max(np.abs(down - xb))) if xb.size else 0.0
            ctx.stat_max("roundtrip_defect_over_scale" + sfx, dr / scale)
            ctx.dist["float:roundtrip"] += 1
            if dr > tol * 4 * scale:
                ctx.pred_fail("resample-roundtrip", "up-sampling then down-sampling does not return the original (Nyquist-free) data", case,
                              observed=dr, required=0)
        except Exception as e:  # noqa
            ctx.pred_fail("resample-raises", f"round trip raised {err_name(e)}", case, observed=str(e), required="result")
    # ---- correspondence with the Lean model at Float
    xr = np.asarray(x, dtype=np.complex128).ravel()
    ans = drv.ask({"op": "resample", "shape": shape, "re": [f2b(v.real) for v in xr], "im": [f2b(v.imag) for v in xr] if np.iscomplexobj(x) else None,
                   "axes": axes, "outs": outs, "real": bool(np.isrealobj(x))})
    if "err" in ans:
        raise RuntimeError(f"driver error {ans}")
    mo = ans["ok"]
    mre = np.array([b2f(v) for v in mo["re"]]).reshape(mo["shape"]) if mo["re"] else np.zeros(mo["shape"])
    mim = np.array([b2f(v) for v in mo["im"]]).reshape(mo["shape"]) if mo["im"] else np.zeros(mo["shape"])
    mz = mre + 1j * mim
    if list(mo["shape"]) != list(y.shape):
        ctx.disagree("float", case, {"shape": mo["shape"]}, {"shape": list(y.shape)}, note="shape")
    else:
        dd = float(np.max(np.abs(np.asarray(y, dtype=np.complex128) - mz))) if y.size else 0.0
        msc = max(1.0, float(np.max(np.abs(mz))) if mz.size else 1.0)
        ctx.stat_max("impl_vs_model_float" + sfx, dd / msc)
        if dd > tol * msc:
            ctx.disagree("float", case, {"max_abs_model": msc, "first": [float(mz.ravel()[0].real), float(mz.ravel()[0].imag)]},
                         {"max_abs_diff": dd, "first": [float(np.asarray(y).ravel()[0].real), float(np.asarray(y, dtype=complex).ravel()[0].imag)]},
                         note="values beyond tolerance")
    # calibration through the exact model
    a_int = np.zeros(shape, dtype=np.int8)
    new = {"op": "new", "cls": "Dataset", "array": {"shape": shape, "kind": kind_of(x.dtype), "re": None, "im": None}, "origin": {"l": [fj(v) for v in o0]},
           "sampling": {"l": [fj(v) for v in s0]}, "units": None}
    ans = drv.ask({"op": "exact", "new": new, "ops": [{"op": "resample", "arg": {"out": outs}, "axes": {"many": axes}, "inplace": True}]})
    m = ans["ok"][-1]["recv"]
    # dtype kind of the result as the model states it: complex data stays complex (whatever its VALUES are), everything else becomes float
    if m["kind"] != kind_of(y.dtype):
        ctx.disagree("float", case, {"kind": m["kind"]}, {"kind": kind_of(y.dtype)}, note="dtype kind of the resampled array")
    for key, got in (("origin", ro), ("sampling", rs)):
        eq, dist = num_close(m[key], [fj(fr(v)) for v in got], 0)
        if not eq and dist > 1e-12:
            ctx.disagree("float", case, {key: m[key]}, {key: got}, note=f"calibration {key}")
        elif not eq:
            ctx.stat_max("calibration_rel_distance", dist)
    ctx.sample({k: v for k, v in case.items()}, limit=4)


def run_float(ctx, drv, ncases):
    for c in range(ncases):
        rng = ctx.rng.fork(50000 + c)
        check_float_case(ctx, drv, gen_float_case(rng))


# ------------------------------------------------------------------------------------------
# index-map stream

def run_indexmap(ctx, drv, nmax):
    from quantem.core.datastructures import Dataset
    warnings.simplefilter("ignore")
    pairs = [(n, m) for n in range(1, nmax + 1) for m in range(1, nmax + 1)]
    fms = drv.ask_many([{"op": "freqmap", "n": n, "m": m} for n, m in pairs])
    total = 0
    for (n, m), ans in zip(pairs, fms):
        fm = ans["ok"]
        # implementation's map, read off one complex exponential per input bin
        impl = [None] * m
        bad = None
        j = np.arange(n)
        for k in range(n):
            x = np.exp(2j * np.pi * k * j / n)
            y = Dataset.from_array(x).fourier_resample(out_shape=(m,)).array
            Y = np.fft.fft(y) / m           # expected: one bin equal to 1 (rescale m/n times n/m … = 1) or all zero
            pop = [int(q) for q in np.nonzero(np.abs(Y) > 1e-6)[0]]
            total += 1
            if len(pop) > 1 or (len(pop) == 1 and abs(Y[pop[0]] - 1.0) > 1e-9):
                bad = (k, pop, [complex(Y[q]) for q in pop][:3])
                break
            if pop:
                if impl[pop[0]] is not None:
                    bad = (k, pop, "two input bins land in one output bin")
                    break
                impl[pop[0]] = k
        case = {"stream": "indexmap", "n": n, "m": m}
        ctx.count()
        if n >= 2:
            ctx.mark(("indexmap", n, m))
        if bad is not None:
            ctx.disagree("indexmap", case, fm, {"not_a_bin_map": str(bad)}, note="a complex exponential does not map to a single unit output bin")
            continue
        if impl != fm:
            ctx.disagree("indexmap", case, fm, impl, note="freqMap")
    ctx.dist["indexmap:pairs"] += len(pairs)
    ctx.dist["indexmap:exponentials"] += total
    ctx.extra["indexmap_exhaustive"] = f"all (n, m, k) with 1 <= n, m <= {nmax}, 0 <= k < n"


# ------------------------------------------------------------------------------------------
# value histories: several operations on ONE dataset object, array values compared with the model after every step

def gen_history(rng):
    ndim = rng.weighted([(1, 3), (2, 4), (3, 1)])
    cap = {1: 10, 2: 7, 3: 4}[ndim]
    shape = [rng.randint(2, cap) for _ in range(ndim)]
    k = rng.randint(1, ndim)
    axes = sorted(rng.sample(list(range(ndim)), k))
    dtype = rng.weighted([("float64", 5), ("complex128", 3), ("int32", 1)])
    steps = []
    cur = list(shape)

    def resample_step():
        ax = axes if rng.chance(0.85) else sorted(rng.sample(list(range(ndim)), rng.randint(1, ndim)))
        outs = [max(1, cur[a] + rng.randint(-2, 3)) if not rng.chance(0.2) else cur[a] for a in ax]
        st = {"op": "resample", "axes": ax, "outs": outs, "inplace": rng.chance(0.4), "neg": rng.chance(0.15)}
        st["follow"] = (not st["inplace"]) and rng.chance(0.35)      # otherwise the history stays on the source object
        if st["inplace"] or st["follow"]:
            for a, m in zip(ax, outs):
                cur[a] = m
        return st

    def mutate_step():
        kind = rng.weighted([("pad", 4), ("bin", 4), ("crop", 2), ("set_array", 1)])
        ip = rng.chance(0.75)
        st = {"op": kind, "inplace": ip, "follow": (not ip) and rng.chance(0.5)}
        new = list(cur)
        if kind == "pad":
            st["widths"] = [[rng.randint(0, 2), rng.randint(0, 2)] for _ in range(ndim)]
            new = [n + b + a for n, (b, a) in zip(cur, st["widths"])]
        elif kind == "bin":
            a = rng.below(ndim)
            f = 2 if cur[a] >= 2 else 1
            st["axis"], st["f"] = a, f
            new[a] = cur[a] // f
        elif kind == "crop":
            st["widths"] = [[rng.randint(0, 1), -rng.randint(0, 1)] if n >= 3 else [0, 0] for n in cur]
            new = [n - b + a for n, (b, a) in zip(cur, st["widths"])]
        else:
            st["inplace"], st["follow"] = True, False
        if st["inplace"] or st["follow"]:
            cur[:] = new
        return st

    def rejected_step():
        # a call the code must reject (any method, any reason, in place or copying): the history carries on afterwards
        from props import c06_more
        if rng.chance(0.35):
            call, reason = c06_more.gen_rejected(rng, cur)
            steps.append({"op": "rejected", "call": call, "reason": reason})

    steps.append(resample_step())
    for _ in range(rng.randint(1, 2)):
        for _ in range(rng.randint(1, 2)):
            rejected_step()
            steps.append(mutate_step())
        rejected_step()
        steps.append(resample_step())
    return {"stream": "hist", "shape": shape, "dtype": dtype, "seed": rng.next() & 0xFFFFFFFF, "steps": steps, "layout": gen_layout(rng),
            "values": rng.weighted(VALUE_CLASSES)}


def model_exact(drv, marr, mreal, opreq):
    """pad / crop / bin of the model's current values through the exact (Rat) model"""
    z = marr if not mreal else marr.real
    new = {"op": "new", "cls": "Dataset", "array": arr_json(np.asarray(z)), "origin": None, "sampling": None, "units": None}
    ans = drv.ask({"op": "exact", "new": new, "ops": [dict(opreq, inplace=True)]})
    if "err" in ans:
        raise RuntimeError(f"driver error {ans}")
    m = ans["ok"][-1]
    if "err" in m.get("r", {}):
        return None
    m = m["recv"]
    re = np.array([float(jf(v)) for v in m["re"]], dtype=float).reshape(m["shape"])
    im = np.array([float(jf(v)) for v in m["im"]], dtype=float).reshape(m["shape"]) if m.get("im") is not None else 0.0
    return re + 1j * im


def check_history(ctx, drv, case):
    from quantem.core.datastructures import Dataset
    warnings.simplefilter("ignore")
    x = float_array({"seed": case["seed"], "shape": case["shape"], "dtype": case["dtype"], "values": case.get("values", "random")})
    ds = Dataset.from_array(apply_layout(x.copy(), case.get("layout")), origin=[0.0] * x.ndim, sampling=[1.0] * x.ndim)
    ctx.dist["hist:layout:" + str(case.get("layout", "C"))] += 1
    marr = np.asarray(x, dtype=np.complex128)
    mreal = bool(np.isrealobj(x))
    ctx.dist["hist:histories"] += 1
    from props import c03
    kept = []          # every other dataset of the history (results not followed, sources left behind) with its snapshot
    for i, st in enumerate(case["steps"]):
        sub = dict(case, steps=case["steps"][: i + 1])
        for obj, snap in kept:
            if c03.snapshot(obj) != snap:
                ctx.pred_fail("hist-other-dataset-changed", f"step {i - 1} changed a dataset returned / left behind earlier in the history", sub,
                              observed=c03.snap_diff(snap, c03.snapshot(obj)), required="bit-identical")
                return
        before = ds.array.copy()
        nd = before.ndim
        ctx.count()
        if st["op"] == "rejected":
            snap = c03.snapshot(ds)
            call = st["call"]
            try:
                c03.apply_op(ds, call)
                err = None
            except Exception as e:  # noqa
                err = err_name(e)
            ctx.dist["hist:rejected:" + call["op"] + ":" + st["reason"] + (":inplace" if call.get("inplace") else "")] += 1
            ctx.mark(("hist", "rejected", call["op"], st["reason"], bool(call.get("inplace")), nd))
            if err is None:
                ctx.disagree("hist", sub, {"outcome": "raises"}, {"outcome": "ok"}, note=f"step {i}: malformed {call['op']} call ({st['reason']}) accepted")
                return
            if c03.snapshot(ds) != snap:
                ctx.pred_fail("rejected-call-changed-state", f"{call['op']}() raised {err} ({st['reason']}) but changed the dataset (step {i} of a history)", sub,
                              observed=c03.snap_diff(snap, c03.snapshot(ds)), required="array, origin and sampling bit-identical after a rejected call")
                return
            continue
        ctx.dist["hist:" + st["op"] + (":inplace" if st.get("inplace") else "")] += 1
        ctx.mark(("hist", st["op"], bool(st.get("inplace")), nd, case["steps"][i - 1]["op"] if i else "new", np.dtype(case["dtype"]).kind))
        try:
            if st["op"] == "resample":
                axes = tuple(a - nd if st.get("neg") else a for a in st["axes"])
                r = ds.fourier_resample(out_shape=tuple(st["outs"]), axes=axes, modify_in_place=bool(st["inplace"]))
            elif st["op"] == "pad":
                r = ds.pad(pad_width=tuple(tuple(w) for w in st["widths"]), modify_in_place=bool(st["inplace"]))
            elif st["op"] == "bin":
                r = ds.bin(int(st["f"]), axes=(int(st["axis"]),), modify_in_place=bool(st["inplace"]))
            elif st["op"] == "crop":
                r = ds.crop(tuple(tuple(w) for w in st["widths"]), modify_in_place=bool(st["inplace"]))
            else:
                ds.array = apply_layout(before * 2 + 1, LAYOUTS[(i + len(case["steps"])) % len(LAYOUTS)])
                r = None
        except Exception as e:  # noqa
            ctx.pred_fail("hist-raises", f"step {i} ({st['op']}) of a valid history raised {err_name(e)}: {e}", sub, observed=err_name(e), required="result")
            return
        res = ds if st.get("inplace") or st["op"] == "set_array" else r
        y = res.array
        # ---- the model's value of this step, from the model's own current values
        if st["op"] == "resample":
            xr = marr.ravel()
            ans = drv.ask({"op": "resample", "shape": list(marr.shape), "re": [f2b(v.real) for v in xr], "im": None if mreal else [f2b(v.imag) for v in xr],
                           "axes": list(st["axes"]), "outs": list(st["outs"]), "real": mreal})
            if "err" in ans:
                raise RuntimeError(f"driver error {ans}")
            mo = ans["ok"]
            mnew = (np.array([b2f(v) for v in mo["re"]]).reshape(mo["shape"]) + 1j * np.array([b2f(v) for v in mo["im"]]).reshape(mo["shape"]))
        elif st["op"] == "pad":
            mnew = model_exact(drv, marr, mreal, {"op": "pad", "arg": {"per": st["widths"]}})
        elif st["op"] == "bin":
            mnew = model_exact(drv, marr, mreal, {"op": "bin", "f": {"many": [st["f"]]}, "axes": {"many": [st["axis"]]}, "mean": False})
        elif st["op"] == "crop":
            mnew = model_exact(drv, marr, mreal, {"op": "crop", "widths": st["widths"], "axes": None})
        else:
            mnew = marr * 2 + 1
        # ---- the statement's clauses on this step, judged against the data the dataset held BEFORE the step
        if st["op"] == "resample":
            exp_shape = list(before.shape)
            for a, m in zip(st["axes"], st["outs"]):
                exp_shape[a] = m
            scale = max(1.0, float(np.max(np.abs(before))) if before.size else 1.0)
            if list(y.shape) != exp_shape:
                ctx.pred_fail("resample-shape", "output shape is not the requested one (history on one object)", sub, observed=list(y.shape), required=exp_shape)
                return
            if abs(complex(np.mean(y)) - complex(np.mean(before))) > 1e-9 * scale:
                ctx.pred_fail("resample-mean", "fourier_resample does not preserve the mean of the data the dataset currently holds", sub,
                              observed=str(complex(np.mean(y))), required=str(complex(np.mean(before))))
            oracle = dft_matrix_oracle(before, st["axes"], st["outs"])
            if np.isrealobj(before):
                oracle = oracle.real
            d = float(np.max(np.abs(y - oracle))) if y.size else 0.0
            ctx.stat_max("hist_impl_vs_dense_dft_oracle", d / scale)
            if d > 1e-9 * scale:
                ctx.pred_fail("resample-values", "fourier_resample of the current data differs from band-limited DFT resampling of that data", sub,
                              observed=d, required=f"<= 1e-9*{scale}")
            if list(st["outs"]) == [before.shape[a] for a in st["axes"]] and d <= 1e-9 * scale and float(np.max(np.abs(y - before))) > 1e-9 * scale:
                ctx.pred_fail("resample-identity", "fourier_resample with unchanged shape is not the identity", sub, observed="changed", required="identity")
        # ---- correspondence: values after every step
        if mnew is None or list(mnew.shape) != list(y.shape):
            ctx.disagree("hist", sub, {"shape": None if mnew is None else list(mnew.shape)}, {"shape": list(y.shape)}, note=f"step {i} {st['op']}: shape")
            return
        dd = float(np.max(np.abs(np.asarray(y, dtype=np.complex128) - mnew))) if y.size else 0.0
        msc = max(1.0, float(np.max(np.abs(mnew))) if mnew.size else 1.0)
        ctx.stat_max("hist_impl_vs_model", dd / msc)
        if dd > 1e-9 * msc:
            ctx.disagree("hist", sub, {"max_abs_model": msc}, {"max_abs_diff": dd}, note=f"step {i} {st['op']}: values")
            return
        if st["op"] == "resample":
            mreal = mreal          # real stays real, complex stays complex
        # continue on the receiver or on the returned dataset; the model follows the same object
        if st.get("inplace") or st["op"] == "set_array" or st.get("follow"):
            marr = mnew
        if st.get("follow") and r is not None:
            kept.append((ds, c03.snapshot(ds)))
            ds = r
        elif r is not None:
            kept.append((r, c03.snapshot(r)))
        kept = kept[-4:]
    ctx.sample({"stream": "hist", "shape": case["shape"], "dtype": case["dtype"], "steps": case["steps"][:4]}, limit=5)


def run_hist(ctx, drv, n):
    for c in range(n):
        rng = ctx.rng.fork(90000 + c)
        check_history(ctx, drv, gen_history(rng))


def run(ctx):
    from qv.driver import Driver
    drv = Driver("C06")
    from props import c06_more, c06_g6
    try:
        c06_g6.run_fixed(ctx, drv)          # fixed blocks (independent of VERIF_SEED): thresholds, orientation, repeated calls
        run_hist(ctx, drv, ctx.n(250, 4000))
        c06_more.run_reject(ctx, drv, ctx.n(500, 8000))
        c06_more.run_forms(ctx, drv, ctx.n(500, 8000))
        run_exact(ctx, drv, ctx.n(1500, 40000))
        run_float(ctx, drv, ctx.n(400, 10000))
        if not ctx.search_mode:
            run_indexmap(ctx, drv, 64 if ctx.thorough() else 16)
    finally:
        drv.close()


def replay(ctx, rep):
    from qv.driver import Driver
    case = rep.get("case") or (rep.get("correspondence_disagreements") or rep.get("disagreements") or [{}])[0].get("case")
    if not case:
        return True
    drv = Driver("C06")
    try:
        if case.get("stream") == "exact":
            check_exact_case(ctx, drv, case)
        elif case.get("stream") == "float":
            check_float_case(ctx, drv, case)
        elif case.get("stream") == "hist":
            check_history(ctx, drv, case)
        elif case.get("stream") == "session":
            from props import c06_g6
            c06_g6.check_session(ctx, drv, case)
        elif case.get("stream") == "reject":
            from props import c06_more
            c06_more.check_reject_history(ctx, drv, case)
        elif case.get("stream") == "forms":
            from props import c06_more
            c06_more.check_forms_history(ctx, drv, case)
        else:
            run_indexmap(ctx, drv, max(case.get("n", 1), case.get("m", 1)))
    finally:
        drv.close()
    return True
