"""C01, growth round 6 — FIXED blocks (independent of VERIF_SEED) through the real save()/load():
  wide      item-by-item containers with >= 11 / >= 101 / > 255 items (two- and three-digit element keys; order and
            length must survive), wide dicts / objects, long all-numeric sequences with values beyond 255 / 32767 / 2**24
  layout    arrays whose memory order differs from C order (a.T, asfortranarray, transpose(2,0,1), negative strides,
            broadcast and step-sliced views; H > W as well as H < W) as attributes and inside list / tuple / dict / nested
            object; non-contiguous tensors; large arrays / payloads (more than one chunk, > 64 KiB)
  classes   two AutoSerialize classes with the SAME class name living in different modules in ONE graph and in ONE
            process (several loads in a row), in both orders
  dtypes    dtype classes outside the random generator decided either way: datetime64 / timedelta64 / structured / bytes
            must round trip; longdouble / clongdouble / object arrays and NumPy scalars without a JSON form are recorded
            findings
  saveonto  `Model/SerializeStoreExt.saveOnto` (argument checks + encode + _install() on every kind of directory entry)
            against the real save() onto a target that is nothing / a file / an empty or non-empty directory / a symbolic
            link to a directory, to a file, to nothing — for both stores and both write modes
Every case runs on both stores; the loaded graph is compared with the property's own equality (`ser_common.prop_equal`),
saved again (fixed point) and — where the value universe of the model contains it — with the Lean model's round trip."""
import contextlib
import io
import os
import pathlib
import shutil

from . import ser_common as sc


def _scratch(tag):
    d = os.path.join(os.environ.get("QVERIF_SCRATCH", "/tmp"), "c01", "g6" + tag)
    shutil.rmtree(d, ignore_errors=True)
    os.makedirs(d)
    return d


def _mk(cls, **kw):
    o = cls.__new__(cls)
    for k, v in kw.items():
        setattr(o, k, v)
    return o


def _save_load(obj, base, tag, store, level=4, as_path=False, mode="w"):
    from quantem.core.io import serialize
    p = os.path.join(base, tag + (".zip" if store == "zip" else "_d"))
    t = pathlib.Path(p) if as_path else p
    with contextlib.redirect_stdout(io.StringIO()):
        obj.save(t, mode=mode, store=store, compression_level=level)
        return serialize.load(t)


# ---------------------------------------------------------------------------------------------------------
def wide_cases():
    import numpy as np
    from . import ser_classes as A
    out = []
    for n in (11, 12, 101, 257):
        mixed = [("s%d" % i) if i % 2 else i for i in range(n)]                    # str/int: item by item, attrs only
        out.append((f"wide-list-{n}", lambda v=mixed: _mk(A.SA, v=list(v))))
    for n in (11, 128, 256):
        mixed = [("s%d" % i) if i % 2 else i for i in range(n)]
        out.append((f"wide-tuple-{n}", lambda v=mixed: _mk(A.SA, v=tuple(v))))

    def het(n, dense):
        # element i is recognisable whatever kind it has: arrays, strings, paths, nested lists, dicts, objects
        items = []
        for i in range(n):
            k = i % 7 if (dense or i % 5 == 0 or i in (9, 10, 11, 99, 100)) else 1 + (i % 2)
            items.append([np.array([i, -i]), f"e{i}", pathlib.Path(f"p{i}"), [i, "x"], {"i": i}, _mk(A.SB, i=i), (i, None)][k])
        return items
    out.append(("wide-het-list-11", lambda: _mk(A.SA, v=het(11, True))))
    out.append(("wide-het-list-101", lambda: _mk(A.SA, v=het(101, False))))
    out.append(("wide-het-nested-12", lambda: _mk(A.SA, d={"k": tuple(het(12, True))}, o=_mk(A.SC, inner=[het(11, True), "t"]))))
    out.append(("wide-set-40", lambda: _mk(A.SA, v={f"m{i}" for i in range(40)} | {(i, "t") for i in range(12)})))
    out.append(("wide-dict-120", lambda: _mk(A.SA, v={f"k{i}": (i if i % 3 else [i, "a"]) for i in range(120)})))
    out.append(("wide-dict-intlike-keys", lambda: _mk(A.SA, v={str(i): f"v{i}" for i in range(0, 130, 3)})))
    out.append(("wide-object-130", lambda: _mk(A.SA, **{f"a{i}": (np.array([i]) if i % 10 == 0 else i) for i in range(130)})))
    # all-numeric sequences (ndarray fast path): lengths and VALUES beyond one byte / int16 / float32-exact range
    out.append(("numeric-seq-300", lambda: _mk(A.SA, v=list(range(-40, 260)), w=tuple(float(i) / 4 for i in range(300)))))
    out.append(("numeric-seq-big-values", lambda: _mk(A.SA, v=[127, 128, 255, 256, 32767, 32768, 65535, 65536, 2 ** 24, 2 ** 24 + 1,
                                                                 2 ** 31 - 1, 2 ** 31, -2 ** 31 - 1, 2 ** 53 + 1, -(2 ** 63), 2 ** 63 - 1],
                                                    s={-3, 256, 70000, 2 ** 24 + 1})))
    out.append(("numeric-seq-negatives", lambda: _mk(A.SA, v=[-1, -2.5, -0.0, 3], w=(-1, -128, -129, -32769), b=[True, False, True])))
    return out


def layout_cases():
    import numpy as np
    import torch
    from . import ser_classes as A
    out = []
    base3 = np.arange(24, dtype=np.float32).reshape(2, 3, 4)
    tall = np.arange(15, dtype=np.int16).reshape(5, 3) - 7        # H > W, negative values
    wide = np.arange(15, dtype=np.int16).reshape(3, 5) - 7        # H < W
    views = {
        "T3": lambda: base3.T, "F3": lambda: np.asfortranarray(base3), "tr201": lambda: base3.transpose(2, 0, 1),
        "tr120": lambda: base3.transpose(1, 2, 0), "neg": lambda: base3[::-1, :, ::-2], "step": lambda: base3[:, ::2, 1::2],
        "tallT": lambda: tall.T, "wideT": lambda: wide.T, "tallF": lambda: np.asfortranarray(tall), "wideF": lambda: np.asfortranarray(wide),
        "flipud": lambda: np.flipud(tall), "fliplr": lambda: np.fliplr(wide), "bcast": lambda: np.broadcast_to(np.arange(3), (4, 3)),
        "complexT": lambda: (np.arange(6).reshape(2, 3) * (1 - 2j)).T, "boolT": lambda: (np.arange(6).reshape(2, 3) % 2 == 0).T,
        "strT": lambda: np.array([["a", "bc", "d"], ["e", "f", "ghi"]]).T, "emptyF": lambda: np.zeros((0, 3), order="F"),
        "emptyT": lambda: np.zeros((2, 0, 5)).T, "col": lambda: tall[:, 1], "row-of-F": lambda: np.asfortranarray(wide)[1],
    }
    for name, f in views.items():
        out.append((f"layout-attr-{name}", lambda f=f: _mk(A.SA, a=f())))
    out.append(("layout-in-list", lambda: _mk(A.SA, v=[base3.T, "x", np.asfortranarray(tall), base3.transpose(2, 0, 1)])))
    out.append(("layout-in-tuple", lambda: _mk(A.SA, v=(tall.T, wide.T, None, base3[::-1, :, ::-2]))))
    out.append(("layout-in-dict", lambda: _mk(A.SA, v={"t": base3.T, "f": np.asfortranarray(wide), "n": np.flipud(tall)})))
    out.append(("layout-in-object", lambda: _mk(A.SA, o=_mk(A.SB, a=wide.T, b=[_mk(A.SC, c=base3.transpose(1, 2, 0))]))))
    out.append(("layout-same-array-twice", lambda: (lambda a: _mk(A.SA, p=a, q=a.T, r=[a.T, a]))(np.asfortranarray(tall))))
    # tensors that are not contiguous / views of a larger storage / expanded
    tt = torch.arange(12, dtype=torch.float32).reshape(3, 4) - 5
    out.append(("layout-tensor-T", lambda: _mk(A.SA, t=tt.T, u=[tt[:, ::2], tt.T], d={"e": tt[1:2].expand(3, 4)})))
    out.append(("layout-tensor-grad-T", lambda: _mk(A.SA, t=tt.clone().requires_grad_(True).T, p=torch.nn.Parameter(tt.T.clone(), requires_grad=False))))
    # sizes: more than one zarr chunk / more than 64 KiB of payload / axis lengths beyond 255 and 65535
    out.append(("size-array-300x400", lambda: _mk(A.SA, a=(np.arange(120000, dtype=np.int32).reshape(300, 400) - 60000).T)))
    out.append(("size-array-70000", lambda: _mk(A.SA, a=np.arange(70000, dtype=np.uint16), b=[np.arange(70000, dtype=np.float64)[::-1], "x"])))
    out.append(("size-empty-shapes", lambda: _mk(A.SA, a=np.zeros((300, 0)), b=np.zeros((0, 70000), dtype=np.int8), c=[np.zeros((2, 0, 257), dtype=bool), 1],
                                                 d=np.zeros((0,), dtype="<U5"))))
    out.append(("size-bytes-70000", lambda: _mk(A.SA, b=bytes(range(256)) * 274, s="x" * 70000, t=torch.arange(70000, dtype=torch.int32))))
    return out


def set_cases():
    """sets of the hashable kinds the random generator does not put into sets: dill-fallback values (stored as arrays),
    NumPy scalars, objects / tensors / modules / loggers / generators (hashable by identity) — the sub-group and
    array branches of the set restoration loop"""
    import logging
    import numpy as np
    import torch
    from . import ser_classes as A
    out = []
    out.append(("sets-fallback", lambda: _mk(A.SA, s={1j, b"ab", frozenset({1, 2}), "a"}, t=[{2.5 - 1j, "z"}, "x"])))
    out.append(("sets-npnumeric", lambda: _mk(A.SA, s={np.float32(0.5), np.int16(-3), 7}, d={"k": {"u", None, 2 ** 40}})))
    out.append(("sets-objects", lambda: _mk(A.SA, s={_mk(A.SB, i=1, a=np.arange(3)), _mk(A.SC, i=2)}, l=[{_mk(A.SA, n=None)}])))
    out.append(("sets-torch", lambda: _mk(A.SA, s={torch.arange(3.0), "m"}, t={torch.nn.Linear(2, 1), 5})))
    out.append(("sets-rng-logger", lambda: _mk(A.SA, s={np.random.default_rng(1), logging.getLogger("qv.a"), "r"}, t={("k", 1), pathlib.Path("p/q")})))
    return out


def _class_sig(x, path="$"):
    """(path, module, qualname) of every AutoSerialize object in the graph, in a canonical order"""
    from quantem.core.io.serialize import AutoSerialize
    out = []
    if isinstance(x, AutoSerialize):
        out.append([path, type(x).__module__, type(x).__qualname__])
        for k in sorted(vars(x)):
            out += _class_sig(vars(x)[k], f"{path}.{k}")
    elif isinstance(x, (list, tuple)):
        for i, e in enumerate(x):
            out += _class_sig(e, f"{path}[{i}]")
    elif isinstance(x, dict):
        for k in sorted(x, key=str):
            out += _class_sig(x[k], f"{path}.{k}")
    return out


def class_cases():
    from . import ser_classes as A
    from . import ser_classes_b as B
    out = []
    out.append(("classes-A-root", lambda: _mk(A.SA, x=_mk(B.SA, n=1), y=_mk(A.SB, n=2), z=_mk(A.SA, n=3),
                                              l=[_mk(B.SB, n=3), _mk(A.SB, n=4), _mk(B.SA, n=5), _mk(A.SA, n=6)],
                                              d={"p": _mk(B.SA, n=7), "q": _mk(A.SA, n=8)})))
    out.append(("classes-B-root", lambda: _mk(B.SA, x=_mk(A.SA, n=1), y=_mk(B.SA, n=2),
                                              l=(_mk(A.SA, n=3), _mk(B.SA, n=4), _mk(A.SA, n=5)),
                                              d={"p": _mk(A.SB, n=7), "q": _mk(B.SB, n=8), "r": [_mk(B.SB, n=9), _mk(A.SB, n=10)]})))
    out.append(("classes-deep", lambda: _mk(A.SB, o=_mk(B.SB, o=_mk(A.SB, o=_mk(B.SB, o=_mk(A.SA, o=_mk(B.SA, n=0))))))))
    return out


# ---------------------------------------------------------------------------------------------------------
def _check_graph(ctx, drv, name, make, base, use_model=True, extra=None):
    """save/load `make()` on both stores (alternating level / path type), property equality, store agreement,
    fixed point, model round trip"""
    from qv.jdiff import first_diff
    case = {"g6": name}
    src = make()
    spec = sc.observe(src)
    obs = []
    cfgs = [("zip", 4, False), ("dir", None, True)]
    for ci, (store, level, as_path) in enumerate(cfgs):
        ctx.count()
        try:
            back = _save_load(src, base, f"{ci}", store, level, as_path)
            o = sc.observe(back)
            d = sc.prop_equal(spec, o)
            if d:
                ctx.pred_fail(f"g6:{name.split('-')[0]}:roundtrip", f"loaded graph differs from the saved one at {d[0]} ({name}, {store})", case,
                              observed=sc.short(d[2]), required=sc.short(d[1]))
            if extra is not None:
                e_src, e_back = extra(src), extra(back)
                if e_src != e_back:
                    fd = first_diff(e_src, e_back)
                    ctx.pred_fail(f"g6:{name.split('-')[0]}:class", f"an object came back in another class ({name}, {store})", case,
                                  observed=sc.short(fd), required="same module and qualname for every object")
            # fixed point (of the first configuration), through the OTHER store
            other = "dir" if store == "zip" else "zip"
            back2 = _save_load(back, base, f"{ci}b", other, 0 if level is None else 9, not as_path) if ci == 0 else back
            o2 = sc.observe(back2)
            if sc.canon_order(o2) != sc.canon_order(o) or (extra is not None and extra(back2) != extra(back)):
                ctx.pred_fail(f"g6:{name.split('-')[0]}:fixed-point", f"saving the loaded object again and reloading is not a fixed point ({name})", case,
                              observed=sc.short(first_diff(sc.canon_order(o), sc.canon_order(o2))), required="identical graph")
            obs.append(sc.canon_order(o))
        except Exception as e:  # noqa
            ctx.pred_fail(f"g6:{name.split('-')[0]}:raises:{type(e).__name__}", f"save/load of a supported object graph raised ({name}, {store})", case,
                          observed=f"{type(e).__name__}: {str(e)[:160]}", required="round trip")
        finally:
            for t in (f"{ci}", f"{ci}b"):
                shutil.rmtree(os.path.join(base, t + "_d"), ignore_errors=True)
                for ext in (".zip",):
                    with contextlib.suppress(OSError):
                        os.remove(os.path.join(base, t + ext))
    if len(obs) == 2 and obs[0] != obs[1]:
        ctx.pred_fail(f"g6:{name.split('-')[0]}:store-dependent", f"zip and dir stores give different results ({name})", case,
                      observed=sc.short(first_diff(obs[0], obs[1])), required="identical")
    if use_model and obs:
        m = drv.ask({"op": "roundtrip", "v": spec})
        if "ok" not in m or sc.canon_order(m["ok"]) != obs[0]:
            ctx.disagree("g6-roundtrip", case, sc.short(sc.canon_order(m["ok"])) if "ok" in m else m, sc.short(obs[0]),
                         note="Lean model round trip vs real save()/load() on a fixed case")
    ctx.mark(("g6", name))
    ctx.dist["g6:" + name.split("-")[0]] += 1


def dtype_block(ctx, base):
    """dtype classes outside the random generator.  `must` = decided to be inside the property ("NumPy arrays of any
    dtype") and to hold; `finding` = inside the property and recorded as failing (known_findings.txt)."""
    import numpy as np
    from . import ser_classes as A
    must = {
        "datetime64-D": np.array(["2020-01-01", "1969-12-31", "NaT"], dtype="datetime64[D]"),
        "datetime64-ns": np.array(["2020-01-01T00:00:00.000000001", "2262-01-01"], dtype="datetime64[ns]").reshape(2, 1),
        "timedelta64-s": np.array([1, -2, 3], dtype="timedelta64[s]"),
        "structured": np.array([(1, 2.0), (-3, 4.5)], dtype=[("a", "<i4"), ("b", "<f8")]),
        "bytes-S3": np.array([b"ab", b"c", b""], dtype="S3"),
        "float16": np.array([[1.5, -2.25], [65504.0, 6e-8]], dtype=np.float16),
        "uint64-max": np.array([0, 2 ** 64 - 1], dtype=np.uint64),
        "datetime64-0d": np.array("2021-05-06", dtype="datetime64[D]"),
        "structured-empty": np.zeros((0, 2), dtype=[("a", "<i4"), ("b", "<f8")]),
    }
    finding = {
        "ndarray-dtype-not-storable": [("longdouble", np.array([1.5, 2.25], dtype=np.longdouble)),
                                       ("clongdouble", np.array([1.5 + 2j], dtype=np.clongdouble)),
                                       ("object", np.array([1, "a", None], dtype=object))],
        "npscalar-not-json-representable": [("np.longdouble", np.longdouble(1.5)), ("np.datetime64", np.datetime64("2020-01-01")),
                                            ("np.timedelta64", np.timedelta64(5, "s"))],
    }

    def sig(a):
        a = np.asarray(a)
        return [str(a.dtype), list(a.shape), np.ascontiguousarray(a).tobytes().hex()]

    for name, arr in must.items():
        for where in ("attr", "list"):
            for store in ("zip", "dir"):
                case = {"g6": "dtype-" + name, "where": where, "store": store}
                ctx.count()
                try:
                    src = _mk(A.SA, a=arr) if where == "attr" else _mk(A.SA, a=[arr, "x"])
                    back = _save_load(src, base, "dt", store)
                    got = back.a if where == "attr" else back.a[0]
                    if not isinstance(got, np.ndarray) or sig(got) != sig(arr):
                        ctx.pred_fail("g6:dtype:roundtrip", f"an array of dtype {arr.dtype} does not come back with the same dtype / shape / contents", case,
                                      observed=sc.short(sig(got)) if isinstance(got, np.ndarray) else type(got).__name__, required=sc.short(sig(arr)))
                except Exception as e:  # noqa
                    ctx.pred_fail(f"g6:dtype:raises:{type(e).__name__}", f"save/load of an array of dtype {arr.dtype} raised", case,
                                  observed=f"{type(e).__name__}: {str(e)[:120]}", required="round trip")
                finally:
                    shutil.rmtree(os.path.join(base, "dt_d"), ignore_errors=True)
                    with contextlib.suppress(OSError):
                        os.remove(os.path.join(base, "dt.zip"))
        ctx.mark(("g6", "dtype", name))
        ctx.dist["g6:dtype"] += 1
    for key, probes in finding.items():
        for name, val in probes:
            case = {"g6": "dtype-finding-" + name, "probe": key}
            ctx.count()
            try:
                back = _save_load(_mk(A.SA, a=val), base, "dtf", "zip")
                ok = (isinstance(back.a, np.ndarray) and sig(back.a) == sig(val)) if isinstance(val, np.ndarray) else \
                    (type(back.a) is type(val) and back.a == val)
                if not ok:
                    ctx.pred_fail(key, f"{name} does not come back as saved", case, observed=repr(back.a)[:80], required=repr(val)[:80])
            except Exception as e:  # noqa
                ctx.pred_fail(key, f"save/load of {name} raised", case, observed=f"{type(e).__name__}: {str(e)[:100]}", required="round trip")
            finally:
                with contextlib.suppress(OSError):
                    os.remove(os.path.join(base, "dtf.zip"))
    # a class nested in another class: the serializer stores `__qualname__` ("Outer.SA") and resolves it with one getattr
    from . import ser_classes_b as B
    case = {"g6": "classes-nested-qualname", "probe": "nested-class-qualname"}
    ctx.count()
    try:
        back = _save_load(_mk(A.SA, o=_mk(B.Outer.SA, n=1)), base, "nq", "zip")
        if type(back.o) is not B.Outer.SA:
            ctx.pred_fail("nested-class-qualname", "an object of a class defined inside another class came back in another class", case,
                          observed=type(back.o).__qualname__, required="Outer.SA")
    except Exception as e:  # noqa
        ctx.pred_fail("nested-class-qualname", "save/load of an object of a class defined inside another class raised", case,
                      observed=f"{type(e).__name__}: {str(e)[:100]}", required="round trip")
    finally:
        with contextlib.suppress(OSError):
            os.remove(os.path.join(base, "nq.zip"))


def loads_in_a_row(ctx, base):
    """ONE process, several files: root classes with the same name from two modules loaded alternately
    (class-resolution memo across load() calls), each file loaded twice"""
    from quantem.core.io import serialize
    from . import ser_classes as A
    from . import ser_classes_b as B
    files = []
    with contextlib.redirect_stdout(io.StringIO()):
        for i, (cls, inner) in enumerate([(A.SA, B.SA), (B.SA, A.SA), (A.SB, B.SB), (B.SB, A.SB)]):
            p = os.path.join(base, f"row{i}.zip") if i % 2 == 0 else os.path.join(base, f"row{i}_d")
            _mk(cls, n=i, inner=_mk(inner, n=10 + i), l=[_mk(inner, n=20 + i), _mk(cls, n=30 + i)]).save(p)
            files.append((p, cls, inner))
        order = [0, 1, 0, 2, 3, 1, 3, 2]
        for step, i in enumerate(order):
            p, cls, inner = files[i]
            ctx.count()
            case = {"g6": "classes-loads-in-a-row", "step": step, "file": i}
            try:
                b = serialize.load(p)
                got = [type(b), type(b.inner), type(b.l[0]), type(b.l[1])]
                want = [cls, inner, inner, cls]
                if got != want or b.n != i or b.inner.n != 10 + i:
                    ctx.pred_fail("g6:classes:class", "objects of same-named classes from two modules came back in the wrong class", case,
                                  observed=[f"{t.__module__}.{t.__qualname__}" for t in got], required=[f"{t.__module__}.{t.__qualname__}" for t in want])
            except Exception as e:  # noqa
                ctx.pred_fail(f"g6:classes:raises:{type(e).__name__}", "load raised", case, observed=str(e)[:120], required="round trip")
    ctx.mark(("g6", "classes-loads-in-a-row"))


ENTRY_KINDS = ["none", "file", "emptydir", "dir", "link-dir", "link-file", "link-dangling"]


def _make_entry(path, kind, base):
    if kind == "file":
        open(path, "w").write("foreign")
    elif kind == "emptydir":
        os.makedirs(path)
    elif kind == "dir":
        os.makedirs(os.path.join(path, "sub"))
        open(os.path.join(path, "sub", "f.txt"), "w").write("foreign")
    elif kind.startswith("link"):
        tgt = os.path.join(base, "lt_" + os.path.basename(path))
        if kind == "link-dir":
            os.makedirs(os.path.join(tgt, "sub"))
        elif kind == "link-file":
            open(tgt, "w").write("foreign")
        os.symlink(tgt, path)


def _entry_kind(path):
    if os.path.islink(path):
        return "link-dangling" if not os.path.exists(path) else ("link-dir" if os.path.isdir(path) else "link-file")
    if os.path.isdir(path):
        return "dir" if os.listdir(path) else "emptydir"
    return "file" if os.path.lexists(path) else "none"


def saveonto_block(ctx, drv, base):
    """model `saveOnto` (resolveSave + encode + SaveInstall.install + load) vs the real save() onto every kind of
    directory entry; predicate: an admissible call (target absent or mode 'o') succeeds and loads back the graph"""
    from quantem.core.io import serialize
    from . import ser_classes as A
    src = _mk(A.SA, n=3, s=["a", 1, None], a=__import__("numpy").arange(4))
    spec = sc.observe(src)
    levels = [None, 0, 9, 4]
    i = 0
    for kind in ENTRY_KINDS:
        for store in ("zip", "dir"):
            for mode in ("w", "o"):
                i += 1
                level = levels[i % 4]
                name = f"so{i}" + (".zip" if store == "zip" else "")
                path = os.path.join(base, name)
                _make_entry(path, kind, base)
                case = {"g6": "saveonto", "pre": kind, "store": store, "mode": mode, "level": level}
                ctx.count()
                m = drv.ask({"op": "saveonto", "pre": kind, "v": spec, "path": name, "mode": mode, "store": store, "level": level})
                try:
                    with contextlib.redirect_stdout(io.StringIO()):
                        src.save(pathlib.Path(path) if i % 2 else path, mode=mode, store=store, compression_level=level)
                    after = _entry_kind(path)
                    try:
                        with contextlib.redirect_stdout(io.StringIO()):
                            back = sc.canon_order(sc.observe(serialize.load(path)))
                    except Exception as e:  # noqa
                        back = "load-raised:" + type(e).__name__
                    impl = {"kind": after, "loaded": back}
                except Exception as e:  # noqa
                    impl = {"err": type(e).__name__}
                    after = _entry_kind(path)
                    if after != kind:
                        ctx.pred_fail("g6:saveonto:rejected-call-changed-target", "a save() that raised changed what is at the target", case,
                                      observed=after, required=kind)
                if "ok" in m:
                    model = {"kind": m["ok"]["kind"], "loaded": sc.canon_order(m["ok"]["loaded"]) if m["ok"]["loaded"] is not None else None}
                else:
                    model = {"err": m.get("err")}
                if model != impl:
                    ctx.disagree("g6-saveonto", case, sc.short(model), sc.short(impl), note="saveOnto (argument checks + _install on entry kinds + load) vs real save()/load()")
                admissible = (kind == "none" or mode == "o")
                if admissible and (impl.get("loaded") != sc.canon_order(spec) or impl.get("kind") != ("file" if store == "zip" else "dir")):
                    ctx.pred_fail("g6:saveonto:admissible-save-fails", f"save(mode={mode!r}, store={store!r}) onto a target that is {kind} does not leave the saved graph there",
                                  case, observed=sc.short(impl), required="the saved graph, as a " + ("file" if store == "zip" else "directory"))
                ctx.mark(("g6", "saveonto", kind, store, mode))
                ctx.dist["g6:saveonto"] += 1


def fixed_stream(ctx, drv, only=None):
    import torch
    torch.set_num_threads(1)
    base = _scratch("")
    try:
        for name, make in wide_cases() + layout_cases() + set_cases():
            if only is None or only == name:
                _check_graph(ctx, drv, name, make, base)
        for name, make in class_cases():
            if only is None or only == name:
                _check_graph(ctx, drv, name, make, base, use_model=True, extra=_class_sig)
        if only is None or only.startswith("classes"):
            loads_in_a_row(ctx, base)
        if only is None or only.startswith("dtype") or only.startswith("classes-nested"):
            dtype_block(ctx, base)
        if only is None or only == "saveonto":
            saveonto_block(ctx, drv, base)
    finally:
        shutil.rmtree(base, ignore_errors=True)
