"""C19 — configuration store: correspondence with Model/Config.lean + last-writer-wins
reference-map predicate evaluated on the real quantem.core.config."""
import copy
import json

LEVEL = "proof"
MANIFEST_ENTRY = {
    "category": "proof",
    "text": "Lean 4 theorems over an executable model of config.py (assoc-list dicts, canonical '-'/'_' names, _assign with undo record, update/merge/refresh, device validation): get-after-set under the same and under the other '-'/'_' spelling (`get_assign_twin`, altKey involution), sibling preservation (frame), with-block exit restores the exact previous configuration for every assignment list, rejected device leaves state untouched, refresh = merge of defaults and idempotent; and over WHOLE HISTORIES of set / with / update_defaults / refresh calls, raising or not (`hstep`/`hrun`, the transition function the driver itself runs): last writer wins (`lww_history`), also when the path is read with every component in its other spelling (`lww_history_twin`, from the `WellKeyed` invariant preserved by every operation), with-blocks are no-ops, the defaults list only grows, refresh after any history = merge of the accumulated defaults. The model is tied to the code on every run by an order-sensitive differential run of random op sequences, and a last-writer-wins reference map is evaluated on the real module as the failing-input search.",
    "note": "Trusted: Lean kernel + propext/Classical.choice/Quot.sound; the hand model is validated only by sampled correspondence; torch.device parsing and cuda/mps availability are parameters; yaml collection is made empty; keys mixing '-' and '_' are outside the twin-spelling claims.",
    "technique": "Lean 4 proof (induction over key paths / op lists) + model-vs-implementation correspondence",
}
RULE = ("random op sequences (set mapping/kwargs, with-set, get, update_defaults, refresh, device requests) over a small "
        "key alphabet with '-'/'_' twins; a case is one op applied to a state; distinct non-trivial = distinct "
        "(op kind, outcome, nesting depth, twin-spelling used, state size bucket) with a non-empty state")
TRUSTED = ["torch.device() string parsing and torch.cuda/mps availability (parameters of validateDevice)",
           "yaml collection made empty via QUANTEM_CONFIG (hermetic)"]
ASSUMPTIONS = ["keys with both '-' and '_' are outside the twin-spelling theorems (altKey is not an involution there); they are still exercised by the correspondence"]
EXPLANATION = ("Theorems in Props/C19.lean are about Model/Config.lean; every run drives the real config module and the model "
               "with the same op sequences and compares results, error kinds and the full config (order-sensitive).")

TD = "torch.device:"   # sentinel spelling of a torch.device object inside the (JSON) op lists
SEGS = ["a", "b", "a_b", "a-b", "c_d", "c-d", "k", "viz", "dtype_real", "dtype-real", "mkl", "threads", "m-n_o"]
DEVICES = ["cpu", "CPU", "cuda", "cuda:0", "cuda:1", "gpu", "GPU", "mps", "xcpux", "cpu:0", "tpu", "", "Cuda:0", "xcuda",
           -1, 0, 1, 5, True, None, 1.5, ["cpu"], "my-cpu-box", "Mps",
           # torch.device objects (a documented input form of validate_device)
           TD + "cpu", TD + "cpu:0", TD + "mps", TD + "mps:0", TD + "cuda", TD + "cuda:1", TD + "meta"]


def real(v):
    """the Python value an op-list value stands for (torch.device objects are spelled as strings there)"""
    if isinstance(v, str) and v.startswith(TD):
        import torch
        return torch.device(v[len(TD):])
    if isinstance(v, dict):
        return {k: real(x) for k, x in v.items()}
    return copy.deepcopy(v)


def to_tree(v):
    if isinstance(v, dict):
        return {"d": [[k, to_tree(x)] for k, x in v.items()]}
    if isinstance(v, str) and v.startswith(TD):
        v = real(v)
    if type(v).__name__ == "device" and type(v).__module__ == "torch":
        return {"l": {"torchdev": [v.type, v.index]}}
    return {"l": v}


def gen_leaf(rng):
    return rng.weighted([(0, 2), (1, 2), (2, 2), (7, 2), (True, 1), (False, 1), (None, 1), ("s", 2), ("", 1), ("float32", 1),
                         ([1, 2], 1), ([], 1), (["x", "y"], 1)])


def gen_value(rng, depth=0):
    if depth < 2 and rng.chance(0.25):
        n = rng.randint(0, 3)
        d = {}
        for _ in range(n):
            k = rng.choice(SEGS[:9])
            # keep literal values twin-free (a user dict holding both spellings is outside the claim)
            if k.replace("-", "_") in [x.replace("-", "_") for x in d]:
                continue
            d[k] = gen_value(rng, depth + 1)
        return d
    return gen_leaf(rng)


def gen_path(rng):
    n = rng.weighted([(1, 5), (2, 4), (3, 2)])
    return [rng.choice(SEGS) for _ in range(n)]


def gen_op(rng, touched):
    kind = rng.weighted([("set", 6), ("set_kw", 2), ("with", 3), ("get", 4), ("update_defaults", 3), ("refresh", 1),
                         ("device", 3), ("device_nested", 1)])
    if kind in ("set", "with"):
        items = []
        for _ in range(rng.randint(1, 3)):
            p = rng.choice(touched) if touched and rng.chance(0.4) else gen_path(rng)
            if rng.chance(0.3):   # use the other spelling of a known path
                p = [alt(s) if rng.chance(0.5) else s for s in p]
            items.append([".".join(p), gen_value(rng)])
        kw = []
        if rng.chance(0.3):
            p = gen_path(rng)
            p = [s for s in p if "-" not in s and "." not in s] or ["k"]
            kw.append(["__".join(p), gen_value(rng)])
        if rng.chance(0.15):
            items.insert(rng.randint(0, len(items)), ["device", rng.choice(DEVICES)])
        seen, ded = set(), []
        for k, v in items:     # a mapping literal cannot hold one key twice
            if k not in seen:
                seen.add(k)
                ded.append([k, v])
        return {"op": kind, "arg": ded, "kwargs": kw}
    if kind == "set_kw":
        p = [s for s in gen_path(rng) if "-" not in s] or ["k"]
        return {"op": "set", "arg": [], "kwargs": [["__".join(p), gen_value(rng)]]}
    if kind == "get":
        p = rng.choice(touched) if touched and rng.chance(0.7) else gen_path(rng)
        if rng.chance(0.4):
            p = [alt(s) for s in p]
        if rng.chance(0.2):
            p = p + [rng.choice(SEGS)]
        o = {"op": "get", "key": ".".join(p)}
        if rng.chance(0.3):
            o["default"] = "DFLT"
        return o
    if kind == "update_defaults":
        d = {}
        for _ in range(rng.randint(1, 3)):
            p = rng.choice(touched) if touched and rng.chance(0.5) else gen_path(rng)
            cur = d
            ok = True
            for s in p[:-1]:
                nk = [x for x in cur if x.replace("-", "_") == s.replace("-", "_")]
                s = nk[0] if nk else s
                if s in cur and not isinstance(cur[s], dict):
                    ok = False
                    break
                cur = cur.setdefault(s, {})
            if ok:
                last = p[-1]
                nk = [x for x in cur if x.replace("-", "_") == last.replace("-", "_")]
                last = nk[0] if nk else last
                if not isinstance(cur.get(last), dict):
                    cur[last] = gen_leaf(rng)
        if rng.chance(0.1):
            d["device"] = rng.choice(DEVICES)
        return {"op": "update_defaults", "new": d}
    if kind == "refresh":
        return {"op": "refresh"}
    if kind == "device":
        # the same request through its alternative entry points: set({"device": v}), set(device=v), set_device(v)
        via = rng.choice(["arg", "kw", "set_device"])
        v = rng.choice(DEVICES)
        if via == "kw":
            return {"op": "set", "arg": [], "kwargs": [["device", v]]}
        return dict({"op": "set", "arg": [["device", v]], "kwargs": []}, **({"via": "set_device"} if via == "set_device" else {}))
    return {"op": "set", "arg": [["viz.device", rng.choice(DEVICES)]], "kwargs": []}


def alt(k):
    return k.replace("_", "-") if "_" in k else k.replace("-", "_")


def uniform(k):
    return not ("_" in k and "-" in k)


ERRS = {"TypeError": "TypeError", "KeyError": "KeyError", "ValueError": "ValueError", "RuntimeError": "RuntimeError",
        "IndexError": "IndexError", "AttributeError": "AttributeError"}


def err_name(e):
    return ERRS.get(type(e).__name__, "Other:" + type(e).__name__)


# ---------------------------------------------------------------------------------------
# reference last-writer-wins map on normalised keys (the property's own oracle)

def nk(k):
    return k.replace("-", "_")


def norm(v):
    if isinstance(v, dict):
        return {nk(k): norm(x) for k, x in v.items()}
    return v


def twin_free(v):
    if isinstance(v, dict):
        ks = [nk(k) for k in v]
        return len(ks) == len(set(ks)) and all(twin_free(x) for x in v.values())
    return True


def all_uniform(v):
    if isinstance(v, dict):
        return all(uniform(k) and all_uniform(x) for k, x in v.items())
    return True


def ref_merge(old, new):
    for k, v in new.items():
        if isinstance(v, dict):
            if not isinstance(old.get(k), dict):
                old[k] = {}
            ref_merge(old[k], v)
        else:
            old[k] = v
    return old


def ref_update_defaults(cfg, new, cur_defaults):
    for k, v in new.items():
        if isinstance(v, dict):
            if not isinstance(cfg.get(k), dict):
                cfg[k] = {}
            d = cur_defaults.get(k) if isinstance(cur_defaults, dict) else None
            ref_update_defaults(cfg[k], v, d if isinstance(d, dict) else {})
        else:
            if k not in cfg or (isinstance(cur_defaults, dict) and k in cur_defaults and cur_defaults[k] == cfg[k]):
                cfg[k] = v


def ref_device(v):
    """accepted device strings on a machine without cuda/mps: exactly 'cpu' in any case, or None (→ cpu)"""
    if v is None:
        return "cpu"
    if isinstance(v, str) and v.startswith(TD):
        return "cpu" if real(v).type == "cpu" else None
    if isinstance(v, str) and v.lower() == "cpu":
        return "cpu"
    return None  # rejected


class Ref:
    def __init__(self, cfg, defaults):
        self.cfg = norm(copy.deepcopy(cfg))
        self.defaults = [norm(copy.deepcopy(d)) for d in defaults]
        self.valid = True  # becomes False when the history leaves the spec's domain

    def assign(self, path, v):
        d = self.cfg
        for s in path[:-1]:
            if s not in d:
                d[s] = {}
            if not isinstance(d[s], dict):
                return "TypeError"
            d = d[s]
        d[path[-1]] = norm(real(v))
        return None


def device_available():
    import torch
    return {"cuda": bool(torch.cuda.is_available()), "mps": bool(torch.mps.is_available()), "n": int(torch.cuda.device_count())}


def run_sequence(ctx, drv, cfgmod, ops, init, env, module_state):
    init_cfg, init_defaults = (copy.deepcopy(module_state[0]), copy.deepcopy(module_state[1])) if init == "module" else ({}, [])
    """returns the first event worth reporting, or None"""
    # --- reset the real module and the model to the same state
    cfgmod.config.clear()
    cfgmod.config.update(copy.deepcopy(init_cfg))
    cfgmod.defaults[:] = copy.deepcopy(init_defaults)
    r = drv.ask({"op": "init", "env": env, "config": to_tree(init_cfg), "defaults": [to_tree(d) for d in init_defaults]})
    assert "err" not in r, r
    ref = Ref(init_cfg, init_defaults)
    if env["cuda"] or env["mps"]:
        ref.valid = False
    model_ok = True
    for i, op in enumerate(ops):
        before = copy.deepcopy(cfgmod.config)
        dev_before = before.get("device", "<absent>")
        kind = op["op"]
        res = None
        inside = None
        try:
            if kind == "set":
                if op.get("via") == "set_device":
                    cfgmod.set_device(real(op["arg"][0][1]))
                else:
                    cfgmod.set(dict((k, real(v)) for k, v in op["arg"]), **{k: real(v) for k, v in op["kwargs"]})
                res = {"ok": None}
            elif kind == "with":
                with cfgmod.set(dict((k, real(v)) for k, v in op["arg"]), **{k: real(v) for k, v in op["kwargs"]}):
                    inside = copy.deepcopy(cfgmod.config)
                res = {"ok": {"inside": to_tree(inside)}}
            elif kind == "get":
                if "default" in op:
                    v = cfgmod.get(op["key"], op["default"])
                    # the model distinguishes "found" from "default"; do the same here
                    try:
                        v2 = cfgmod.get(op["key"])
                        res = {"ok": to_tree(v2)}
                    except (TypeError, IndexError, KeyError):
                        res = {"ok": {"default": v}}
                else:
                    res = {"ok": to_tree(cfgmod.get(op["key"]))}
            elif kind == "update_defaults":
                cfgmod.update_defaults(real(op["new"]))
                res = {"ok": None}
            elif kind == "refresh":
                cfgmod.refresh()
                res = {"ok": None}
        except Exception as e:  # noqa
            res = {"err": err_name(e)}
            exc = e
        after = copy.deepcopy(cfgmod.config)
        if "device" in after:
            # the three readers of the stored device agree
            readers = {"get": cfgmod.get("device"), "get_device": cfgmod.get_device(), "device": cfgmod.device()}
            if len({json.dumps(v, default=str) for v in readers.values()}) != 1 or readers["get"] != after["device"]:
                ctx.pred_fail("device-readers-disagree", "get('device'), get_device() and device() do not return the stored device",
                              {"init": init, "ops": ops[: i + 1], "env": env}, observed={k: str(v) for k, v in readers.items()}, required=str(after["device"]))
        # --- model
        mreq = {k: (v if k not in ("arg", "kwargs") else [[a, to_tree(b)] for a, b in v]) for k, v in op.items() if k != "via"}
        if kind == "update_defaults":
            mreq["new"] = to_tree(op["new"])
        m = drv.ask(mreq)
        ctx.count()
        depth = max([len(k.split(".")) for k, _ in op.get("arg", [])] + [len(op.get("key", "").split("."))])
        twin = any("-" in k or "_" in k for k, _ in op.get("arg", [])) or "-" in op.get("key", "")
        if before:
            ctx.mark((kind, "err" if "err" in res else "ok", depth, twin, min(len(json.dumps(before, default=str)) // 200, 5)))
        ctx.dist[f"op:{kind}"] += 1
        ctx.dist["outcome:" + (res.get("err") or "ok")] += 1
        impl_view = {"r": res, "cfg": to_tree(after), "ndefaults": len(cfgmod.defaults)}
        if "driver" in str(m.get("err", "")):
            raise RuntimeError(f"driver error {m}")
        stop = False
        if model_ok and m != json.loads(json.dumps(impl_view)):
            ctx.disagree("config-ops", {"init": init, "ops": ops[: i + 1]}, m, impl_view,
                         note=f"op #{i} {kind}")
            # the model has diverged: stop comparing with it, but keep driving the real module so
            # that the property predicates can still find a failing input later in the history
            model_ok = False
        # --- property predicates on the implementation --------------------------------
        case = {"init": init, "ops": ops[: i + 1], "env": env}
        if kind in ("set", "with"):
            items = [(k, v) for k, v in op["arg"]] + [(k.replace("__", "."), v) for k, v in op["kwargs"]]
            if not all(all(uniform(s) for s in k.split(".")) and all_uniform(v) and twin_free(v) for k, v in items):
                ref.valid = False
            failed_dev = False
            applied = []
            for k, v in items:
                if k == "device":
                    dv = ref_device(v) if not isinstance(v, dict) else None
                    if dv is None:
                        failed_dev = True
                        break
                    v = dv
                path = [nk(s) for s in k.split(".")]
                if ref.valid:
                    e = ref.assign(path, v)
                    if e:
                        ref.valid = False  # TypeError on a leaf intermediate: outside the map spec
                        break
                applied.append((k, v))
            if failed_dev:
                # rejected request must raise and must leave the stored device unchanged
                if "err" not in res:
                    ctx.pred_fail("device-accepts-malformed", "malformed/unavailable device request was accepted",
                                  case, observed={"device": after.get("device")}, required="rejection (exception), device unchanged")
                elif after.get("device", "<absent>") != dev_before:
                    ctx.pred_fail("device-changed-on-reject", "rejected device request changed the stored device",
                                  case, observed=after.get("device"), required=dev_before)
            if kind == "with":
                if "err" in res and not failed_dev and ref.valid:
                    ctx.pred_fail("ctx-manager-raises", f"`with config.set(...)` raised {res['err']}", case,
                                  observed=res, required="values applied inside the block, previous values restored on exit")
                    ref.valid = False
                elif "err" not in res:
                    if ref.valid and norm(inside) != ref.cfg:
                        ctx.pred_fail("ctx-inside", "values not applied inside the with block", case, observed=inside, required=ref.cfg)
                    if after != before or list(after.keys()) != list(before.keys()):
                        ctx.pred_fail("ctx-restore", "with-block exit did not restore the previous configuration", case,
                                      observed=after, required=before)
                    ref.cfg = norm(copy.deepcopy(before))
                elif failed_dev:
                    pass
            if ref.valid and kind == "set" and "err" not in res:
                # last-writer-wins: every item readable under both spellings
                for k, v in applied:
                    for spell in (k, ".".join(alt(s) for s in k.split("."))):
                        try:
                            got = cfgmod.get(spell)
                        except Exception as e:  # noqa
                            got = f"<{type(e).__name__}>"
                        later = [kk for kk, _ in applied[applied.index((k, v)) + 1:]]
                        if any(nk(kk).startswith(nk(k)) or nk(k).startswith(nk(kk)) for kk in later):
                            continue
                        if norm(got) != norm(real(v)):
                            ctx.pred_fail("get-after-set", f"get({spell!r}) after set({k!r}) does not return the value set", case,
                                          observed=got, required=v)
        elif kind == "update_defaults":
            new = op["new"]
            if not (all_uniform(new) and twin_free(new)):
                ref.valid = False
            dv_bad = "device" in new and (isinstance(new["device"], dict) or ref_device(new["device"]) is None)
            if dv_bad:
                if "err" not in res:
                    ctx.pred_fail("device-accepts-malformed", "malformed/unavailable device default was accepted", case,
                                  observed=after.get("device"), required="rejection")
                elif after.get("device", "<absent>") != dev_before:
                    ctx.pred_fail("device-changed-on-reject", "rejected device default changed the stored device", case,
                                  observed=after.get("device"), required=dev_before)
            elif ref.valid and "err" not in res:
                n = norm(copy.deepcopy(new))
                if "device" in n:
                    n["device"] = ref_device(n["device"])
                cur = {}
                for d in ref.defaults:
                    ref_merge(cur, copy.deepcopy(d))
                ref.defaults.append(n)
                ref_update_defaults(ref.cfg, copy.deepcopy(n), cur)
            elif "err" in res:
                ref.valid = False
        elif kind == "refresh" and ref.valid and "err" not in res:
            cur = {}
            for d in ref.defaults:
                ref_merge(cur, copy.deepcopy(d))
            ref.cfg = cur
        elif kind == "refresh" and ref.valid and "err" in res:
            # every default the reference map holds was accepted: refresh must restore them
            ctx.pred_fail("refresh-raises", f"refresh raised {res['err']} although every accumulated default had been accepted "
                          "(a rejected request must leave the store unchanged)", case, observed=res,
                          required="configuration = merge of the accumulated defaults")
            ref.valid = False
        if ref.valid and "err" not in res and kind != "get":
            if norm(after) != ref.cfg:
                ctx.pred_fail(f"lww-map-{kind}", f"configuration after {kind} differs from the last-writer-wins reference map",
                              case, observed=norm(after), required=ref.cfg)
                ref.valid = False
        if kind == "get" and ref.valid:
            path = [nk(s) for s in op["key"].split(".")]
            cur = ref.cfg
            found = True
            for s in path:
                if isinstance(cur, dict) and s in cur:
                    cur = cur[s]
                else:
                    found = False
                    break
            if all(uniform(s) for s in op["key"].split(".")):
                if found and ("err" in res or norm_tree(res.get("ok")) != to_tree(cur)):
                    ctx.pred_fail("get-lww", "get does not return the most recently set value", case, observed=res, required=cur)
                if not found and "err" not in res and "default" not in (res.get("ok") or {}):
                    ctx.pred_fail("get-phantom", "get returned a value for a key never set", case, observed=res, required="KeyError/default")
        if ctx.samples is not None and i == len(ops) - 1:
            ctx.sample({"init": "module defaults" if init_defaults else "empty", "ops": ops[:6], "final_result": res}, limit=3)
        if stop:
            break
    return None


def denorm_like(v):
    return v


def norm_tree(t):
    if t is None:
        return None
    if "d" in t:
        return {"d": [[nk(k), norm_tree(v)] for k, v in t["d"]]}
    return t


def _module():
    from quantem.core import config as cfgmod
    return cfgmod


def run(ctx):
    from qv.driver import Driver
    cfgmod = _module()
    env = device_available()
    saved_cfg = copy.deepcopy(cfgmod.config)
    saved_defaults = copy.deepcopy(cfgmod.defaults)
    drv = Driver("C19")
    try:
        nseq = ctx.n(4000, 30000)
        for s in range(nseq):
            rng = ctx.rng.fork(s)
            init = "module" if rng.chance(0.5) else "empty"
            touched = []
            ops = []
            for _ in range(rng.randint(2, 14)):
                op = gen_op(rng, touched)
                for k, _v in op.get("arg", []):
                    touched.append(k.split("."))
                ops.append(op)
            run_sequence(ctx, drv, cfgmod, ops, init, env, (saved_cfg, saved_defaults))
    finally:
        drv.close()
        cfgmod.config.clear()
        cfgmod.config.update(saved_cfg)
        cfgmod.defaults[:] = saved_defaults


def replay(ctx, rep):
    from qv.driver import Driver
    cfgmod = _module()
    case = rep.get("case") or rep.get("correspondence_disagreements", [{}])[0].get("case")
    drv = Driver("C19")
    saved_cfg = copy.deepcopy(cfgmod.config)
    saved_defaults = copy.deepcopy(cfgmod.defaults)
    try:
        run_sequence(ctx, drv, cfgmod, case["ops"], case["init"], case.get("env") or device_available(), (saved_cfg, saved_defaults))
    finally:
        drv.close()
        cfgmod.config.clear()
        cfgmod.config.update(saved_cfg)
        cfgmod.defaults[:] = saved_defaults
    return True
