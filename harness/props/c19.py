"""C19 — configuration store: correspondence with Model/Config.lean + last-writer-wins
reference-map predicate evaluated on the real quantem.core.config."""
import contextlib
import copy
import inspect
import json
import os
import re
import shutil
import sys
import tempfile

LEVEL = "proof"
EXTRA_PROPS = ["QuantemModel.Props.C19Ext", "QuantemModel.Props.C19Ext2"]   # growth 6: refinement of whole histories to a simple map spec
MANIFEST_ENTRY = {
    "category": "proof",
    "text": "Lean 4 theorems over an executable model of config.py (assoc-list dicts, canonical '-'/'_' names, _assign with undo record, update/merge/refresh, collect/collect_yaml/_load_config_file, get with default/override_with, validate_device as (device string, device id) in EVERY device environment): get-after-set under the same and under the other '-'/'_' spelling (`get_assign_twin`), sibling preservation (frame), with-block exit restores the exact previous configuration for every assignment list (also nested inside other open blocks, `xenter_xexit_noop`), refresh = merge of defaults and idempotent, refresh(path) = merge of defaults followed by the user's files (`refreshFrom_spec`, `refreshFrom_missing`); device clause for all CUDA/MPS availabilities, device counts and current devices: whatever is accepted is cpu, or mps with MPS available, or cuda:n with CUDA available and n below the device count (`device_accepted_available`, converse `device_accepted_reachable`), accepted strings are exactly torch's cuda spelling or gpu/mps/cpu ignoring case (`device_string_forms`), a rejected request through set / with / update_defaults raises and leaves configuration AND accumulated defaults unchanged (`rejected_noop`), so rejected requests can be erased from any history (`rejected_history_erase`); and over WHOLE HISTORIES of set / with / update_defaults / refresh calls, raising or not (`hstep`/`hrun`, the transition function the driver itself runs): last writer wins (`lww_history`), also when the path is read with every component in its other spelling (`lww_history_twin`, from the `WellKeyed` invariant preserved by every operation), with-blocks are no-ops, the defaults list only grows, refresh after any history = merge of the accumulated defaults. REFINEMENT TO A SIMPLE MAP SPEC (Props/C19Ext.lean, C19Ext2.lean): every history, of any length, of top-level set calls (any number of items, either spelling, scalar or nested-mapping values), with blocks, refresh and update_defaults calls registering top-level scalar defaults is mapped by the abstraction function `absm` (read through canonical_name under the key normal form) onto the run of a two-map spec - configuration map: overwrite per set item, write-if-absent-or-still-default per update_defaults item; defaults map: overlay of ALL registered items in order; refresh installs it (`flat_history_refines`, `flat_history_refines_defaults`, `spec_defaults_accumulate`); no call of such a history raises (`flat_history_never_raises`), keys with one normal form are exactly the two spellings of one key (`nkey_eq_cases`), get under either spelling returns the spec entry (`read_any_spelling`, `abs_get`, `flat_history_get`, `refresh_restores_accumulated`). The model is tied to the code on every run by an order-sensitive differential run of random op sequences (incl. with-blocks with bodies and raising bodies, refresh(path=dir of yaml/json files), set(config=other), falsy get defaults/overrides, degenerate key spellings) in the real and in six simulated device environments (torch availability answers stubbed from the harness process), direct streams for validate_device (tuple), update (all three priorities) and merge, a replay of the import-time initialisation from quantem.yaml, pinned public signatures, and a last-writer-wins reference map evaluated on the real module as the failing-input search; plus FIXED blocks (props/c19_r6.py, independent of the seed): 13-layer update_defaults histories with partial nested sections and refresh + sibling reads after each layer, both directions of the spelling equivalence on every operation at four nesting depths, four configuration stores alive at once through config=/defaults= (each against its own reference map), 14 keys per call / 6-level paths / prefix-related keys, with-blocks nested 4-5 deep left by exceptions, two-digit CUDA indices (12 simulated devices), a 14-file yaml directory.",
    "note": "Trusted: Lean kernel + propext/Classical.choice/Quot.sound; the hand model is validated only by sampled correspondence; torch.device string parsing is a model parameter (`parseCuda`, compared on a list of spellings; torch's signed-byte wrap of indices >= 128 is outside it); CUDA/MPS environments other than the machine's own are simulated by stubbing torch.cuda/mps.is_available, current_device, set_device and NUM_DEVICES; what update_defaults does to a key it mentions is proved for whole mappings of top-level scalars over whole histories (`flat_history_refines_defaults`); for NESTED default mappings it is specified per item (`update_leaf_priority_spec`) and otherwise measured by the reference map; the refinement theorems cover top-level keys (values may be nested mappings), dotted paths are covered by `lww_history` / `lww_history_twin` / frame theorems, not by the map refinement; yaml parsing itself and file-system listing are parameters of `collect` (file contents enter the model already parsed); keys mixing '-' and '_' are outside the twin-spelling claims; `__exit__` after a body that replaced a section by a scalar raises from inside its walk and is outside the model (counted as exit-outside-model).",
    "technique": "Lean 4 proof (induction over key paths / op lists / histories, case analysis of the device dispatch) + model-vs-implementation correspondence",
}
RULE = ("random op sequences (set mapping/kwargs/kwargs-only/None-arg, set_device, with-set, enter/exit with bodies, get with default/override, "
        "update_defaults, refresh, refresh(path), set(config=other), device requests) over a small key alphabet with '-'/'_' twins, in the real "
        "and in simulated device environments; a case is one op applied to a state; distinct non-trivial = distinct (op kind, outcome, nesting "
        "depth, twin-spelling used, state size bucket, device environment, inside an open with-block, default given, override given) with a "
        "non-empty state, plus (environment, outcome, value type) of the direct validate_device stream and (priority, outcome, defaults kind) of "
        "the direct update stream; the fixed round-6 blocks of props/c19_r6.py are counted with the same rule")
TRUSTED = ["torch.device() string parsing (model parameter parseCuda; indices < 128) and the answers of torch.cuda/mps.is_available, "
           "torch.cuda.current_device, device_count (real on this machine, stubbed in the simulated environments)",
           "yaml.safe_load / pathlib glob + sorted (file contents and names enter the model as data); default yaml collection made empty via QUANTEM_CONFIG (hermetic)"]
ASSUMPTIONS = ["keys with both '-' and '_' are outside the twin-spelling theorems (altKey is not an involution there); they are still exercised by the correspondence",
               "simulated CUDA histories start from the module's own state: check_key_val reads config['has_cupy'] (False on this image) after a CUDA request",
               "`with` bodies that turn a section on a recorded undo path into a scalar make __exit__ raise inside its walk: outside the model and the restore clause (counted, not compared)",
               "aliases and deprecations tables are empty (pinned on every run)"]
EXPLANATION = ("Theorems in Props/C19.lean are about Model/Config.lean, Model/ConfigHistory.lean and Model/ConfigCollect.lean; every run drives the real "
               "config module and the model with the same op sequences and compares results, error kinds and the full config (order-sensitive).")

TD = "torch.device:"   # sentinel spelling of a torch.device object inside the (JSON) op lists
SEGS = ["a", "b", "a_b", "a-b", "c_d", "c-d", "k", "viz", "dtype_real", "dtype-real", "mkl", "threads", "m-n_o"]
DEVICES = ["cpu", "CPU", "cuda", "cuda:0", "cuda:1", "gpu", "GPU", "mps", "xcpux", "cpu:0", "tpu", "", "Cuda:0", "xcuda",
           -1, 0, 1, 5, True, None, 1.5, ["cpu"], "my-cpu-box", "Mps",
           # torch.device objects (a documented input form of validate_device)
           TD + "cpu", TD + "cpu:0", TD + "mps", TD + "mps:0", TD + "cuda", TD + "cuda:1", TD + "meta",
           # spellings torch.device() itself refuses, near-misses of the accepted words, indices at the device count
           "cuda:2", "cuda:3", "cuda:01", "cuda:", "cuda:-1", "cuda: 1", "CUDA", "cuda:1x", "cuda:0:1", " cuda", "cuda ",
           "xgpux", "my-gpu-box", "gpu:0", "Gpu", "mps:0", "xmps", "cpu ", " cpu", "Cpu", "cpux", 2, 3, False, 2.5, {"cpu": 1},
           "cpu:banana", "cpu:-1", "CPU:", "cpu:0:0", "mps:1", "mps:x",
           TD + "cuda:0", TD + "cuda:2", TD + "cuda:3"]
# device environments: the real one plus simulated ones (torch availability answers are stubbed from the
# harness process, the code under test is unchanged): n = torch.cuda.device_count(), cur = current_device()
SIM_ENVS = [{"cuda": True, "mps": False, "n": 2, "cur": 0}, {"cuda": True, "mps": False, "n": 3, "cur": 2},
            {"cuda": True, "mps": True, "n": 1, "cur": 0}, {"cuda": False, "mps": True, "n": 0, "cur": 0},
            {"cuda": True, "mps": False, "n": 2, "cur": 2},   # current device beyond the count: 'cuda' without index is out of range
            {"cuda": True, "mps": False, "n": 0, "cur": 0}]
GET_DEFAULTS = ["DFLT", None, 0, False, "", [], {}, "__no_default__x"]
GET_OVERRIDES = [0, False, "", "x", [], {}, 7]
FILE_NAMES = ["a.yaml", "b.yml", "c.json", "B.yaml", "10.yaml", "9.yml", ".h.yaml", "notes.txt", "x.yaml.bak", "d.YAML", "zz.json", "a.yml"]


def real(v):
    """the Python value an op-list value stands for (torch.device objects are spelled as strings there)"""
    if isinstance(v, str) and v.startswith(TD):
        import torch
        return torch.device(v[len(TD):])
    if isinstance(v, dict):
        return {k: real(x) for k, x in v.items()}
    return copy.deepcopy(v)


def to_tree(v):
    if isinstance(v, dict):
        return {"d": [[k, to_tree(x)] for k, x in v.items()]}
    if isinstance(v, str) and v.startswith(TD):
        v = real(v)
    if type(v).__name__ == "device" and type(v).__module__ == "torch":
        return {"l": {"torchdev": [v.type, v.index]}}
    return {"l": v}


def gen_leaf(rng):
    return rng.weighted([(0, 2), (1, 2), (2, 2), (7, 2), (True, 1), (False, 1), (None, 1), ("s", 2), ("", 1), ("float32", 1),
                         ([1, 2], 1), ([], 1), (["x", "y"], 1),
                         # values of another type that print alike / compare equal but print differently
                         ("2", 0.6), ("7", 0.6), ("None", 0.4), ("False", 0.4), ("True", 0.3), (0.5, 0.5), ("0.5", 0.4), (2.0, 0.6),
                         (1.0, 0.4), (0.0, 0.4), ("[1, 2]", 0.3)])


def gen_value(rng, depth=0):
    if depth < 2 and rng.chance(0.25):
        n = rng.randint(0, 3)
        d = {}
        for _ in range(n):
            k = rng.choice(SEGS[:9])
            # keep literal values twin-free (a user dict holding both spellings is outside the claim)
            if k.replace("-", "_") in [x.replace("-", "_") for x in d]:
                continue
            d[k] = gen_value(rng, depth + 1)
        return d
    return gen_leaf(rng)


def gen_path(rng):
    n = rng.weighted([(1, 5), (2, 4), (3, 2)])
    return [rng.choice(SEGS) for _ in range(n)]


def gen_op(rng, touched):
    kind = rng.weighted([("set", 6), ("set_kw", 2), ("with", 3), ("get", 4), ("update_defaults", 3), ("refresh", 1),
                         ("device", 3), ("device_nested", 1), ("refresh_path", 1), ("set_scratch", 0.5), ("set_odd", 0.7)])
    if kind == "set_odd":
        # degenerate key spellings: empty segments, leading / trailing / tripled separators
        if rng.chance(0.5):
            k = rng.choice(["", ".", "a.", ".a", "a..b", "k.", "viz..cmap"])
            return {"op": "set", "arg": [[k, gen_value(rng)]], "kwargs": []}
        k = rng.choice(["a___b", "_a", "a_", "__a", "a__", "a____b", "viz___cmap", "_"])
        return {"op": "set", "arg": [], "kwargs": [[k, gen_value(rng)]]}
    if kind in ("set", "with"):
        items = []
        for _ in range(rng.randint(1, 3)):
            p = rng.choice(touched) if touched and rng.chance(0.4) else gen_path(rng)
            if rng.chance(0.3):   # use the other spelling of a known path
                p = [alt(s) if rng.chance(0.5) else s for s in p]
            items.append([".".join(p), gen_value(rng)])
        kw = []
        if rng.chance(0.3):
            p = gen_path(rng)
            p = [s for s in p if "-" not in s and "." not in s] or ["k"]
            kw.append(["__".join(p), gen_value(rng)])
        if rng.chance(0.15):
            items.insert(rng.randint(0, len(items)), ["device", rng.choice(DEVICES)])
        seen, ded = set(), []
        for k, v in items:     # a mapping literal cannot hold one key twice
            if k not in seen:
                seen.add(k)
                ded.append([k, v])
        return {"op": kind, "arg": ded, "kwargs": kw}
    if kind == "set_kw":
        p = [s for s in gen_path(rng) if "-" not in s] or ["k"]
        o = {"op": "set", "arg": [], "kwargs": [["__".join(p), gen_value(rng)]]}
        via = rng.choice([None, "kwargs-only", "arg-none"])   # set({}, **kw) / set(**kw) / set(None, **kw)
        if via:
            o["via"] = via
        return o
    if kind == "get":
        p = rng.choice(touched) if touched and rng.chance(0.7) else gen_path(rng)
        if rng.chance(0.4):
            p = [alt(s) for s in p]
        if rng.chance(0.2):
            p = p + [rng.choice(SEGS)]
        o = {"op": "get", "key": ".".join(p)}
        if rng.chance(0.4):     # falsy defaults included: `default is not no_default`, not truthiness
            o["default"] = rng.choice(GET_DEFAULTS)
        if rng.chance(0.12):    # `override_with is not None`: 0 / False / "" are returned as they are
            o["override"] = rng.choice(GET_OVERRIDES)
        return o
    if kind == "refresh_path":
        return {"op": "refresh_path", "path": gen_pathspec(rng)}
    if kind == "set_scratch":
        sc = gen_value(rng, 1)
        return {"op": "set_scratch", "scratch": sc if isinstance(sc, dict) else {},
                "arg": [[".".join(gen_path(rng)), gen_value(rng)] for _ in range(rng.randint(1, 2))], "kwargs": []}
    if kind == "update_defaults":
        d = {}
        for _ in range(rng.randint(1, 3)):
            p = rng.choice(touched) if touched and rng.chance(0.5) else gen_path(rng)
            cur = d
            ok = True
            for s in p[:-1]:
                nk = [x for x in cur if x.replace("-", "_") == s.replace("-", "_")]
                s = nk[0] if nk else s
                if s in cur and not isinstance(cur[s], dict):
                    ok = False
                    break
                cur = cur.setdefault(s, {})
            if ok:
                last = p[-1]
                nk = [x for x in cur if x.replace("-", "_") == last.replace("-", "_")]
                last = nk[0] if nk else last
                if not isinstance(cur.get(last), dict):
                    cur[last] = gen_leaf(rng)
        if rng.chance(0.1):
            d["device"] = rng.choice(DEVICES)
        return {"op": "update_defaults", "new": d}
    if kind == "refresh":
        return {"op": "refresh"}
    if kind == "device":
        # the same request through its alternative entry points: set({"device": v}), set(device=v), set_device(v)
        via = rng.choice(["arg", "kw", "set_device"])
        v = rng.choice(DEVICES)
        if via == "kw":
            return {"op": "set", "arg": [], "kwargs": [["device", v]]}
        return dict({"op": "set", "arg": [["device", v]], "kwargs": []}, **({"via": "set_device"} if via == "set_device" else {}))
    return {"op": "set", "arg": [["viz.device", rng.choice(DEVICES)]], "kwargs": []}


def gen_file_content(rng):
    kind = rng.weighted([("dict", 7), ("empty", 1), ("malformed", 0.6), ("nondict", 0.6), ("unreadable", 0.5)])
    if kind != "dict":
        return kind
    d = gen_value(rng, 1)
    d = d if isinstance(d, dict) else {rng.choice(SEGS[:9]): gen_leaf(rng)}
    if rng.chance(0.12):
        d["device"] = rng.choice(["cpu", "CPU", "tpu", "gpu", "cuda:0", "mps", 0, None])
    return {"dict": d}


def gen_pathspec(rng):
    """what `refresh(path=...)` finds: nothing, one file (any name), or a directory listing"""
    kind = rng.weighted([("dir", 7), ("file", 1.5), ("missing", 1.5)])
    if kind == "missing":
        return {"kind": "missing"}
    if kind == "file":
        return {"kind": "file", "name": rng.choice(["conf.txt", "one.yaml", "noext"]), "content": gen_file_content(rng)}
    names = rng.sample(FILE_NAMES, rng.randint(0, 4))
    return {"kind": "dir", "entries": [[n, gen_file_content(rng)] for n in names]}


def materialise(spec, root):
    """write the files of a path spec below `root`; returns the path to hand to refresh()"""
    import yaml

    def put(path, content, as_json):
        if content == "unreadable":
            os.mkdir(path)          # open() raises IsADirectoryError (an OSError): ignored by the loader
            return
        text = {"empty": "", "malformed": "a: [1, 2\nb: }", "nondict": "- 1\n- 2\n"}.get(content) if isinstance(content, str) else None
        if text is None:
            d = real(content["dict"])
            text = json.dumps(d) if as_json else yaml.safe_dump(d, sort_keys=False)
        with open(path, "w") as f:
            f.write(text)

    if spec["kind"] == "missing":
        return os.path.join(root, "does-not-exist")
    if spec["kind"] == "file":
        p = os.path.join(root, spec["name"])
        put(p, spec["content"], False)
        return p
    d = os.path.join(root, "cfgdir")
    os.mkdir(d)
    for name, content in spec["entries"]:
        put(os.path.join(d, name), content, name.endswith(".json"))
    return d


def pathspec_to_model(spec):
    def c(content):
        return content if isinstance(content, str) else {"dict": to_tree(content["dict"])}
    if spec["kind"] == "missing":
        return {"kind": "missing"}
    if spec["kind"] == "file":
        return {"kind": "file", "content": c(spec["content"])}
    return {"kind": "dir", "entries": [[n, c(x)] for n, x in spec["entries"]]}


def alt(k):
    return k.replace("_", "-") if "_" in k else k.replace("-", "_")


def uniform(k):
    return not ("_" in k and "-" in k)


ERRS = {"TypeError": "TypeError", "KeyError": "KeyError", "ValueError": "ValueError", "RuntimeError": "RuntimeError",
        "IndexError": "IndexError", "AttributeError": "AttributeError"}


def err_name(e):
    return ERRS.get(type(e).__name__, "Other:" + type(e).__name__)


# ---------------------------------------------------------------------------------------
# reference last-writer-wins map on normalised keys (the property's own oracle)

def nk(k):
    return k.replace("-", "_")


def norm(v):
    if isinstance(v, dict):
        return {nk(k): norm(x) for k, x in v.items()}
    return v


def twin_free(v):
    if isinstance(v, dict):
        ks = [nk(k) for k in v]
        return len(ks) == len(set(ks)) and all(twin_free(x) for x in v.values())
    return True


def all_uniform(v):
    if isinstance(v, dict):
        return all(uniform(k) and all_uniform(x) for k, x in v.items())
    return True


def ref_merge(old, new):
    for k, v in new.items():
        if isinstance(v, dict):
            if not isinstance(old.get(k), dict):
                old[k] = {}
            ref_merge(old[k], v)
        else:
            old[k] = v
    return old


def ref_update_defaults(cfg, new, cur_defaults):
    for k, v in new.items():
        if isinstance(v, dict):
            if not isinstance(cfg.get(k), dict):
                cfg[k] = {}
            d = cur_defaults.get(k) if isinstance(cur_defaults, dict) else None
            ref_update_defaults(cfg[k], v, d if isinstance(d, dict) else {})
        else:
            if (k in cfg and isinstance(cfg[k], dict) and isinstance(cur_defaults, dict) and isinstance(cur_defaults.get(k), dict)
                    and cur_defaults[k] == cfg[k] and _has_sep_key(cfg[k])):
                # a scalar default replaces a MAPPING default that the configuration still holds: whether "the value is
                # still the default" then depends on the '-'/'_' spellings inside the two mappings (dict == is spelling
                # sensitive), which the property text does not settle; left to the model comparison
                raise Undecided()
            if k not in cfg or (isinstance(cur_defaults, dict) and k in cur_defaults and cur_defaults[k] == cfg[k]):
                cfg[k] = v


class Undecided(Exception):
    pass


def _has_sep_key(v):
    return isinstance(v, dict) and any("_" in k or _has_sep_key(x) for k, x in v.items())


def ref_device(v, env=None):
    """the property's oracle for device requests, written from the documentation of validate_device, not from its
    code: the normalised device that must be stored, or None when the request must be rejected (malformed, or
    not available in the device environment `env`)."""
    env = env or {"cuda": False, "mps": False, "n": 0, "cur": 0}
    cuda, mps, n, cur = env["cuda"], env["mps"], env["n"], env.get("cur", 0)

    def fin_cuda(idx):
        i = cur if idx is None else idx
        return f"cuda:{i}" if cuda and 0 <= i < n else None

    def fin_mps():
        return "mps" if mps else None

    if v is None:        # "the current default device"
        return fin_cuda(None) if cuda else fin_mps() if mps else "cpu"
    if isinstance(v, str) and v.startswith(TD):
        d = real(v)
        return {"cuda": lambda: fin_cuda(d.index), "mps": fin_mps, "cpu": lambda: "cpu"}.get(d.type, lambda: None)()
    if isinstance(v, bool) or isinstance(v, (dict, list, float)):
        return None
    if isinstance(v, int):
        return fin_cuda(v) if v >= 0 else None
    if isinstance(v, str):
        m = re.fullmatch(r"cuda(?::(0|[1-9][0-9]*))?", v)
        if m:
            return fin_cuda(int(m.group(1)) if m.group(1) is not None else None)
        if v.lower() == "gpu":
            return fin_cuda(None) if cuda else fin_mps()
        if v.lower() == "mps":
            return fin_mps()
        if v.lower() == "cpu":
            return "cpu"
    return None  # rejected


@contextlib.contextmanager
def device_env(cfgmod, env, real_env):
    """make torch answer the availability questions of validate_device as in `env` (stubs installed from the
    harness process; /repo is not touched).  `torch.cuda.set_device` is replaced by a recorder."""
    if env == real_env:
        yield None
        return
    import torch
    calls = []
    saved = (torch.cuda.is_available, torch.mps.is_available, torch.cuda.current_device, torch.cuda.set_device, cfgmod.NUM_DEVICES)
    torch.cuda.is_available = lambda: env["cuda"]
    torch.mps.is_available = lambda: env["mps"]
    torch.cuda.current_device = lambda: env.get("cur", 0)
    torch.cuda.set_device = lambda i: calls.append(i)
    cfgmod.NUM_DEVICES = env["n"]
    try:
        yield calls
    finally:
        (torch.cuda.is_available, torch.mps.is_available, torch.cuda.current_device, torch.cuda.set_device, cfgmod.NUM_DEVICES) = saved


class Ref:
    def __init__(self, cfg, defaults):
        self.cfg = norm(copy.deepcopy(cfg))
        self.defaults = [norm(copy.deepcopy(d)) for d in defaults]
        self.valid = True  # becomes False when the history leaves the spec's domain

    def assign(self, path, v):
        d = self.cfg
        for s in path[:-1]:
            if s not in d:
                d[s] = {}
            if not isinstance(d[s], dict):
                return "TypeError"
            d = d[s]
        d[path[-1]] = norm(real(v))
        return None


def device_available():
    import torch
    return {"cuda": bool(torch.cuda.is_available()), "mps": bool(torch.mps.is_available()), "n": int(torch.cuda.device_count())}


def _items_of(op):
    return [(k, v) for k, v in op["arg"]] + [(k.replace("__", "."), v) for k, v in op["kwargs"]]


def _related(k1, k2):
    a, b = [nk(x) for x in k1.split(".")], [nk(x) for x in k2.split(".")]
    n = min(len(a), len(b))
    return a[:n] == b[:n]


def _leaf_on_prefix(cfg, record):
    """does some proper prefix of a recorded undo path resolve to a non-mapping in `cfg`?  (then `__exit__`
    raises from inside its walk; the model's `exitCtx` is total and does not describe that case)"""
    for _op, path, _v in record:
        d = cfg
        for key in path[:-1]:
            if not isinstance(d, dict):
                return True
            if key not in d:
                break
            d = d[key]
        else:
            if not isinstance(d, dict):
                return True
    return False


def run_sequence(ctx, drv, cfgmod, ops, init, env, module_state, real_env=None):
    real_env = real_env or device_available()
    with device_env(cfgmod, env, real_env):
        return _run_sequence(ctx, drv, cfgmod, ops, init, env, module_state)


def _run_sequence(ctx, drv, cfgmod, ops, init, env, module_state):
    init_cfg, init_defaults = (copy.deepcopy(module_state[0]), copy.deepcopy(module_state[1])) if init == "module" else ({}, [])
    # --- reset the real module and the model to the same state
    cfgmod.config.clear()
    cfgmod.config.update(copy.deepcopy(init_cfg))
    cfgmod.defaults[:] = copy.deepcopy(init_defaults)
    r = drv.ask({"op": "init", "env": env, "config": to_tree(init_cfg), "defaults": [to_tree(d) for d in init_defaults]})
    assert "err" not in r, r
    ref = Ref(init_cfg, init_defaults)
    model_ok = True
    open_cms = []     # (context manager, [(key, found, value before the block)]) of the blocks entered and not left
    envtag = "real" if not (env["cuda"] or env["mps"]) else ("cuda" if env["cuda"] else "") + ("mps" if env["mps"] else "")
    for i, op in enumerate(ops):
        before = copy.deepcopy(cfgmod.config)
        dev_before = before.get("device", "<absent>")
        kind = op["op"]
        if kind == "exit" and not open_cms:
            continue
        res = None
        inside = None
        in_scope = True
        snap = None
        tmpdir = None
        try:
            if kind == "set":
                if op.get("via") == "set_device":
                    cfgmod.set_device(real(op["arg"][0][1]))
                elif op.get("via") == "kwargs-only":
                    cfgmod.set(**{k: real(v) for k, v in op["kwargs"]})
                elif op.get("via") == "arg-none":
                    cfgmod.set(None, **{k: real(v) for k, v in op["kwargs"]})
                else:
                    cfgmod.set(dict((k, real(v)) for k, v in op["arg"]), **{k: real(v) for k, v in op["kwargs"]})
                res = {"ok": None}
            elif kind == "with":
                with cfgmod.set(dict((k, real(v)) for k, v in op["arg"]), **{k: real(v) for k, v in op["kwargs"]}) as entered:
                    inside = copy.deepcopy(cfgmod.config)
                    if entered is not cfgmod.config:
                        ctx.disagree("with-as", {"init": init, "ops": ops[: i + 1], "env": env}, "the configuration dict",
                                     type(entered).__name__, note="`with set(...) as c` does not hand out the store")
                res = {"ok": {"inside": to_tree(inside)}}
            elif kind == "enter":
                snap = []
                keys = [k for k, _ in _items_of(op)]
                for k in keys:
                    if all(uniform(x) for x in k.split(".")) and not any(o is not k and _related(k, o) for o in keys):
                        try:
                            snap.append((k, True, copy.deepcopy(cfgmod.get(k))))
                        except (TypeError, IndexError, KeyError):
                            snap.append((k, False, None))
                cm = cfgmod.set(dict((k, real(v)) for k, v in op["arg"]), **{k: real(v) for k, v in op["kwargs"]})
                cm.__enter__()
                open_cms.append((cm, snap, []))
                res = {"ok": None}
            elif kind == "exit":
                cm, snap, body_writes = open_cms.pop()
                # the clause is about the values the block itself set: keys the BODY wrote as well (or a body that
                # re-read the user's yaml files) are left to the model comparison
                snap = [] if "*" in body_writes else [t for t in snap if not any(_related(t[0], w) for w in body_writes)]
                in_scope = not _leaf_on_prefix(cfgmod.config, cm._record)
                if op.get("raise"):     # the body of the block raised: __exit__ runs with the exception triple
                    try:
                        raise LookupError("body")
                    except LookupError:
                        swallowed = cm.__exit__(*sys.exc_info())
                    if swallowed:
                        ctx.disagree("with-exit-swallows", {"init": init, "ops": ops[: i + 1], "env": env}, False, swallowed,
                                     note="__exit__ returned a true value: an exception of the block body would be swallowed")
                else:
                    cm.__exit__(None, None, None)
                res = {"ok": None}
            elif kind == "get":
                kw = {"override_with": real(op["override"])} if "override" in op else {}
                args = (op["key"],) + ((real(op["default"]),) if "default" in op else ())
                v = cfgmod.get(*args, **kw)
                try:
                    cfgmod.get(op["key"])
                    found = True
                except (TypeError, IndexError, KeyError):
                    found = False
                res = {"ok": {"v": to_tree(v), "found": found}}
            elif kind == "update_defaults":
                cfgmod.update_defaults(real(op["new"]))
                res = {"ok": None}
            elif kind == "refresh":
                cfgmod.refresh()
                res = {"ok": None}
            elif kind == "refresh_path":
                tmpdir = tempfile.mkdtemp(prefix="c19cfg")
                path = materialise(op["path"], tmpdir)
                cfgmod.refresh(path=path if i % 2 else __import__("pathlib").Path(path))
                res = {"ok": None}
            elif kind == "set_scratch":
                scratch = real(op["scratch"])
                try:
                    cfgmod.set(dict((k, real(v)) for k, v in op["arg"]), config=scratch)
                    res = {"out": to_tree(scratch), "res": {"ok": None}}
                except Exception as e:  # noqa
                    res = {"out": to_tree(scratch), "res": {"err": err_name(e)}}
        except Exception as e:  # noqa
            res = {"err": err_name(e)}
        finally:
            if tmpdir:
                shutil.rmtree(tmpdir, ignore_errors=True)
        after = copy.deepcopy(cfgmod.config)
        case = {"init": init, "ops": ops[: i + 1], "env": env}
        if open_cms:
            wr = (["*"] if kind == "refresh_path" else
                  [k for k, _ in _items_of(op)] if kind in ("set", "with", "enter") else
                  [".".join(pp) for pp, _ in leaf_paths(op["new"])] if kind == "update_defaults" else [])
            for entry in (open_cms[:-1] if kind == "enter" and "err" not in (res or {}) else open_cms):
                entry[2].extend(wr)
        if "device" in after:
            # the three readers of the stored device agree
            readers = {"get": cfgmod.get("device"), "get_device": cfgmod.get_device(), "device": cfgmod.device()}
            if len({json.dumps(v, default=str) for v in readers.values()}) != 1 or readers["get"] != after["device"]:
                ctx.pred_fail("device-readers-disagree", "get('device'), get_device() and device() do not return the stored device",
                              case, observed={k: str(v) for k, v in readers.items()}, required=str(after["device"]))
        # --- model
        mreq = {k: (v if k not in ("arg", "kwargs") else [[a, to_tree(b)] for a, b in v]) for k, v in op.items()
                if k not in ("via", "raise")}
        if kind == "update_defaults":
            mreq["new"] = to_tree(op["new"])
        elif kind == "refresh_path":
            mreq["path"] = pathspec_to_model(op["path"])
        elif kind == "set_scratch":
            mreq["scratch"] = to_tree(op["scratch"])
        elif kind == "get":
            for f in ("default", "override"):
                if f in op:
                    mreq[f] = to_tree(op[f])
        m = drv.ask(mreq)
        ctx.count()
        depth = max([len(k.split(".")) for k, _ in op.get("arg", [])] + [len(op.get("key", "").split("."))])
        twin = any("-" in k or "_" in k for k, _ in op.get("arg", [])) or "-" in op.get("key", "")
        errk = res.get("err") or (res.get("res") or {}).get("err")
        if before:
            ctx.mark((kind, "err" if errk else "ok", depth, twin, min(len(json.dumps(before, default=str)) // 200, 5),
                      envtag, len(open_cms) > 0, "default" in op, "override" in op))
        ctx.dist[f"op:{kind}"] += 1
        ctx.dist["outcome:" + (errk or "ok")] += 1
        ctx.dist["env:" + envtag] += 1
        impl_view = {"r": res, "cfg": to_tree(after), "ndefaults": len(cfgmod.defaults)}
        if "driver" in str(m.get("err", "")):
            raise RuntimeError(f"driver error {m}")
        if kind == "exit" and not in_scope:
            # `__exit__` met a non-mapping on a recorded path (the body replaced a section by a scalar): Python raises
            # from inside the walk; outside the model, and "the previous values" cannot be restored there
            ctx.dist["exit-outside-model"] += 1
            model_ok = False
            ref.valid = False
        if model_ok and m != json.loads(json.dumps(impl_view)):
            ctx.disagree("config-ops", {"init": init, "ops": ops[: i + 1], "env": env}, m, impl_view,
                         note=f"op #{i} {kind}")
            # the model has diverged: stop comparing with it, but keep driving the real module so
            # that the property predicates can still find a failing input later in the history
            model_ok = False
        # --- property predicates on the implementation --------------------------------
        if kind in ("set", "with", "enter"):
            items = _items_of(op)
            if not all(all(uniform(s) for s in k.split(".")) and all_uniform(v) and twin_free(v) for k, v in items):
                ref.valid = False
            failed_dev = False
            applied = []
            for k, v in items:
                if k == "device":
                    dv = ref_device(v, env) if not isinstance(v, dict) else None
                    if dv is None:
                        failed_dev = True
                        break
                    v = dv
                path = [nk(s) for s in k.split(".")]
                if ref.valid:
                    e = ref.assign(path, v)
                    if e:
                        ref.valid = False  # TypeError on a leaf intermediate: outside the map spec
                        break
                applied.append((k, v))
            if failed_dev:
                # rejected request must raise and must leave the stored device unchanged
                if "err" not in res:
                    ctx.pred_fail("device-accepts-malformed", "malformed/unavailable device request was accepted",
                                  case, observed={"device": after.get("device")}, required="rejection (exception), device unchanged")
                elif after.get("device", "<absent>") != dev_before:
                    ctx.pred_fail("device-changed-on-reject", "rejected device request changed the stored device",
                                  case, observed=after.get("device"), required=dev_before)
            if kind == "with":
                if "err" in res and not failed_dev and ref.valid:
                    ctx.pred_fail("ctx-manager-raises", f"`with config.set(...)` raised {res['err']}", case,
                                  observed=res, required="values applied inside the block, previous values restored on exit")
                    ref.valid = False
                elif "err" not in res:
                    if ref.valid and norm(inside) != ref.cfg:
                        ctx.pred_fail("ctx-inside", "values not applied inside the with block", case, observed=inside, required=ref.cfg)
                    if after != before or list(after.keys()) != list(before.keys()):
                        ctx.pred_fail("ctx-restore", "with-block exit did not restore the previous configuration", case,
                                      observed=after, required=before)
                    ref.cfg = norm(copy.deepcopy(before))
                elif failed_dev:
                    pass
            if ref.valid and kind in ("set", "enter") and "err" not in res:
                # last-writer-wins: every item readable under both spellings
                for k, v in applied:
                    for spell in (k, ".".join(alt(s) for s in k.split("."))):
                        try:
                            got = cfgmod.get(spell)
                        except Exception as e:  # noqa
                            got = f"<{type(e).__name__}>"
                        later = [kk for kk, _ in applied[applied.index((k, v)) + 1:]]
                        if any(nk(kk).startswith(nk(k)) or nk(k).startswith(nk(kk)) for kk in later):
                            continue
                        if norm(got) != norm(real(v)):
                            ctx.pred_fail("get-after-set", f"get({spell!r}) after set({k!r}) does not return the value set", case,
                                          observed=got, required=v)
        elif kind == "exit":
            if "err" in res:
                if in_scope:
                    ctx.pred_fail("ctx-exit-raises", f"leaving a `with config.set(...)` block raised {res['err']}", case, observed=res,
                                  required="previous values restored")
                ref.valid = False
            elif in_scope and twin_free(after):
                for k, found, val in snap:
                    try:
                        now = (True, cfgmod.get(k))
                    except (TypeError, IndexError, KeyError):
                        now = (False, None)
                    if now[0] != found or (found and norm(now[1]) != norm(val)):
                        ctx.pred_fail("ctx-restore", f"leaving the with block did not restore the previous value of {k!r}", case,
                                      observed={"found": now[0], "value": now[1]}, required={"found": found, "value": val})
            if all_uniform(after) and twin_free(after):
                ref.cfg = norm(copy.deepcopy(after))
            else:
                ref.valid = False
        elif kind == "update_defaults":
            new = op["new"]
            if not (all_uniform(new) and twin_free(new)):
                ref.valid = False
            dv_bad = "device" in new and (isinstance(new["device"], dict) or ref_device(new["device"], env) is None)
            if dv_bad:
                if "err" not in res:
                    ctx.pred_fail("device-accepts-malformed", "malformed/unavailable device default was accepted", case,
                                  observed=after.get("device"), required="rejection")
                elif after.get("device", "<absent>") != dev_before:
                    ctx.pred_fail("device-changed-on-reject", "rejected device default changed the stored device", case,
                                  observed=after.get("device"), required=dev_before)
            elif ref.valid and "err" not in res:
                n = norm(copy.deepcopy(new))
                if "device" in n:
                    n["device"] = ref_device(n["device"], env)
                cur = {}
                for d in ref.defaults:
                    ref_merge(cur, copy.deepcopy(d))
                ref.defaults.append(n)
                try:
                    ref_update_defaults(ref.cfg, copy.deepcopy(n), cur)
                except Undecided:
                    ctx.dist["ref-undecided-mapping-default"] += 1
                    ref.valid = False
            elif "err" in res:
                ref.valid = False
        elif kind == "refresh" and ref.valid and "err" not in res:
            cur = {}
            for d in ref.defaults:
                ref_merge(cur, copy.deepcopy(d))
            ref.cfg = cur
        elif kind == "refresh" and ref.valid and "err" in res:
            # every default the reference map holds was accepted: refresh must restore them
            ctx.pred_fail("refresh-raises", f"refresh raised {res['err']} although every accumulated default had been accepted "
                          "(a rejected request must leave the store unchanged)", case, observed=res,
                          required="configuration = merge of the accumulated defaults")
            ref.valid = False
        elif kind == "refresh_path":
            # what the user's yaml files add on top of the defaults is outside the property text: the reference map
            # follows the implementation here (the model-vs-code comparison above is what checks this operation)
            if "err" not in res and all_uniform(after) and twin_free(after):
                ref.cfg = norm(copy.deepcopy(after))
            else:
                ref.valid = False
        if ref.valid and not errk and kind != "get":
            if norm(after) != ref.cfg:
                ctx.pred_fail(f"lww-map-{kind}", f"configuration after {kind} differs from the last-writer-wins reference map",
                              case, observed=norm(after), required=ref.cfg)
                ref.valid = False
        if kind == "get" and ref.valid and "override" not in op:
            path = [nk(s) for s in op["key"].split(".")]
            cur = ref.cfg
            found = True
            for s in path:
                if isinstance(cur, dict) and s in cur:
                    cur = cur[s]
                else:
                    found = False
                    break
            if all(uniform(s) for s in op["key"].split(".")):
                ok = res.get("ok") or {}
                if found and ("err" in res or not ok.get("found") or norm_tree(ok.get("v")) != to_tree(cur)):
                    ctx.pred_fail("get-lww", "get does not return the most recently set value", case, observed=res, required=cur)
                if not found and "err" not in res and ok.get("found"):
                    ctx.pred_fail("get-phantom", "get returned a value for a key never set", case, observed=res, required="KeyError/default")
        if ctx.samples is not None and i == len(ops) - 1:
            ctx.sample({"init": "module defaults" if init_defaults else "empty", "env": envtag, "ops": ops[:6], "final_result": res}, limit=3)
    return None


def denorm_like(v):
    return v


def norm_tree(t):
    if t is None:
        return None
    if "d" in t:
        return {"d": [[nk(k), norm_tree(v)] for k, v in t["d"]]}
    return t


def _module():
    from quantem.core import config as cfgmod
    return cfgmod


PINNED = {   # public parameters (name, default) the model and the harness rely on; extra trailing optional ones are fine
    "set.__init__": [("self", "<req>"), ("arg", None), ("config", "<store>"), ("kwargs", "<var>")],
    "get": [("key", "<req>"), ("default", "__no_default__"), ("config", "<store>"), ("override_with", None)],
    "update": [("old", "<req>"), ("new", "<req>"), ("priority", "new"), ("defaults", None)],
    "update_defaults": [("new", "<req>"), ("config", "<store>"), ("defaults", "<defaults>")],
    "refresh": [("config", "<store>"), ("defaults", "<defaults>"), ("kwargs", "<var>")],
    "merge": [("dicts", "<var>")],
    "canonical_name": [("k", "<req>"), ("config", "<req>")],
    "validate_device": [("dev", None)],
    "set_device": [("dev", "<req>")],
    "collect": [("path", "<PATH>"), ("env", None)],
}


def stream_signatures(ctx, cfgmod):
    """pin what the model takes for granted about the module: public signatures / defaults, empty alias and
    deprecation tables, the no-default sentinel"""
    def desc(f):
        out = []
        for name, prm in inspect.signature(f).parameters.items():
            if name.startswith("_"):
                continue
            if prm.kind in (prm.VAR_POSITIONAL, prm.VAR_KEYWORD):
                d = "<var>"
            elif prm.default is prm.empty:
                d = "<req>"
            elif prm.default is cfgmod.config:
                d = "<store>"
            elif prm.default is cfgmod.defaults:
                d = "<defaults>"
            elif prm.default is cfgmod.PATH or prm.default == cfgmod.PATH:
                d = "<PATH>"
            else:
                d = prm.default
            out.append((name, d))
        return out
    for name, want in PINNED.items():
        ctx.count()
        obj = cfgmod
        try:
            for part in name.split("."):
                obj = getattr(obj, part)
            have = desc(obj)
        except Exception as e:  # noqa
            have = f"<{type(e).__name__}>"
        extra_ok = isinstance(have, list) and have[: len(want)] == want and all(d not in ("<req>",) for _, d in have[len(want):])
        var_ok = isinstance(have, list) and [x for x in have if x[1] != "<var>"][: len([w for w in want if w[1] != "<var>"])] == [w for w in want if w[1] != "<var>"] \
            and all(w in have for w in want) and all(d != "<req>" for x, d in have if (x, d) not in want)
        if not (extra_ok or var_ok):
            ctx.disagree("signature", {"function": name}, [list(w) for w in want], json.loads(json.dumps(have, default=str)),
                         note="public signature / default the model relies on has changed")
    for name, want in (("aliases", {}), ("deprecations", {}), ("no_default", "__no_default__")):
        ctx.count()
        if getattr(cfgmod, name, "<missing>") != want:
            ctx.disagree("module-table", {"name": name}, want, repr(getattr(cfgmod, name, "<missing>")),
                         note="the model assumes empty alias / deprecation tables and this sentinel")


def stream_initialize(ctx, drv, cfgmod, saved_cfg, saved_defaults, env):
    """import-time path: `refresh()` on the built-in defaults, then `_initialize()` = update_defaults(quantem.yaml).
    Replayed on fresh dictionaries through the explicit `config=` / `defaults=` parameters and on the model; both must
    give the state the module had when it was imported."""
    import yaml
    fn = os.path.join(os.path.dirname(cfgmod.__file__), "quantem.yaml")
    with open(fn) as f:
        y = yaml.safe_load(f)
    c, d = {}, [copy.deepcopy(saved_defaults[0])]
    empty = tempfile.mkdtemp(prefix="c19empty")
    try:
        cfgmod.refresh(config=c, defaults=d, path=empty)
        cfgmod.update_defaults(copy.deepcopy(y), config=c, defaults=d)
    finally:
        shutil.rmtree(empty, ignore_errors=True)
    drv.ask({"op": "init", "env": env, "config": to_tree({}), "defaults": [to_tree(saved_defaults[0])]})
    drv.ask({"op": "refresh"})
    m = drv.ask({"op": "update_defaults", "new": to_tree(y)})
    ctx.count(3)
    case = {"stream": "initialize"}
    if m.get("cfg") != to_tree(c) or m.get("ndefaults") != len(d):
        ctx.disagree("initialize", case, m, {"cfg": to_tree(c), "ndefaults": len(d)}, note="model of refresh + update_defaults(quantem.yaml)")
    if to_tree(c) != to_tree(saved_cfg) or d != saved_defaults:
        ctx.disagree("initialize-explicit-params", case, to_tree(saved_cfg), to_tree(c),
                     note="refresh/update_defaults on explicit config=/defaults= differ from the module state at import")
    # every scalar of the shipped yaml is readable under both spellings of its path (the store's defaults)
    def leaves(t, pre=()):
        for k, v in t.items():
            if isinstance(v, dict):
                yield from leaves(v, pre + (k,))
            else:
                yield pre + (k,), v
    cfgmod.config.clear()
    cfgmod.config.update(copy.deepcopy(saved_cfg))
    for path, v in leaves(y):
        if not all(uniform(s) and "." not in s for s in path):
            continue
        for spell in (path, tuple(alt(s) for s in path)):
            ctx.count()
            want = ref_device(v, env) if path == ("device",) else v
            try:
                got = cfgmod.get(".".join(spell))
            except Exception as e:  # noqa
                got = f"<{type(e).__name__}>"
            if got != want:
                ctx.pred_fail("default-not-readable", f"shipped default {'.'.join(path)} is not returned by get({'.'.join(spell)!r})",
                              {"stream": "initialize", "key": ".".join(spell)}, observed=got, required=want)


def stream_validate_device(ctx, drv, cfgmod, real_env):
    """validate_device(v) = (device string, device id) on every listed request form, in the real device environment
    and in the simulated ones, against the model (exact) and the documentation oracle (rejection clause)."""
    for env in [real_env] + [e for e in SIM_ENVS if e != real_env]:
        drv.ask({"op": "init", "env": env, "config": to_tree({}), "defaults": []})
        with device_env(cfgmod, env, real_env):
            for v in DEVICES:
                try:
                    out = cfgmod.validate_device(real(v))
                    impl = {"ok": [to_tree(out[0]), out[1]]}
                except Exception as e:  # noqa
                    impl = {"err": err_name(e)}
                m = drv.ask({"op": "validate_device", "v": to_tree(v)})["r"]
                ctx.count()
                ctx.dist["validate_device:" + ("ok" if "ok" in impl else impl["err"])] += 1
                ctx.mark(("validate_device", json.dumps(env, sort_keys=True), "ok" if "ok" in impl else impl["err"], type(v).__name__))
                case = {"stream": "validate_device", "env": env, "v": v}
                if m != json.loads(json.dumps(impl)):
                    ctx.disagree("validate_device", case, m, impl)
                want = ref_device(v, env) if not isinstance(v, dict) else None
                if want is None and "ok" in impl:
                    ctx.pred_fail("device-accepts-malformed", "validate_device accepted a malformed / unavailable device request", case,
                                  observed=impl, required="rejection (exception)")


def gen_plain_dict(rng, depth=0):
    d = {}
    for _ in range(rng.randint(0, 4)):
        k = rng.choice(SEGS[:9] + ["device"] if depth == 0 and rng.chance(0.15) else SEGS[:9])
        if nk(k) in [nk(x) for x in d]:
            continue
        if depth < 2 and rng.chance(0.35):
            d[k] = gen_plain_dict(rng, depth + 1)
        elif k == "device":
            d[k] = rng.choice(["cpu", "CPU", "tpu", None, 0, "gpu", TD + "cpu"])
        else:
            d[k] = gen_leaf(rng)
    return d


def leaf_paths(t, pre=()):
    for k, v in t.items():
        if isinstance(v, dict) and v:
            yield from leaf_paths(v, pre + (nk(k),))
        else:
            yield pre + (nk(k),), v


def stream_update_merge(ctx, drv, cfgmod, env):
    """the public `update(old, new, priority, defaults)` (all three priorities, defaults absent / empty / mapping /
    scalar) and `merge(*dicts)` on the caller's own dictionaries: result and exception against the model, and
    "nested updates merge without dropping sibling keys" / "the later mapping wins" on the real result."""
    drv.ask({"op": "init", "env": env, "config": to_tree({}), "defaults": []})
    for c in range(ctx.n(500, 5000)):
        rng = ctx.rng.fork(1_000_000 + c)
        if rng.chance(0.7):
            old, new = gen_plain_dict(rng), gen_plain_dict(rng)
            if rng.chance(0.3) and old:    # the other spelling of a key of `old`
                k = rng.choice(list(old))
                if alt(k) != k and nk(k) not in [nk(x) for x in new]:
                    new[alt(k)] = gen_plain_dict(rng, 1) if rng.chance(0.4) else gen_leaf(rng)
            prio = rng.choice(["old", "new", "new-defaults"])
            defs = rng.weighted([(None, 2), ("dict", 5), ({}, 1), (5, 0.3), ("s", 0.3), (0, 0.3)])
            if defs == "dict":
                defs = gen_plain_dict(rng)
                defs.pop("device", None)
                for k, v in list(old.items()):     # make "value still equals the default" frequent
                    if rng.chance(0.5) and k != "device":
                        defs[alt(k) if rng.chance(0.3) and nk(k) not in [nk(x) for x in defs if x != k] and k not in defs else k] = copy.deepcopy(v)
                if not twin_free(defs):
                    defs = {k: v for k, v in defs.items() if k in old}
            o = real(old)
            try:
                ret = cfgmod.update(o, real(new), priority=prio, defaults=real(defs) if defs is not None else None)
                impl = {"out": to_tree(o), "res": {"ok": None}}
                if ret is not o:
                    ctx.disagree("update-returns-old", {"old": old, "new": new}, "the `old` object", type(ret).__name__)
            except Exception as e:  # noqa
                impl = {"out": to_tree(o), "res": {"err": err_name(e)}}
            m = drv.ask({"op": "update", "old": to_tree(old), "new": to_tree(new), "priority": prio,
                         "defaults": None if defs is None else to_tree(defs)})["r"]
            ctx.count()
            ctx.dist[f"update:{prio}:" + (impl["res"].get("err") or "ok")] += 1
            ctx.mark(("update", prio, impl["res"].get("err") or "ok", type(defs).__name__, bool(old), bool(new)))
            case = {"stream": "update", "old": old, "new": new, "priority": prio, "defaults": defs}
            if m != json.loads(json.dumps(impl)):
                ctx.disagree("update", case, m, impl)
            if "err" in impl["res"] or not all(all_uniform(x) and twin_free(x) for x in (old, new)) or "device" in new:
                continue
            out, newp = dict(leaf_paths(o)), dict(leaf_paths(new))
            for pth, v in leaf_paths(old):
                if not any(pth[: min(len(pth), len(q))] == q[: min(len(pth), len(q))] for q in newp):
                    if pth not in out or out[pth] != real(v):
                        ctx.pred_fail("update-drops-sibling", "nested update dropped / changed a key the new mapping does not mention", case,
                                      observed=out.get(pth, "<absent>"), required=v)
            if prio == "new":
                for pth, v in newp.items():
                    if out.get(pth, "<absent>") != norm(real(v)) and not (isinstance(v, dict) and out.get(pth) in ({}, None)):
                        ctx.pred_fail("update-new-loses", "update with priority 'new' did not store the new value", case,
                                      observed=out.get(pth, "<absent>"), required=v)
        else:
            dicts = [gen_plain_dict(rng) for _ in range(rng.randint(0, 4))]
            try:
                impl = {"ok": to_tree(cfgmod.merge(*[real(d) for d in dicts]))}
            except Exception as e:  # noqa
                impl = {"err": err_name(e)}
            m = drv.ask({"op": "merge", "dicts": [to_tree(d) for d in dicts]})["r"]
            ctx.count()
            ctx.dist["merge:" + (impl.get("err") or "ok")] += 1
            case = {"stream": "merge", "dicts": dicts}
            if m != json.loads(json.dumps(impl)):
                ctx.disagree("merge", case, m, impl)


# (registered default, value the user sets): either another type with the same str(), or ==-equal values that print
# differently; `update_defaults` must compare them as Python VALUES ("2" != 2, 5.0 == 5, True == 1)
COINCIDENCES = [(2, "2"), ("2", 2), (None, "None"), ("None", None), (False, "False"), ("False", False), (True, "True"), ("True", True),
                (0.5, "0.5"), ("0.5", 0.5), ("7", 7), (7, "7"), ([1, 2], "[1, 2]"), ("[1, 2]", [1, 2]), ([], "[]"), ("", None), (None, ""),
                (0, "0"), ("0", 0), (0, None), (None, 0), (False, None), (None, False), (0, ""), ("", 0), ("", False), ([], None),
                (5, 5.0), (5.0, 5), (True, 1), (1, True), (False, 0), (0, False), (1.0, True), (True, 1.0), (0.0, False), (0, 0.0),
                (2.0, 2), ("float32", "float32"), (7, 7), (None, None), ("", ""), ([1, 2], [1, 2])]


def stream_coincidences(ctx, drv, cfgmod, env, module_state):
    """a FIXED block of histories (in every run, independent of the seed): register a default, set a value that
    coincides with it in text or in value, register a new default on the same key, read, refresh, read — over the
    coincidence table x key forms (flat, nested, the other '-'/'_' spelling, a shipped default) x start states."""
    forms = [("k9", "k9", "k9"), ("sec.k9", "sec.k9", "sec.k9"), ("a_b9", "a-b9", "a-b9"), ("viz.c-d9", "viz.c_d9", "viz.c_d9")]

    def nest(key, v):
        out = v
        for seg in reversed(key.split(".")):
            out = {seg: out}
        return out

    for d, u in COINCIDENCES:
        for n in ("NEW", 99):
            for kd, ku, kn in forms:
                for init in ("empty", "module"):
                    ops = [{"op": "update_defaults", "new": nest(kd, d)}, {"op": "set", "arg": [[ku, u]], "kwargs": []},
                           {"op": "update_defaults", "new": nest(kn, n)}, {"op": "get", "key": kd}, {"op": "refresh"},
                           {"op": "get", "key": ku}]
                    run_sequence(ctx, drv, cfgmod, ops, init, env, module_state, env)
            # the shipped default mkl.threads = 2 / verbose = 1 (no registration step of our own)
        for key, dflt in (("mkl.threads", 2), ("verbose", 1), ("viz.cmap", "gray")):
            if d == dflt and type(d) is type(dflt):
                ops = [{"op": "set", "arg": [[key, u]], "kwargs": []}, {"op": "update_defaults", "new": nest(key, "NEW")},
                       {"op": "get", "key": key}, {"op": "refresh"}, {"op": "get", "key": key}]
                run_sequence(ctx, drv, cfgmod, ops, "module", env, module_state, env)
    # the same on the shipped defaults with the user's value typed as text / as a float
    for key, u in (("mkl.threads", "2"), ("mkl.threads", 2.0), ("verbose", "1"), ("verbose", 1.0), ("verbose", True),
                   ("warnings.suppress-all-", "False"), ("warnings.suppress-all-", 0), ("viz.cmap", "gray")):
        ops = [{"op": "set", "arg": [[key, u]], "kwargs": []}, {"op": "update_defaults", "new": nest(key, "NEW")},
               {"op": "get", "key": key}, {"op": "refresh"}, {"op": "get", "key": key}]
        run_sequence(ctx, drv, cfgmod, ops, "module", env, module_state, env)


def gen_sequence(rng):
    touched, ops, depth = [], [], 0
    for _ in range(rng.randint(2, 14)):
        if depth < 2 and rng.chance(0.07):
            while True:      # `cm = set(...); cm.__enter__()` with a body of further operations
                op = gen_op(rng, touched)
                if op["op"] in ("set", "with") and "via" not in op:
                    break
            op["op"] = "enter"
            depth += 1
        elif depth > 0 and rng.chance(0.3):
            op = {"op": "exit"}
            if rng.chance(0.25):
                op["raise"] = True
            depth -= 1
        else:
            op = gen_op(rng, touched)
        for k, _v in op.get("arg", []):
            touched.append(k.split("."))
        ops.append(op)
    ops.extend({"op": "exit"} for _ in range(depth))
    return ops


def run(ctx):
    from qv.driver import Driver
    cfgmod = _module()
    env = device_available()
    env["cur"] = 0
    saved_cfg = copy.deepcopy(cfgmod.config)
    saved_defaults = copy.deepcopy(cfgmod.defaults)
    drv = Driver("C19")
    try:
        stream_signatures(ctx, cfgmod)
        stream_initialize(ctx, drv, cfgmod, saved_cfg, saved_defaults, env)
        stream_validate_device(ctx, drv, cfgmod, env)
        stream_update_merge(ctx, drv, cfgmod, env)
        stream_coincidences(ctx, drv, cfgmod, env, (saved_cfg, saved_defaults))
        from . import c19_r6     # growth 6: fixed blocks for the size / asymmetry / shortcut input classes
        c19_r6.run_all(ctx, drv, cfgmod, env, (saved_cfg, saved_defaults))
        nseq = ctx.n(4000, 30000)
        for s in range(nseq):
            rng = ctx.rng.fork(s)
            init = "module" if rng.chance(0.5) else "empty"
            ops = gen_sequence(rng)
            senv = env
            if rng.chance(0.25):
                # simulated device environment; check_key_val reads config["has_cupy"] after a CUDA request, so these
                # histories start from the module's own state (which holds has_cupy = False on this image)
                senv = rng.choice(SIM_ENVS)
                init = "module"
            run_sequence(ctx, drv, cfgmod, ops, init, senv, (saved_cfg, saved_defaults), env)
    finally:
        drv.close()
        cfgmod.config.clear()
        cfgmod.config.update(saved_cfg)
        cfgmod.defaults[:] = saved_defaults


def replay(ctx, rep):
    from qv.driver import Driver
    cfgmod = _module()
    case = rep.get("case") or rep.get("correspondence_disagreements", [{}])[0].get("case")
    drv = Driver("C19")
    saved_cfg = copy.deepcopy(cfgmod.config)
    saved_defaults = copy.deepcopy(cfgmod.defaults)
    env = device_available()
    env["cur"] = 0
    try:
        if "ops" in case:
            run_sequence(ctx, drv, cfgmod, case["ops"], case["init"], case.get("env") or env, (saved_cfg, saved_defaults), env)
        elif str(case.get("stream", "")).startswith("r6-"):
            from . import c19_r6
            c19_r6.validate_two_digit(ctx, drv, cfgmod, env)
            c19_r6.two_stores(ctx, cfgmod, (saved_cfg, saved_defaults))
            c19_r6.non_mapping_arg(ctx, cfgmod, (saved_cfg, saved_defaults))
        elif case.get("stream") == "validate_device":
            stream_validate_device(ctx, drv, cfgmod, env)
        elif case.get("stream") == "initialize":
            stream_initialize(ctx, drv, cfgmod, saved_cfg, saved_defaults, env)
        elif case.get("stream") in ("update", "merge"):
            stream_update_merge(ctx, drv, cfgmod, env)
        else:
            stream_signatures(ctx, cfgmod)
    finally:
        drv.close()
        cfgmod.config.clear()
        cfgmod.config.update(saved_cfg)
        cfgmod.defaults[:] = saved_defaults
    return True
