"""C16, growth round 6 — streams `stack` and `geom` (registered in props/c16.py).

`stack`: GENUINE multislice Ptychography objects (num_slices 2..5, 1..3 probe modes, non-square ROIs both ways,
thickness lists with pairwise different gaps such as [2,3,5]) driven through the public API only:
kernels per gap (public `propagators` getter) against the independent single-gap kernel of the gap's own thickness and the
Lean model, composition / inverse inside a stack ([d,-d] through `overlap_projection` with vacuum slices = identity; Lean
`propagate_stack`), kernels after the thicknesses / the tilt change (`slice_thicknesses` setter, `compute_propagator_arrays`,
the `learn_probe_tilt` branch of `forward_operator`), a second instance alive with a transposed ROI, and the real forward
path obj_model.forward -> probe_model.forward -> forward_operator(descan) -> detector_model.forward with >= 2 modes AND
>= 2 slices (pure-phase energy, per-slice energy, independent multislice oracle, Lean forward_operator).

`geom`: non-square shapes both ways: whole-pixel shifts with column / row shifts that are negative or >= the axis length
(= roll, additivity), patch windows that wrap at the last row / column (exact adjoint), two `sum_patches` results alive at
once for the same object size / dtype (first one used after the second call), the `expand_dim` / `dtype` options of
`fourier_translation_operator` (Lean `translation_opt`), and call sequences in which shape / positions change between calls.

Everything in the fixed blocks is independent of VERIF_SEED."""
import numpy as np


def _c():
    from props import c16
    return c16


STACK_TABLE = [      # roi, num_slices, modes, thicknesses, tilt (mrad), obj_type
    ((6, 9), 4, 2, [2.0, 3.0, 5.0], (0.0, 0.0), "pure_phase"),
    ((9, 6), 4, 3, [5.0, 3.0, 2.0], (3.0, -4.0), "potential"),
    ((5, 5), 3, 1, [4.0, 6.5], (-5.0, 0.0), "complex"),
    ((4, 7), 3, 2, [1.5, 6.0], (0.0, 7.0), "pure_phase"),
    ((7, 4), 5, 2, [1.0, 2.0, 3.0, 6.0], (-2.0, -3.0), "potential"),
    ((8, 8), 2, 3, [10.0], (0.0, 0.0), "pure_phase"),
]
GEOM_SHAPES = [(6, 9), (9, 6), (3, 8), (8, 3), (5, 5), (1, 4), (7, 2)]


def mk_multislice(ctx, roi, S, M, thick, obj_type, scan=(2, 2), seed=0):
    """a real preprocessed multislice Ptychography built through the public constructors; None if the factory fails"""
    import warnings
    from props import ptycho_tiny as pt
    from quantem.diffractive_imaging.detector_models import DetectorPixelated
    from quantem.diffractive_imaging.object_models import ObjectPixelated
    from quantem.diffractive_imaging.probe_models import ProbePixelated
    from quantem.diffractive_imaging.ptychography import Ptychography
    try:
        with warnings.catch_warnings():
            warnings.simplefilter("ignore")
            pd = pt.make_dataset(scan, tuple(roi), seed, 2, detector_mask=None)
            om = ObjectPixelated.from_uniform(num_slices=S, obj_type=obj_type, slice_thicknesses=list(thick), rng=pt.make_rng(1, "int"))
            pm = ProbePixelated.from_array(num_probes=M, probe_array=pt.tiny_probe(tuple(roi), num_probes=M),
                                           probe_params={"energy": pt.PROBE_ENERGY, "semiangle_cutoff": 20}, rng=pt.make_rng(1, "int"))
            p = Ptychography.from_models(dset=pd, obj_model=om, probe_model=pm, detector_model=DetectorPixelated(), rng=pt.make_rng(1, "int"), verbose=0)
            p.preprocess(obj_padding_px=(0, 0), val_ratio=0.0, val_mode="grid", plot_rotation=False, plot_com=False)
        return p, float(pt.PROBE_ENERGY)
    except Exception as e:   # noqa: BLE001  (factory, not the operators under test)
        ctx.dist[f"stack.factory-failed:{type(e).__name__}"] += 1
        return None, None


def kernels_of(p):
    return np.asarray(p.propagators.detach()).astype(np.complex128)


def oracle_stack(nr, nc, samp, energy, dzs, tilt):
    c = _c()
    return np.stack([c.oracle_propagator(nr, nc, float(samp[0]), float(samp[1]), energy, float(d), float(tilt[0]), float(tilt[1])) for d in dzs])


def check_kernels(ctx, drv, case, p, energy, dzs, tilt, tag, lean=False):
    """the instance's kernels (public getter) are the Fresnel kernels of its CURRENT thicknesses and tilt"""
    c = _c()
    nr, nc = (int(v) for v in p.roi_shape)
    samp = np.asarray(p.sampling, dtype=np.float64)
    K = kernels_of(p)
    if K.shape != (len(dzs), nr, nc):
        ctx.disagree("stack-propagators", case, [len(dzs), nr, nc], list(K.shape), f"shape ({tag})")
        return None
    OK = oracle_stack(nr, nc, samp, energy, dzs, tilt)
    c.pred(ctx, f"stack-kernel-current:{tag}", f"a gap's kernel is not the Fresnel kernel of the gap's own current thickness / tilt ({tag})", case, K, OK, c.TOL32, "stack kernels vs oracle")
    c.pred(ctx, "stack-unit-modulus", "|propagator| != 1 in a stack", case, np.abs(K), np.ones_like(K.real), 1e-5, "|stack kernel|=1")
    c.pred(ctx, "stack-compose-kernel", "product of the kernels of a stack != kernel of the summed thickness", case, np.prod(K, axis=0),
           oracle_stack(nr, nc, samp, energy, [float(sum(dzs))], tilt)[0], c.TOL32, "stack kernel composition vs oracle")
    if lean:
        mP = c.model_propagators(drv, nr, nc, float(samp[0]), float(samp[1]), energy, float(tilt[0]), float(tilt[1]), len(dzs) + 1, [float(d) for d in dzs])
        for s in range(len(dzs)):
            c.corr(ctx, "stack-propagators", case, mP[s], K[s], c.TOL32, note=f"gap {s} dz={dzs[s]} ({tag})")
    return K


def s_stack(ctx, drv, I, case):
    from qv.prng import Rng
    c = _c()
    torch = I.torch
    rng = Rng(case["rseed"])
    if "fixed" in case:
        roi, S, M, dzs, tilt, obj_type = STACK_TABLE[case["fixed"] % len(STACK_TABLE)]
    else:
        roi = (rng.randint(3, 9), rng.randint(3, 9))
        S, M = rng.randint(2, 5), rng.randint(1, 3)
        dzs = [c.dy(rng, 1, 12, 4) for _ in range(S - 1)]
        tilt = (0.0 if rng.chance(0.3) else c.dy(rng, -8, 8, 4), 0.0 if rng.chance(0.3) else c.dy(rng, -8, 8, 4))
        obj_type = rng.choice(["pure_phase", "potential", "complex"])
    nr, nc = roi
    case.update({"shape": [nr, nc], "num_slices": S, "modes": M, "dz": list(dzs), "tilt": list(tilt), "obj_type": obj_type})
    ctx.count()
    ctx.mark(("stack", c.psig(nr, nc), nr < nc, S, M, obj_type, tilt[0] != 0, tilt[1] != 0))
    ctx.dist[f"stack.slices={S},modes={M}"] += 1
    ctx.dist[f"stack.orientation={'H<W' if nr < nc else 'H>W' if nr > nc else 'square'}"] += 1
    p, energy = mk_multislice(ctx, roi, S, M, dzs, obj_type)
    if p is None:
        return
    if int(p.num_slices) != S or int(p.num_probes) != M or tuple(int(v) for v in p.roi_shape) != (nr, nc):
        ctx.disagree("stack", case, [S, M, nr, nc], [int(p.num_slices), int(p.num_probes)] + [int(v) for v in p.roi_shape], "factory geometry")
        return
    samp = np.asarray(p.sampling, dtype=np.float64)
    sr, sc = float(samp[0]), float(samp[1])
    # ---- (1) kernels as built (tilt 0), then with the tilt, through the public entry points
    if check_kernels(ctx, drv, case, p, energy, dzs, (0.0, 0.0), "as-built") is None:
        return
    p.probe_model.probe_tilt = tuple(tilt)
    p.compute_propagator_arrays()
    K = check_kernels(ctx, drv, case, p, energy, dzs, tilt, "tilt-set", lean=True)
    if K is None:
        return
    # ---- (2) each gap = the single-gap kernel of its own thickness (two-slice call); [d,-d] inside a stack
    try:
        for s, d in enumerate(dzs):
            K1 = c.impl_propagators(I, ctx, nr, nc, sr, sc, energy, tilt[0], tilt[1], 2, [d]).numpy().astype(np.complex128)
            c.pred(ctx, "stack-gap-eq-single", "kernel of a gap inside a stack != kernel of a two-slice call with that thickness", case, K[s], K1[0], 1e-5, "gap vs single-gap call")
        d0 = float(dzs[0])
        Kpm = c.impl_propagators(I, ctx, nr, nc, sr, sc, energy, tilt[0], tilt[1], 3, [d0, -d0]).numpy().astype(np.complex128)
        c.pred(ctx, "stack-inverse-kernel", "P(d)*P(-d) != 1 inside one stack [d,-d]", case, Kpm[0] * Kpm[1], np.ones_like(Kpm[0]), c.TOL32, "[d,-d] kernel product")
    except c.PrivateGone:
        Kpm = np.stack([K[0], np.conj(K[0])])      # definitional fallback: unit-modulus kernel, conj = kernel of -d (flagged by skip_private)
    p3, _ = (p, energy) if S == 3 else mk_multislice(ctx, roi, 3, M, [1.0, 1.0], "complex")
    if p3 is not None:
        saved = p3.propagators.detach().clone()
        p3.propagators = torch.tensor(Kpm.astype(np.complex64))      # public setter
        nb = 2
        probes = c.carr(rng, (M, nb, nr, nc)).astype(np.complex64)
        ones = torch.ones((3, nb, nr, nc), dtype=torch.complex64)
        _pp, ov = p3.overlap_projection(ones, torch.tensor(probes))
        ovn = ov.numpy().astype(np.complex128)
        c.pred(ctx, "stack-d-minus-d-identity", "overlap_projection through vacuum slices with the stack [d,-d] is not the identity", case, ovn, probes.astype(np.complex128), c.TOL32, "[d,-d] stack identity")
        mo = c.dec_img(c.ask(drv, {"op": "propagate_stack", "a": c.enc_img(probes[0, 0].astype(np.complex128)), "props": [c.enc_img(Kpm[0]), c.enc_img(Kpm[1])]})["ok"])
        c.corr(ctx, "stack-propagate-stack", case, mo, ovn[0, 0], c.TOL32, note="vacuum overlap_projection vs Lean propagateStack")
        p3.propagators = saved
    # ---- (3) thicknesses change (public setter refreshes the kernels); a second instance alive with the transposed ROI
    dz2 = list(reversed(dzs)) if list(reversed(dzs)) != list(dzs) else [d + 1.25 for d in dzs]
    p.slice_thicknesses = dz2
    check_kernels(ctx, drv, case, p, energy, dz2, tilt, "after-slice_thicknesses-set")
    dz_other = [d + 0.75 for d in dzs]
    p2, e2 = mk_multislice(ctx, (nc, nr), S, M, dz_other, obj_type)
    if p2 is not None:
        check_kernels(ctx, drv, case, p2, e2, dz_other, (0.0, 0.0), "second-instance")
        check_kernels(ctx, drv, case, p, energy, dz2, tilt, "first-instance-after-second-built")
    if S > 2:
        p.slice_thicknesses = 2.5                  # scalar form: every gap the same thickness
        check_kernels(ctx, drv, case, p, energy, [2.5] * (S - 1), tilt, "after-scalar-thickness")
        p.slice_thicknesses = dz2
        check_kernels(ctx, drv, case, p, energy, dz2, tilt, "after-slice_thicknesses-set-again")
    # ---- (4)+(5) the real forward path, >= 2 slices (and mostly >= 2 modes); second half with the learn_probe_tilt branch
    if not hasattr(p.obj_model, "_obj"):
        c.skip_private(ctx, "ObjectPixelated()._obj (stack forward path)")
        return
    idx_t = p.dset.patch_indices
    nb = int(idx_t.shape[0])
    H, W = (int(v) for v in p.obj_shape_full[-2:])
    phi = c.rarr(rng, (S, H, W), 0, 3, 64).astype(np.float32)
    if obj_type == "potential":
        newobj = torch.tensor(phi, dtype=torch.float32)
    else:
        newobj = torch.tensor(np.exp(1j * phi).astype(np.complex64))
    p.obj_model._obj.data = newobj
    cur_tilt = tuple(tilt)
    for phase in ("plain", "learn-tilt"):
        if phase == "learn-tilt":
            cur_tilt = (float(tilt[1]) + 1.5, float(tilt[0]) - 2.5)       # exchanged + changed: row / column roles must not be confused
            p.probe_model.learn_probe_tilt = True
            p.probe_model.probe_tilt = cur_tilt                            # NOT followed by compute_propagator_arrays(): forward_operator must refresh
        patches = p.obj_model.forward(idx_t)
        fvals = np.array([[c.dy(rng, -0.5, 0.5, 64), c.dy(rng, -0.5, 0.5, 64)] for _ in range(nb)])
        shifted = p.probe_model.forward(torch.tensor(fvals, dtype=torch.float32))
        dvals = np.array([[c.dy(rng, -2, 2, 64), c.dy(rng, -2, 2, 64)] for _ in range(nb)])
        descan = torch.tensor(dvals, dtype=torch.float32)
        pn, sn = patches.detach().numpy().astype(np.complex128), shifted.detach().numpy().astype(np.complex128)
        if tuple(pn.shape) != (S, nb, nr, nc) or tuple(sn.shape) != (M, nb, nr, nc):
            ctx.disagree("stack-forward", case, [[S, nb, nr, nc], [M, nb, nr, nc]], [list(pn.shape), list(sn.shape)], "patch / probe shapes")
            return
        pp, overlap = p.forward_operator(patches.clone(), shifted.clone(), descan.clone())
        on = overlap.detach().numpy().astype(np.complex128)
        ppn = pp.detach().numpy().astype(np.complex128)
        Kc = check_kernels(ctx, drv, case, p, energy, dz2, cur_tilt, f"after-forward:{phase}")
        if Kc is None:
            return
        inten = p.detector_model.forward(overlap).detach().numpy().astype(np.float64)
        unit = c.maxabs(np.abs(pn) - 1.0) <= 1e-5
        ctx.dist[f"stack.patches_unit_modulus={unit}"] += 1
        ptot = float(np.sum(np.abs(p.probe_model.probe.detach().numpy().astype(np.complex128)) ** 2))
        if unit:
            c.pred(ctx, f"purephase-energy:stack:{obj_type}:{phase}", "summed predicted diffraction intensity != probe total intensity (genuine multislice instance, float32)", case,
                   inten.sum(axis=(1, 2)) / ptot, np.ones(nb), c.TOL32, "pure-phase energy on a multislice instance (float32)")
            e_in = np.sum(np.abs(sn) ** 2, axis=(-2, -1))                   # (M, nb)
            e_sl = np.sum(np.abs(ppn) ** 2, axis=(-2, -1))                  # (S, M, nb)
            c.pred(ctx, "stack-slice-energy", "the probe entering a slice does not carry the intensity of the input probe (unit-modulus patches)", case,
                   e_sl / e_in[None], np.ones_like(e_sl), c.TOL32, "per-slice probe energy")
        # independent multislice with independent kernels of the CURRENT thicknesses and tilt
        OKc = oracle_stack(nr, nc, samp, energy, dz2, cur_tilt)
        w = pn[0][None] * sn
        for s in range(1, S):
            w = pn[s][None] * np.fft.ifft2(np.fft.fft2(w) * OKc[s - 1])
        w = w * c.oracle_ramp(nr, nc, dvals)[None]
        c.pred(ctx, f"stack-forward-oracle:{phase}", "forward_operator != independent multislice (kernels of the current thicknesses / tilt, descan ramp)", case, on, w, c.TOL32, "multislice forward vs oracle")
        b = rng.below(nb)
        req = {"op": "forward_operator", "patches": [c.enc_img(pn[s, b]) for s in range(S)], "props": [c.enc_img(Kc[s]) for s in range(S - 1)],
               "probes": [c.enc_img(sn[m_, b]) for m_ in range(M)], "descan": [c.f2b(float(dvals[b, 0])), c.f2b(float(dvals[b, 1]))]}
        r = c.ask(drv, req)["ok"]
        for m_ in range(M):
            c.corr(ctx, f"stack-forward-operator:{phase}", case, c.dec_img(r["overlap"][m_]), on[m_, b], c.TOL32)
        md = c.dec_rows(c.ask(drv, {"op": "detector", "waves": r["overlap"]})["ok"])
        c.corr(ctx, "stack-forward-detector", case, md, inten[b], c.TOL32)
    ctx.sample({k: case[k] for k in ("stream", "rseed", "shape", "num_slices", "modes", "dz", "tilt", "obj_type")}, limit=6)


# ----------------------------------------------------------------------------- geom
def _cint(a):
    return [complex(int(round(z.real)), int(round(z.imag))) for z in np.asarray(a).reshape(-1)]


def s_geom(ctx, drv, I, case):
    from qv.prng import Rng
    c = _c()
    torch = I.torch
    rng = Rng(case["rseed"])
    nr, nc = GEOM_SHAPES[case["fixed"] % len(GEOM_SHAPES)] if "fixed" in case else (rng.randint(1, 10), rng.randint(1, 10))
    case.update({"shape": [nr, nc]})
    ctx.count()
    ctx.mark(("geom", c.psig(nr, nc), nr < nc, nr > nc))
    ctx.dist[f"geom.orientation={'H<W' if nr < nc else 'H>W' if nr > nc else 'square'}"] += 1
    # ---- (a) whole-pixel shifts: negative, >= axis length, row and column roles different
    shifts = [(0, -1), (0, nc), (0, nc + 2), (nr, 0), (nr + 1, -nc - 1), (-1, 2 * nc + 1), (nr - 1, nc - 1), (-nr - 2, 1)]
    second = shifts[3:] + shifts[:3]
    x = c.iarr(rng, (nr, nc), -8, 8) + 1j * c.iarr(rng, (nr, nc), -8, 8)
    for pkind, use_np in (("float64", False), ("int64", False), ("float64", True)):
        pos = c.mkpos(I, shifts, pkind, use_np)
        xin = x.astype(np.complex128) if use_np else torch.tensor(x, dtype=torch.complex128)
        y = I.pu.fourier_shift_expand(xin, pos)
        y = np.asarray(y) if use_np else y.numpy()
        want = np.stack([np.roll(x, s, axis=(0, 1)) for s in shifts])
        c.pred(ctx, f"shift-int-roll:geom:{pkind}", "integer Fourier shift (negative / >= axis length, non-square) is not the circular roll", case, y, want, c.TOL32, "geom shift=roll")
        ta = np.asarray(I.pu.fourier_translation_operator(pos, (nr, nc)))
        tb = np.asarray(I.pu.fourier_translation_operator(c.mkpos(I, second, pkind, use_np), (nr, nc)))
        ssum = [[a[0] + b[0], a[1] + b[1]] for a, b in zip(shifts, second)]
        c.pred(ctx, f"ramp-int-oracle:geom:{pkind}", "translation operator of an integer shift != independent ramp", case, ta, c.oracle_ramp(nr, nc, shifts), c.TOL32, "geom ramp vs oracle")
        c.pred(ctx, f"ramp-int-additive:geom:{pkind}", "T(a)*T(b) != independent ramp of a+b", case, ta * tb, c.oracle_ramp(nr, nc, ssum), c.TOL32, "geom ramp additivity")
        if pkind == "float64" and not use_np:
            for b_, (s2, ss) in enumerate(zip(second, ssum)):
                y2 = I.pu.fourier_shift_expand(torch.tensor(y[b_]), c.mkpos(I, [s2], pkind, False))[0].numpy()
                c.pred(ctx, "shift-int-compose:geom", "two integer shifts are not the roll by the summed shift", case, y2, np.roll(x, tuple(ss), axis=(0, 1)), c.TOL32, "geom shift composition")
    for (s_r, s_c) in shifts[:5]:
        mre = c.ask(drv, {"op": "roll_int", "x": x.real.astype(np.int64).tolist(), "sr": s_r, "sc": s_c})["ok"]
        if not np.array_equal(np.array(mre).reshape(nr, nc), np.roll(x.real.astype(np.int64), (s_r, s_c), axis=(0, 1))):
            ctx.disagree("roll-int", case, mre, np.roll(x.real, (s_r, s_c), axis=(0, 1)).tolist(), "model roll2 != np.roll (geom)")
    # ---- (b) patch windows that wrap at the last row / column of a non-square object
    H, W = nr + 2, nc + 1
    pr, pc = min(3, H), min(4, W)
    origins = [(H - 1, W - 1), (H - 1, 0), (0, W - 1), (max(H - 2, 0), max(W - 3, 0))]
    idx = np.stack([((r0 + np.arange(pr)) % H)[:, None] * W + ((c0 + np.arange(pc)) % W)[None, :] for r0, c0 in origins]).astype(np.int64)
    n = H * W
    S = 2
    obj = c.iarr(rng, (S, H, W)) + 1j * c.iarr(rng, (S, H, W))
    pw = c.iarr(rng, idx.shape) + 1j * c.iarr(rng, idx.shape)
    for itype in ("int64", "int32"):
        idx_t = torch.tensor(idx, dtype=getattr(torch, itype))
        g = c.get_patches(I, ctx, torch.tensor(obj, dtype=torch.complex128), idx_t).numpy()
        sc_ = I.pu.sum_patches(torch.tensor(pw, dtype=torch.complex128), idx_t, (H, W)).numpy()
        want_g = obj.reshape(S, -1)[:, idx.reshape(-1)].reshape((S,) + idx.shape)
        want_s = np.zeros(n, dtype=np.complex128)
        np.add.at(want_s, idx.reshape(-1), pw.reshape(-1))
        if not np.array_equal(g, want_g):
            ctx.pred_fail("adjoint:wrap-last:gather", "patches that wrap at the last row / column are not obj[idx]", case, observed=str(g.reshape(-1)[:8].tolist()), required=str(want_g.reshape(-1)[:8].tolist()))
        if not np.array_equal(sc_.reshape(-1), want_s):
            ctx.pred_fail("adjoint:wrap-last:scatter", "sum_patches with windows wrapping at the last row / column is not the adjoint of the extraction (entrywise)", case,
                          observed=str(sc_.reshape(-1)[:12].tolist()), required=str(want_s[:12].tolist()))
        for s in range(S):
            lhs = sum(a.conjugate() * b for a, b in zip(_cint(g[s]), _cint(pw)))
            rhs = sum(a.conjugate() * b for a, b in zip(_cint(obj[s]), _cint(sc_)))
            if lhs != rhs:
                ctx.pred_fail("adjoint:wrap-last", "<gather(o,idx),p> != <o,scatter(p,idx)> (windows wrapping at the last row / column, exact integers)", case, observed=str(lhs), required=str(rhs))
    idxl = idx.reshape(-1).tolist()
    mg = c.ask(drv, {"op": "gather_int", "obj": obj[0].real.astype(np.int64).reshape(-1).tolist(), "idx": idxl})
    ms = c.ask(drv, {"op": "scatter_int", "n": n, "patches": pw.real.astype(np.int64).reshape(-1).tolist(), "idx": idxl})
    if "err" in mg or g[0].real.reshape(-1).tolist() != [float(v) for v in mg["ok"]]:
        ctx.disagree("gather-int", case, str(mg)[:200], g[0].real.reshape(-1).tolist()[:20], "geom wrap windows")
    if "err" in ms or sc_.real.reshape(-1).tolist() != [float(v) for v in ms["ok"]]:
        ctx.disagree("scatter-int", case, str(ms)[:200], sc_.real.reshape(-1).tolist()[:20], "geom wrap windows")
    # ---- (c) two (three) results of sum_patches alive at once: same object size and dtype, earlier ones used after later calls
    idx_t = torch.tensor(idx)
    for dt in ("complex128", "float64", "int64", "complex64", "float32"):
        tdt = getattr(torch, dt)
        fns = [("sum_patches", I.pu.sum_patches)] + ([("sum_patches_base", I.pu.sum_patches_base)] if not dt.startswith("complex") else [])
        for fname, fn in fns:
            ps = [c.iarr(rng, idx.shape, -9, 9) + (1j * c.iarr(rng, idx.shape, -9, 9) if dt.startswith("complex") else 0) for _ in range(3)]
            idxs = [idx, np.roll(idx, 1, axis=0), idx[::-1].copy()]
            outs = [fn(torch.tensor(np.asarray(pk), dtype=tdt), torch.tensor(ik), (H, W)) for pk, ik in zip(ps, idxs)]
            for k_, (pk, ik, o) in enumerate(zip(ps, idxs, outs)):
                want = np.zeros(n, dtype=np.complex128)
                np.add.at(want, ik.reshape(-1), np.asarray(pk, dtype=np.complex128).reshape(-1))
                if not np.array_equal(o.numpy().astype(np.complex128).reshape(-1), want):
                    ctx.pred_fail(f"two-alive:{fname}", f"{fname}: result {k_ + 1} of 3 (all kept alive, same object size / dtype {dt}) is not the adjoint scatter of ITS OWN patches after the later calls", case,
                                  observed=str(o.numpy().reshape(-1)[:10].tolist()), required=str(want[:10].tolist()))
            if any(c._share(outs[i], outs[j]) for i in range(3) for j in range(i + 1, 3)):
                ctx.pred_fail(f"two-alive-aliasing:{fname}", f"{fname}: results of different calls share storage ({dt})", case, observed="same storage", required="independent results")
    # ---- (d) options of fourier_translation_operator: expand_dim / dtype, shapes with 3 and 4 extents
    posv = np.array([[c.dy(rng, -3, 3, 64), c.dy(rng, -3, 3, 64)], [float(nr), -1.5]])
    for shape in ((2, nr, nc), (3, 2, nr, nc), (nr, nc)):
        for expand in (True, False):
            for dtp, use_np in ((None, False), (torch.complex128, False), ("complex64", False), (None, True), ("complex128", True), (torch.complex64, True)):
                pos = c.mkpos(I, posv, "float64", use_np)
                out = I.pu.fourier_translation_operator(pos, shape, expand, dtp) if dtp is not None else I.pu.fourier_translation_operator(pos, shape, expand_dim=expand)
                outn = np.asarray(out)
                ctx.dist[f"geom.translation.expand_dim={expand},dtype={'none' if dtp is None else 'given'}"] += 1
                m = c.ask(drv, {"op": "translation_opt", "shape": list(shape), "expand_dim": expand, "r": c.f2b(float(posv[0, 0])), "c": c.f2b(float(posv[0, 1]))})["ok"]
                want_shape = (2,) + (1,) * int(m["axes"]) + (nr, nc)
                if tuple(outn.shape) != want_shape:
                    ctx.disagree("translation-opt", case, list(want_shape), list(outn.shape), f"shape for shape={shape} expand_dim={expand}")
                    continue
                flat = outn.reshape(2, nr, nc).astype(np.complex128)
                c.corr(ctx, "translation-opt", case, c.dec_img(m["ramp"]), flat[0], c.TOL32, note=f"shape={shape} expand_dim={expand} dtype={dtp}")
                c.pred(ctx, "ramp-oracle:options", "translation operator (expand_dim / dtype options) != independent ramp of shape[-2:]", case, flat, c.oracle_ramp(nr, nc, posv), c.TOL32, "ramp with options vs oracle")
                if dtp is not None:
                    got = str(out.dtype).replace("torch.", "")
                    if got != str(dtp).replace("torch.", ""):
                        ctx.disagree("translation-opt", case, str(dtp), got, "dtype= not honoured")
    # ---- (e) call sequences: shape / positions change between calls of the same operator
    pa, pb = posv[:1], np.array([[-posv[0, 1], posv[0, 0] + 0.5]])
    xs = c.carr(rng, (nr, nc))
    for k_, (pv, (a_, b_)) in enumerate([(pa, (nr, nc)), (pa, (nc, nr)), (pb, (nr, nc)), (pa, (nr, nc)), (pb, (nc, nr))]):
        tpos = torch.tensor(pv)
        t_ = I.pu.fourier_translation_operator(tpos, (a_, b_)).numpy()
        c.pred(ctx, "ramp-oracle:sequence", f"translation operator, call {k_ + 1} of a sequence with changing shape / positions != independent ramp", case, t_, c.oracle_ramp(a_, b_, pv), c.TOL32, "ramp in a call sequence")
        xin = xs if (a_, b_) == (nr, nc) else xs.T.copy()
        y_ = I.pu.fourier_shift_expand(torch.tensor(xin), tpos).numpy()
        c.pred(ctx, "shift-oracle:sequence", f"fourier_shift_expand, call {k_ + 1} of a sequence with changing shape / positions != independent shift", case, y_, c.oracle_shift(xin, pv), c.TOL32, "shift in a call sequence")
        e0, e1 = np.sum(np.abs(xin) ** 2), np.sum(np.abs(y_[0]) ** 2)
        c.pred(ctx, "shift-energy:sequence", "Fourier shift changes total intensity (call sequence)", case, np.array([e1]), np.array([e0]), c.TOL64, "shift energy in a call sequence")
    ctx.sample({k: case[k] for k in ("stream", "rseed", "shape")}, limit=3)
