"""C20 — display normalisation (custom_normalizations.py + visualization.py callers).

Tie to the source, two routes, both on every run:
  * tracer: `pregenerate()` rewrites lean/QuantemModel/Generated/Stretch.lean by EXECUTING the *Stretch classes and
    BaseInterval.__call__/inverse of $QVERIF_REPO on symbolic values (harness/translator/stretch2lean.py); the theorems of
    Props/C20.lean are then re-checked against what the code computes now.  The tie is semantic: renamed locals, private
    helpers, in-place operators / out= / ndarray methods / np.divide aliases, commuted products give the same text;
  * correspondence: the real classes and the Lean definitions (generated text + hand model Model/Norm.lean) are run on the
    same inputs through Driver/C20.lean and compared.
Failing-input search: the property's own clauses evaluated on the real code's outputs, on single calls and on HISTORIES of
operations on one object (stretch parameter assigned after .inverse was read; rejected vmin/vmax assignments and rejected
calls between valid calls of one CustomNormalization).
quantem-PRIVATE names (_resolve_normalization, _show_2d_array, _show_2d_combined) are resolved defensively (`_private`): if a
refactoring removed one, the internal-stage stream is skipped with a note in the evidence and the public streams decide.
Exception MESSAGES are never compared, only types.
"""
import math
from fractions import Fraction

LEVEL = "proof"
EXTRA_PROPS = ["QuantemModel.Props.C20Ext"]   # growth 6: frozen limits applied to other frames, in-place NaN, order independence of the limits
MANIFEST_ENTRY = {
    "category": "proof",
    "text": "Lean 4 theorems at ℝ about the Lean text that a purpose-written TRACER regenerates on every run by executing the six "
            "*Stretch classes (construction guards, __call__, inverse) and BaseInterval.__call__/inverse of the current source on "
            "symbolic values (operators, in-place operators, out=, ndarray methods, NumPy protocols; parameter branches explored; "
            "canonical output) plus a hand model of get_limits, CustomNormalization and the preset table: the interval map is "
            "monotone into [0,1] and sends vmin/vmax to 0/1; every stretch with admissible parameters maps [0,1] into [0,1], fixes 0 "
            "and 1, is monotone, and S(S.inverse y)=y on [0,1] with the inverse the class declares — for every parameter, hence for "
            "the parameter an object carries at any point of its life; each generated body equals its closed form "
            "(generated_eq_spec_*, proved by shape-independent tactics: carrier rewriting, case split on the parameter tests, "
            "ring normalisation); the composition is monotone into [0,1], NaN is masked, for every stretch CustomNormalization can "
            "select and for all ten presets, with limits frozen by _set_limits or recomputed from the argument; manual/centered/"
            "quantile limits are ordered; the declared inverse is two-sided and CustomNormalization.inverse round-trips; INVARIANT "
            "over every history of operations on one object (calls, inverses, _set_limits, rejected operations, operations that "
            "raise): stretch kept, limits ordered, every returning call satisfies the property (history_invariant, "
            "history_call_spec, history_frozen); limits frozen from one frame and applied to any other frame (NaN / -inf / +inf), "
            "in-place overwrites, masked iff NaN, order independence of the limits, buffer-level aliasing (Props/C20Ext.lean). The generated text and the hand model are run at Float against the real classes "
            "(exact equality on the float64 linear path, 1e-9 / 5e-4 otherwise), single calls and histories, and the property "
            "clauses are evaluated on the real outputs as the failing-input search.",
    "note": "Trusted: Lean kernel + propext/Classical.choice/Quot.sound, the tracer (≈1000 lines; cross-checked by the Float "
            "correspondence on the very functions it traces), NumPy ufunc/promotion/quantile/masked_invalid semantics (modelled, sampled), "
            "IEEE rounding (theorems are over ℝ; measured deviation reported). Growth 6 (Props/C20Ext.lean): limits frozen from a frame A "
            "(or a bool frame) and the object applied to ANY frame B never raises and obeys every clause pixel-wise (frozen_any_frame_spec, "
            "frozen_any_frame_limits, bool_frozen_spec, create_frozen_any_frame_spec); A overwritten in place keeps untouched pixels and masks "
            "the NaNs (frozen_inplace_nan); a pixel is masked iff it is NaN (norm_masked_iff_nan, call_mask_iff_nan); the limits of every "
            "interval type and the whole call do not depend on the order of the pixels (getLimits_perm, call_perm); buffer-level model "
            "(Model/NormAlias.lean): copy=False leaves the result in the caller's array, so discarding the stretch's return value is sound "
            "(callBuf_nocopy, callBuf_copy, callViaBuffer_eq_call, callViaBuffer_copy_drops_stretch). Measured only: that __call__/inverse/"
            "rejected operations leave the real object unchanged (the step function of the history model; stream nhist); that the real "
            "stretches implement the buffer-level model (stream alias) and that results do not alias internal buffers (stream edge, "
            "result-aliased); images with more than 2**20 pixels (predicate + closed-form comparison only, they do not cross to the Lean "
            "driver); multi-array show_2d (stream grid: panel = array shown alone; the argument broadcasting itself is not modelled). "
            "Degenerate limits vmin=vmax make the 'limits to 0 and 1' clause unsatisfiable and are excluded from that clause only; inverted "
            "limits (vmin>vmax) and LinearStretch with non-default slope/intercept are outside the quantifier (correspondence only). "
            "Constructs the tracer cannot follow (data-dependent branches, float()/math.* on a parameter without the module's math, "
            "isinstance(param, float) validation, unknown ufuncs, dtype changes) surface as a broken tie, never as a crash.",
    "technique": "Lean 4 proof over tracer-generated definitions + model-vs-implementation correspondence (single calls and histories)",
}
RULE = ("a case is one (array, configuration, frozen|lazy) through CustomNormalization, one (stretch class, parameters, sample vector) "
        "through S / S.inverse / S∘S.inverse, one history on a stretch object (class, how the object is reached, parameter sequence), one "
        "history on a CustomNormalization (configuration, mode, operation sequence with rejected operations), one _resolve_normalization "
        "call, one _show_2d_* / show_2d call, one FIXED-block case (edge: special values x interval kind x frozen-other / frozen-inplace / "
        "frozen-bool / lazy; integer threshold frames; > 2**20-pixel images; alias: class x parameters x copy; grid: layout x norm form); "
        "distinct non-trivial = distinct "
        "(stream, dtype, ndim, mode, interval kind and which limits are explicit and their Python type, stretch class actually selected, "
        "NaN present, inf present, outcome; histories: class/how/length, rejected operations) with at least two distinct finite values")
TRUSTED = ["harness/translator/stretch2lean.py (symbolic execution of the real classes → Lean; what it follows and what it refuses is in its docstring)",
           "NumPy: ufunc out= semantics, NEP-50 promotion, np.quantile(method='linear') (modelled step by step, compared exactly on float64), "
           "np.ma.masked_invalid; matplotlib Normalize vmin/vmax setters (_sanitize_extrema)"]
ASSUMPTIONS = [
    "limits clause is required only when the interval's limits satisfy vmin < vmax (for vmin = vmax one point cannot go to both 0 and 1; the model theorem is stated under vmin < vmax, the degenerate point is still run for range/monotone/NaN)",
    "configurations with inverted limits (explicit vmin > vmax, negative half_range, lower_quantile > upper_quantile) are outside 'lower and upper limits'; they are run for correspondence only",
    "LinearStretch is in the quantifier only with its default slope/intercept (CustomNormalization cannot set them); other values: correspondence only",
    "limits clause: (a) on the limits the configuration DECLARES (explicit manual vmin/vmax incl. half-specified ones, a missing side being the data min/max; centered with half_range), (b) on the limits the object reports. In lazy mode (no data= at construction) the limits are recomputed from the argument: manual limits are probed with data ∪ {limits} (min/max unchanged), automatic centered limits likewise with a conditioning-aware slack at 0 (eps**power), quantile limits through their consequence that pixels at/beyond the reported limits sit at 0/1",
    "floating point: range/monotone/limits/inverse clauses are evaluated with slack 0 on the linear float64/int path, 1e-12 (float64) or 1e-4 (float32) after a transcendental stretch, 1e-9 (float64) / 5e-4 (float32) for S∘S.inverse",
    "automatic limits are read as declared by the interval type (centered: vcenter -/+ max|x - vcenter|, nothing clipped; manual without limits: data min/max): the reported limits must equal them (1e-12 relative, 1e-5 on float32) and pixel values more than 1e-3 of the range apart must be displayed differently (float64/int path)",
    "every input form of one declared configuration (keyword shorthand with one or both limits / quantiles, dict, NormalizationConfig) through the public show_2d must draw the identical image (ax.images[0]), and pixels at/beyond a declared limit are black/white; show_2d has no CustomNormalization-instance form and ignores keyword overrides next to a preset string, so those are not forms",
    "0-d and empty arrays, bool/complex dtypes and float16 are outside the quantifier (bool: correspondence only)",
    "histories: the stretches are public mutable dataclasses, so 'every stretch parameter' includes the parameter an object carries after an assignment of another ADMISSIBLE value (also on a copy.copy of the object, also reached as norm.stretch); an assignment of a colour limit that matplotlib REJECTS, or a call on an argument that cannot be normalised, is followed by valid calls which must satisfy the property as if the rejected operation had not happened. ACCEPTED assignments of norm.vmin/norm.vmax are not part of a history (what they mean for the interval is not for C20 to say)",
    "fixed block 'edge': the frozen limits (norm.vmin, norm.vmax) must be the limits the configuration declares for the frame given at construction as it was THEN (1e-12 relative; quantile: NumPy's linear quantile as oracle) — not for a later frame and not for that frame after it was overwritten in place; with frozen limits a pixel that was not overwritten must be displayed exactly as before the overwrite, and the result of an earlier call must not change when the object is called again",
    "images with more than 2**20 pixels: the limits reported / used must be the declared ones for ALL finite pixels of the image (1e-9 relative), pixels at/beyond them sit at exactly 0 / 1, pixels strictly inside strictly between 0 and 1 (default linear stretch), and every pixel equals clip01((x - vmin) / (vmax - vmin)) within 1e-9 (correspondence with the closed form the model is proved equal to)",
    "multi-array show_2d: every panel must be drawn exactly as show_2d draws that array alone with the norm meant for that panel (only the unambiguous norm forms: one value for all panels, one per panel of a single row / column, a full 2-D list, None; ambiguous broadcasts are not used), and under a min-max norm the panel's own minimum / maximum are black / white",
    "in a history the limits the configuration declares for the array in hand (quantile: NumPy's linear quantile as oracle) decide 'at/beyond the limit -> 0 / 1', with slack max(1e-9, 1e-13**power)",
]
EXPLANATION = ("Theorems in Props/C20.lean are about Generated/Stretch.lean (regenerated by executing the source each run) and Model/Norm.lean; "
               "each run executes both at Float against the real code and evaluates the property clauses on the real outputs.")

DTYPES = ["int8", "int16", "int32", "int64", "uint8", "uint16", "uint32", "uint64", "float32", "float64"]
STRETCH_CLASSES = ["LinearStretch", "PowerLawStretch", "LogarithmicStretch", "InverseLogarithmicStretch",
                   "InverseHyperbolicSineStretch", "HyperbolicSineStretch"]
CFG_FIELDS = ["interval_type", "stretch_type", "lower_quantile", "upper_quantile", "vmin", "vmax", "vcenter", "half_range",
              "power", "logarithmic_index", "asinh_linear_range"]
NUM_FIELDS = ["lower_quantile", "upper_quantile", "vmin", "vmax", "vcenter", "half_range", "power", "logarithmic_index",
              "asinh_linear_range"]
DEFAULT_CFG = {"interval_type": "quantile", "stretch_type": "linear", "lower_quantile": 0.02, "upper_quantile": 0.98, "vmin": None,
               "vmax": None, "vcenter": 0.0, "half_range": None, "power": 1.0, "logarithmic_index": 1000.0, "asinh_linear_range": 0.1}


def pregenerate():
    """called by the runner before `lake build`: trace the *Stretch classes / BaseInterval of $QVERIF_REPO/src again.
    Raises TranslationError (recorded as a broken tie, the previous file stays) if the code does something the tracer
    cannot follow; it never crashes the check."""
    from translator import stretch2lean
    stretch2lean.regenerate()
    return None


# ---------------------------------------------------------------------------------------
# helpers

def _np():
    import numpy as np
    return np


def _cn():
    from quantem.core.visualization import custom_normalizations as cn
    return cn


def _private(ctx, module, name):
    """a quantem-PRIVATE name, resolved defensively: None (and a note in the evidence) when a refactoring removed it —
    the internal-stage stream that needs it is skipped and the public-API streams decide"""
    obj = getattr(module, name, None)
    if obj is None:
        ctx.extra.setdefault("private_names_missing", [])
        tag = f"{module.__name__.rsplit('.', 1)[-1]}.{name}"
        if tag not in ctx.extra["private_names_missing"]:
            ctx.extra["private_names_missing"].append(tag)
    return obj


def err_name(e):
    n = type(e).__name__
    return n if n in ("ValueError", "TypeError", "IndexError") else "Other:" + n


def fbits(x):
    from qv.driver import f2b
    return f2b(float(x))


def unbits(b):
    from qv.driver import b2f
    return None if b is None else b2f(b)


def jnum(x):
    """JSON-safe number for case files (nan/inf as strings)"""
    if isinstance(x, (bool, str)) or x is None:
        return x
    if isinstance(x, int):
        return x
    x = float(x)
    if x != x:
        return "nan"
    if x in (math.inf, -math.inf):
        return "inf" if x > 0 else "-inf"
    return x


def unj(x):
    if isinstance(x, str):
        return {"nan": math.nan, "inf": math.inf, "-inf": -math.inf}[x]
    return x


def close(a, b, tol, scale):
    """tolerance rule of DESIGN §3 on two optional floats (None = masked)"""
    if a is None or b is None:
        return a is None and b is None
    if a != a or b != b:
        return a != a and b != b
    if a == b:
        return True
    if math.isinf(a) or math.isinf(b):
        return False
    return abs(a - b) <= tol * scale


def loguniform(rng, lo, hi):
    return math.exp(rng.uniform(math.log(lo), math.log(hi)))


def nice(rng, x):
    """shorten a float to a few significant digits (readable replay files)"""
    return float(f"{x:.4g}")


# ---------------------------------------------------------------------------------------
# generators

def gen_data(rng, big=False):
    np = _np()
    dt = rng.weighted([("int8", 3), ("int16", 2), ("int32", 1), ("int64", 2), ("uint8", 3), ("uint16", 2), ("uint32", 1), ("uint64", 1),
                       ("float32", 4), ("float64", 6)])
    n = rng.weighted([(2, 1), (3, 2), (4, 2), (5, 2), (6, 2), (8, 2), (12, 2), (16, 1), (24, 1), (60 if not big else 240, 1)])
    if rng.chance(0.3):
        n = rng.randint(2, 40)
    vals = []
    if dt.startswith(("int", "uint")):
        info = np.iinfo(dt)
        lo, hi = int(info.min), int(info.max)
        cap = 2 ** 40
        style = rng.weighted([("full", 4), ("small", 3), ("around", 3), ("extreme", 1 if dt in ("int64", "uint64") else 0)])
        if style == "full":
            a, b = max(lo, -cap), min(hi, cap)
            vals = [rng.randint(a, b) for _ in range(n)]
        elif style == "small":
            a = max(lo, -12) if rng.chance(0.5) else 0
            vals = [rng.randint(a, 25) for _ in range(n)]
        elif style == "around":
            w = min(100, (hi - lo) // 4)
            c = rng.randint(max(lo, -cap) + w, min(hi, cap) - w)
            if lo < 0 and rng.chance(0.35):
                c = 0                                   # data on both sides of zero (a limit of exactly 0 then lies inside)
            vals = [c + rng.randint(-w, w) for _ in range(n)]
        else:
            a, b = (-(2 ** 62), 2 ** 62) if dt == "int64" else (0, 2 ** 63)
            vals = [rng.choice([a, b, 0, a // 2, b // 2, b // 3]) for _ in range(n)]
        arr = np.array(vals, dtype=dt)
    else:
        style = rng.weighted([("dyadic", 3), ("uniform", 4), ("zero", 2), ("wide", 2)])
        if style == "dyadic":
            c = rng.randint(-40, 40)
            vals = [c + rng.randint(-64, 64) / 8.0 for _ in range(n)]
        elif style == "zero":
            s = loguniform(rng, 1e-2, 1e3)
            vals = [s * rng.uniform(-1, 1) for _ in range(n)]       # both sides of zero
        elif style == "uniform":
            s = loguniform(rng, 1e-3, 1e4)
            c = s * rng.uniform(-8, 8)
            vals = [c + s * rng.uniform(-1, 1) for _ in range(n)]
        else:
            vals = [rng.choice([-1, 1, 1]) * loguniform(rng, 1e-3, 1e6) for _ in range(n)]
        arr = np.array(vals, dtype=dt)
        if rng.chance(0.5):
            for i in range(n):
                if rng.chance(0.15):
                    arr[i] = rng.choice([np.nan, np.nan, np.inf, -np.inf])
    # at least two distinct finite values (in the array's own dtype)
    fin = arr[np.isfinite(arr)] if arr.dtype.kind == "f" else arr
    if len(set(fin.tolist())) < 2:
        base = fin[0] if len(fin) else arr.dtype.type(1)
        if not np.isfinite(base):
            base = arr.dtype.type(1)
        arr[0] = base
        arr[1] = base + arr.dtype.type(1) if base < arr.dtype.type(100) else base - arr.dtype.type(1)
    # shape: 1-D, 2-D or 3-D factorisation
    shape = [n]
    nd = rng.weighted([(1, 4), (2, 4), (3, 2)])
    if nd >= 2:
        divs = [d for d in range(1, n + 1) if n % d == 0]
        a = rng.choice(divs)
        shape = [a, n // a]
        if nd == 3:
            divs = [d for d in range(1, shape[1] + 1) if shape[1] % d == 0]
            b = rng.choice(divs)
            shape = [a, b, shape[1] // b]
    return {"dtype": dt, "shape": shape, "values": [jnum(v) for v in arr.tolist()]}


def build_array(d):
    np = _np()
    return np.array([unj(v) for v in d["values"]], dtype=d["dtype"]).reshape(d["shape"])


def gen_cfg(rng, arr):
    """a NormalizationConfig-like dict; numeric entries may be Python ints or floats"""
    np = _np()
    flat = arr.ravel()
    fin = flat[np.isfinite(flat)] if flat.dtype.kind == "f" else flat
    fmin, fmax = (float(fin.min()), float(fin.max())) if len(fin) else (0.0, 1.0)
    span = (fmax - fmin) or 1.0
    cfg = dict(DEFAULT_CFG)
    cfg["interval_type"] = rng.weighted([("quantile", 3), ("manual", 4), ("centered", 3), ("bogus", 0.15)])

    def maybe_int(x):
        if rng.chance(0.45) and abs(x) < 2 ** 50:
            return int(round(x))
        return nice(rng, x)

    if cfg["interval_type"] == "manual":
        kind = rng.weighted([("auto", 3), ("both", 4), ("vmin", 2.5), ("vmax", 2.5)])
        lo = fmin + span * rng.uniform(-0.3, 0.6)
        hi = lo + span * rng.uniform(0.05, 1.2)
        lo, hi = maybe_int(lo), maybe_int(hi)
        if kind == "both":
            r = rng.random()
            if r < 0.05:
                hi = lo                      # degenerate
            elif r < 0.10:
                lo, hi = max(lo, hi) + 1, min(lo, hi)  # inverted (outside the quantifier)
            elif r < 0.2:
                z = rng.choice([0, 0.0, -0.0])        # one limit exactly zero
                lo, hi = (z, abs(hi) + 1) if rng.chance(0.5) else (-abs(lo) - 1, z)
            elif hi <= lo:
                hi = lo + 1
        elif kind in ("vmin", "vmax"):
            # half-specified: the given limit exactly zero (0, 0.0, -0.0 are falsy in Python), strictly inside the data
            # range, or outside it on either side
            r = rng.random()
            if r < 0.3:
                v = rng.choice([0, 0.0, -0.0])
            elif r < 0.65:
                v = maybe_int(fmin + span * rng.uniform(0.05, 0.95))
            elif r < 0.85:
                v = maybe_int(fmin - span * rng.uniform(0.05, 0.6)) if kind == "vmin" else maybe_int(fmax + span * rng.uniform(0.05, 0.6))
            else:
                v = maybe_int(fmax + span * rng.uniform(0.0, 0.3)) if kind == "vmin" else maybe_int(fmin - span * rng.uniform(0.0, 0.3))
            lo = hi = v
        if kind in ("both", "vmin"):
            cfg["vmin"] = lo
        if kind in ("both", "vmax"):
            cfg["vmax"] = hi
    elif cfg["interval_type"] == "centered":
        r = rng.random()
        if r < 0.35:
            cfg["vcenter"] = 0.0
        elif r < 0.45:
            cfg["vcenter"] = 0
        elif r < 0.6:
            # lower-heavy (centre at/near the data maximum), upper-heavy (at/near the minimum), symmetric (midpoint)
            cfg["vcenter"] = rng.choice([fmax, fmin, 0.5 * (fmin + fmax), fmax - 0.1 * span, fmin + 0.1 * span])
            if rng.chance(0.3) and abs(cfg["vcenter"]) < 2 ** 50:
                cfg["vcenter"] = int(round(cfg["vcenter"]))
        else:
            cfg["vcenter"] = maybe_int(fmin + span * rng.uniform(-0.5, 1.5))
        r = rng.random()
        if r < 0.55:
            cfg["half_range"] = None
        elif r < 0.93:
            h = span * rng.uniform(0.05, 2.0)
            h = maybe_int(h)
            cfg["half_range"] = h if h > 0 else 1
        elif r < 0.965:
            cfg["half_range"] = rng.choice([0, 0.0])
        else:
            cfg["half_range"] = -maybe_int(span * 0.5) or -1
    elif cfg["interval_type"] == "quantile":
        r = rng.random()
        if r < 0.35:
            pass
        elif r < 0.8:
            a, b = sorted([round(rng.random(), 3), round(rng.random(), 3)])
            if rng.chance(0.5):
                a, b = round(a * 0.4, 3), round(1 - (1 - b) * 0.4, 3)
            cfg["lower_quantile"], cfg["upper_quantile"] = a, b
        elif r < 0.88:
            cfg["lower_quantile"], cfg["upper_quantile"] = rng.choice([(0, 1), (0.0, 1.0), (0, 1.0), (0.25, 1)])
        elif r < 0.92:
            q = round(rng.random(), 2)
            cfg["lower_quantile"], cfg["upper_quantile"] = q, q
        elif r < 0.96:
            cfg["lower_quantile"], cfg["upper_quantile"] = 0.9, 0.1   # inverted
        else:
            cfg["lower_quantile"], cfg["upper_quantile"] = rng.choice([(-0.1, 0.9), (0.1, 1.5), (0.2, 2)])
    cfg["stretch_type"] = rng.weighted([("linear", 3), ("power", 2), ("logarithmic", 2.5), ("asinh", 2.5), ("bogus", 0.15)])
    r = rng.random()
    if cfg["stretch_type"] == "power":
        cfg["power"] = 1.0 if r < 0.08 else (rng.choice([2, 3, 0.5, 2.0, 0.25]) if r < 0.4 else nice(rng, loguniform(rng, 0.08, 9)))
    elif r < 0.12:
        cfg["power"] = rng.choice([2, 0.5, nice(rng, loguniform(rng, 0.1, 6))])     # power != 1 overrides the stretch type
    if rng.chance(0.03):
        cfg["power"] = rng.choice([0, 0.0, -1.5])
    if rng.chance(0.6):
        cfg["logarithmic_index"] = rng.choice([10, 100, 1, 0.5]) if rng.chance(0.3) else nice(rng, loguniform(rng, 1e-2, 1e5))
    if rng.chance(0.04):
        cfg["logarithmic_index"] = rng.choice([0, -3.0])
    if rng.chance(0.6):
        cfg["asinh_linear_range"] = rng.choice([1, 0.5, 0.01, 10]) if rng.chance(0.3) else nice(rng, loguniform(rng, 1e-3, 50))
    if rng.chance(0.04):
        cfg["asinh_linear_range"] = rng.choice([0, -0.1])
    return cfg


# ---------------------------------------------------------------------------------------
# oracle: is the configuration inside the property's quantifier?  (independent of the code under test)

def selected_stretch(cfg):
    """class CustomNormalization is documented to select (None: constructor must reject)"""
    p = cfg["power"]
    if cfg["stretch_type"] == "power" or p != 1.0:
        return ("PowerLawStretch", p) if p > 0 else None
    if cfg["stretch_type"] == "linear":
        return ("LinearStretch", None)
    if cfg["stretch_type"] == "logarithmic":
        return ("LogarithmicStretch", cfg["logarithmic_index"]) if cfg["logarithmic_index"] > 0 else None
    if cfg["stretch_type"] == "asinh":
        return ("InverseHyperbolicSineStretch", cfg["asinh_linear_range"]) if cfg["asinh_linear_range"] > 0 else None
    return None


def admissible(cfg, arr):
    """(ok, reason).  ok = array and configuration are inside the quantifier of C20."""
    np = _np()
    flat = arr.ravel()
    if flat.dtype.kind not in "iuf" or flat.dtype.itemsize < (4 if flat.dtype.kind == "f" else 1):
        return False, "dtype"
    fin = flat[np.isfinite(flat)] if flat.dtype.kind == "f" else flat
    if len(set(fin.tolist())) < 2:
        return False, "fewer-than-two-finite"
    if selected_stretch(cfg) is None:
        return False, "stretch-params"
    it = cfg["interval_type"]
    if it == "manual":
        lo = cfg["vmin"] if cfg["vmin"] is not None else min(fin.tolist())
        hi = cfg["vmax"] if cfg["vmax"] is not None else max(fin.tolist())
        if not lo <= hi:
            return False, "inverted-limits"
    elif it == "centered":
        if cfg["half_range"] is not None and cfg["half_range"] < 0:
            return False, "inverted-limits"
    elif it == "quantile":
        a, b = cfg["lower_quantile"], cfg["upper_quantile"]
        if not (0 <= a <= 1 and 0 <= b <= 1):
            return False, "quantile-range"
        if a > b:
            return False, "inverted-limits"
    else:
        return False, "interval-type"
    return True, ""


def slack(cfg, arr_dtype):
    sel = selected_stretch(cfg)
    f32 = str(arr_dtype) == "float32"
    if sel and sel[0] == "LinearStretch":
        return 0.0
    # float32: a*x+1 and (x-vmin) carry 6e-8 round-off, amplified by 1/log(1+a) (a >= 0.01) or by the power (<= 9)
    return 1e-4 if f32 else 1e-12


# ---------------------------------------------------------------------------------------
# stream "norm": CustomNormalization(...)(data)

def cfg_to_driver(cfg):
    out = {}
    for k in CFG_FIELDS:
        v = cfg[k]
        out[k] = v if (v is None or isinstance(v, str)) else fbits(v)
    return out


def make_norm(cfg, data):
    cn = _cn()
    return cn.CustomNormalization(
        interval_type=cfg["interval_type"], stretch_type=cfg["stretch_type"], lower_quantile=cfg["lower_quantile"],
        upper_quantile=cfg["upper_quantile"], vmin=cfg["vmin"], vmax=cfg["vmax"], vcenter=cfg["vcenter"],
        half_range=cfg["half_range"], power=cfg["power"], logarithmic_index=cfg["logarithmic_index"],
        asinh_linear_range=cfg["asinh_linear_range"], data=data)


def interval_view(iv):
    cn = _cn()
    if isinstance(iv, cn.QuantileInterval):
        return {"kind": "quantile", "lower_quantile": float(iv.lower_quantile), "upper_quantile": float(iv.upper_quantile)}
    if isinstance(iv, cn.ManualInterval):
        return {"kind": "manual", "vmin": None if iv.vmin is None else float(iv.vmin), "vmax": None if iv.vmax is None else float(iv.vmax)}
    if isinstance(iv, cn.CenteredInterval):
        return {"kind": "centered", "vcenter": float(iv.vcenter), "half_range": None if iv.half_range is None else float(iv.half_range)}
    return {"kind": type(iv).__name__}


def run_impl_norm(case):
    """drive the real code; returns a plain dict (floats/None), never raises"""
    np = _np()
    arr = build_array(case["data"])
    cfg = case["cfg"]
    frozen = case["mode"] == "frozen"
    res = {}
    try:
        norm = make_norm(cfg, arr if frozen else None)
        before = arr.copy()
        out = norm(arr)
        res["mutated_input"] = not np.array_equal(before, arr, equal_nan=True)
        mask = np.ma.getmaskarray(out).ravel()
        data = np.ma.getdata(out).ravel()
        res["out"] = [None if m else float(v) for v, m in zip(data.tolist(), mask.tolist())]
        res["out_dtype"] = str(data.dtype)
        if arr.dtype == np.float32:
            # interval stage alone (same object, same limits): lets the stretch stage be compared on identical inputs
            res["pre"] = [float(v) for v in np.asarray(norm.interval(arr)).ravel().tolist()]
        res["stretch"] = type(norm.stretch).__name__
        res["interval"] = interval_view(norm.interval)
        res["attr_vmin"] = None if norm.vmin is None else float(norm.vmin)
        res["attr_vmax"] = None if norm.vmax is None else float(norm.vmax)
        if frozen:
            lo, hi = norm.vmin, norm.vmax
        else:
            # the limits __call__ used: get_limits on the (float view of the) argument
            a = arr.astype(np.float64) if arr.dtype.kind in "iu" else arr
            lo, hi = norm.interval.get_limits(a)
        res["vmin"], res["vmax"] = float(lo), float(hi)
        if frozen:
            p = norm(np.array([res["vmin"], res["vmax"]], dtype=np.float64))
            pm = np.ma.getmaskarray(p).ravel()
            res["probe_out"] = [None if m else float(v) for v, m in zip(np.ma.getdata(p).ravel().tolist(), pm.tolist())]
        if case.get("inv"):
            try:
                res["inv_out"] = [float(v) for v in np.asarray(norm.inverse(np.array(case["inv"], dtype=np.float64))).ravel().tolist()]
            except Exception as e:  # noqa
                res["inv_out"] = err_name(e)
        res["_norm"] = norm
    except Exception as e:  # noqa
        return {"err": err_name(e), "msg": str(e)[:200]}
    return res


def model_request_norm(case, impl):
    arr = build_array(case["data"])
    req = {"op": "norm", "cfg": cfg_to_driver(case["cfg"]), "frozen": case["mode"] == "frozen",
           "is_bool": case["data"]["dtype"] == "bool",
           "data": [fbits(v) for v in arr.ravel().tolist()]}
    if case["mode"] == "frozen" and "vmin" in impl:
        req["probe"] = [fbits(impl["vmin"]), fbits(impl["vmax"])]
    if case.get("inv"):
        req["inv"] = [fbits(v) for v in case["inv"]]
    if "pre" in impl:
        req["pre_in"] = [fbits(v) for v in impl["pre"]]
    return req


def compare_norm(ctx, case, impl, m):
    """correspondence on one case"""
    if "err" in str(m.get("err", "")) and str(m.get("err", "")).startswith("driver"):
        raise RuntimeError(f"driver error {m}")
    if "err" in impl or "err" in m:
        if impl.get("err") != m.get("err"):
            ctx.disagree("norm", case, {"err": m.get("err"), "ok": "ok" in m}, {"err": impl.get("err"), "msg": impl.get("msg")},
                         note="outcome (error kind) differs")
        return
    mo = m["ok"]
    cfg = case["cfg"]
    f32 = case["data"]["dtype"] == "float32"
    sel = selected_stretch(cfg)
    linear = bool(sel) and sel[0] == "LinearStretch"
    tol_lim = 5e-4 if f32 else 0.0
    tol_out = 5e-4 if f32 else (0.0 if linear else 1e-9)
    mv = {"stretch": mo["stretch"], "interval_kind": mo["interval"]["kind"]}
    iv = {"stretch": impl["stretch"], "interval_kind": impl["interval"]["kind"]}
    if mv != iv:
        ctx.disagree("norm", case, mv, iv, note="selected stretch / interval class")
        return
    mlo, mhi = unbits(mo["vmin"]), unbits(mo["vmax"])
    scale = max(1.0, abs(mlo), abs(mhi))
    for name, a, b in (("vmin", mlo, impl["vmin"]), ("vmax", mhi, impl["vmax"])):
        if not close(a, b, tol_lim, scale):
            ctx.disagree("norm", case, {name: a}, {name: b}, note=f"limit {name} (tol {tol_lim})")
            return
        if a is not None and b is not None and a == a and b == b and not math.isinf(a - b):
            ctx.stat_max("max_abs_dev_limits_f32" if f32 else "max_abs_dev_limits_f64", abs(a - b) / scale)
    if case["mode"] == "frozen":
        for name in ("attr_vmin", "attr_vmax"):
            a, b = unbits(mo[name]), impl[name]
            if not close(a, b, tol_lim, scale):
                ctx.disagree("norm", case, {name: a}, {name: b}, note="vmin/vmax attribute after _set_limits")
                return
    mout = [unbits(b) for b in mo["out"]]
    if len(mout) != len(impl["out"]):
        ctx.disagree("norm", case, {"n": len(mout)}, {"n": len(impl["out"])}, note="output length")
        return
    if f32 and not linear:
        # float32 image + non-linear stretch: a stretch can be arbitrarily steep (x**0.1 at 0, log/asinh with extreme
        # index), so comparing final outputs would let float32 rounding of the interval stage decide.  Compare in two
        # well-conditioned stages instead: (a) interval stage, (b) the stretch applied to the implementation's own
        # interval-stage values.
        mpre = [unbits(b) for b in mo["pre"]]
        for i, (a, b) in enumerate(zip(mpre, impl["pre"])):
            if not close(a, b, 5e-4, 1.0):
                ctx.disagree("norm", case, {"i": i, "interval_stage": a}, {"i": i, "interval_stage": b}, note=f"interval stage pixel {i} (float32)")
                return
            if a == a and b == b:
                ctx.stat_max("max_abs_dev_interval_stage_f32", abs(a - b))
        mout = [unbits(b) for b in mo["post_of_pre_in"]]
    for i, (a, b) in enumerate(zip(mout, impl["out"])):
        if not close(a, b, tol_out, 1.0):
            ctx.disagree("norm", case, {"i": i, "out": a}, {"i": i, "out": b}, note=f"output pixel {i} (tol {tol_out})")
            return
        if a is not None and b is not None and a == a and b == b:
            ctx.stat_max("max_abs_dev_out_" + ("f32" if f32 else ("f64_linear" if linear else "f64_stretch")), abs(a - b))
    if "probe_out" in impl and mo.get("probe_out") and not f32:
        # float64/int path: the limits agree exactly, so norm([vmin, vmax]) must too (float32: left to the predicate,
        # the model's double-precision limits differ in the last float32 digit and x**p is infinitely steep at 0)
        mp = [unbits(b) for b in mo["probe_out"]]
        for a, b in zip(mp, impl["probe_out"]):
            if not close(a, b, tol_out, 1.0):
                ctx.disagree("norm", case, {"probe_out": mp}, {"probe_out": impl["probe_out"]}, note="norm([vmin, vmax])")
                return
    if case.get("inv") and mo.get("inv_out") is not None:
        a, b = mo["inv_out"], impl.get("inv_out")
        if isinstance(a, str) or isinstance(b, str):
            if a != b:
                ctx.disagree("norm", case, {"inv_out": a}, {"inv_out": b}, note="CustomNormalization.inverse outcome")
        else:
            a = [unbits(x) for x in a]
            sc = max([1.0] + [abs(x) for x in a if x == x and not math.isinf(x)])
            for x, y in zip(a, b):
                if not close(x, y, 5e-4 if f32 else 1e-9, sc):
                    ctx.disagree("norm", case, {"inv_out": a}, {"inv_out": b}, note="CustomNormalization.inverse values")
                    break


def clauses_range_mono_nan(ctx, case, sig, xs, out, t):
    """clauses (1) finite -> [0, 1], (4) NaN stays masked, (2) non-decreasing; False after reporting a failure"""
    for i, (x, y) in enumerate(zip(xs, out)):
        if isinstance(x, float) and x != x:
            if y is not None:
                ctx.pred_fail("nan-unmasked:" + sig, "a NaN pixel came back as a number", case, observed={"i": i, "out": y}, required="masked")
                return False
        elif not (isinstance(x, float) and math.isinf(x)):
            if y is None or y != y or not (-t <= y <= 1.0 + t):
                ctx.pred_fail("range:" + sig, "finite pixel not mapped into [0, 1]", case, observed={"i": i, "x": x, "out": y},
                              required="number in [0, 1]")
                return False
    pairs = sorted(((x, y) for x, y in zip(xs, out) if not (isinstance(x, float) and (x != x or math.isinf(x))) and y is not None),
                   key=lambda p: p[0])
    for (x0, y0), (x1, y1) in zip(pairs, pairs[1:]):
        if (x1 > x0 and y1 < y0 - t) or (x1 == x0 and abs(y1 - y0) > t):
            ctx.pred_fail("monotone:" + sig, "normalisation is not non-decreasing in the data value", case,
                          observed={"x": [x0, x1], "out": [y0, y1]}, required="out(x0) <= out(x1) for x0 < x1")
            return False
    return True


def predicate_norm(ctx, case, impl):
    """the clauses of C20 on the real outputs (only for inputs inside the quantifier)"""
    np = _np()
    arr = build_array(case["data"])
    cfg = case["cfg"]
    ok, why = admissible(cfg, arr)
    if not ok:
        ctx.dist["norm:outside-quantifier:" + why] += 1
        return
    ctx.dist["norm:inside-quantifier"] += 1
    sel = selected_stretch(cfg)
    sig = f"{case['data']['dtype']}:{case['mode']}:{cfg['interval_type']}:{sel[0]}"
    if "err" in impl:
        ctx.pred_fail("raises:" + sig, f"display normalisation raised {impl['err']} on an admissible array/configuration ({impl.get('msg')})",
                      case, observed=impl["err"], required="finite data mapped into [0, 1]")
        return
    t = slack(cfg, arr.dtype)
    flat = arr.ravel()
    if not clauses_range_mono_nan(ctx, case, sig, flat.tolist(), impl["out"], t):
        return
    # (3) the interval's limits go to 0 and 1
    norm = impl["_norm"]
    it = cfg["interval_type"]
    frozen = case["mode"] == "frozen"
    fin = flat[np.isfinite(flat)] if flat.dtype.kind == "f" else flat.astype(np.float64)
    f32 = arr.dtype == np.float32
    # slack at the lower limit: x**p (p < 1) is infinitely steep at 0, so a probe that is only equal to the limit up to
    # round-off (automatic centered limits recomputed from the probe) may sit at eps**p
    sel_name, sel_par = sel
    tiny = 1e-6 if f32 else 1e-13
    t0_inexact = max(t, 1e-9, tiny ** float(sel_par) if sel_name == "PowerLawStretch" else 0.0)
    t1_inexact = max(t, 1e-9)

    def run_probe(values, what):
        try:
            p = norm(values)
        except Exception as e:  # noqa
            ctx.pred_fail("limits-raises:" + sig, f"normalising {what} raised {err_name(e)}", case, observed=str(e)[:200], required="[0, 1]")
            return None
        pm = np.ma.getmaskarray(p).ravel().tolist()
        pv = np.ma.getdata(p).ravel().tolist()
        return [None if pm[-2] else float(pv[-2]), None if pm[-1] else float(pv[-1])]

    def judge(key, what, lims, probe, t_lo, t_hi):
        ctx.dist["norm:" + key + "-checked"] += 1
        if probe is None or probe[0] is None or probe[1] is None or abs(probe[0]) > t_lo or abs(probe[1] - 1.0) > t_hi:
            ctx.pred_fail(key + ":" + sig, what, case, observed={"vmin": lims[0], "vmax": lims[1], "norm([vmin, vmax])": probe}, required=[0.0, 1.0])
            return False
        return True

    # (3a) the limits the CONFIGURATION declares (independent of what the object reports): explicit manual limits (a missing
    # side is the min/max of the finite data), centered with an explicit half range
    declared = None
    if it == "manual" and (cfg["vmin"] is not None or cfg["vmax"] is not None):
        declared = (cfg["vmin"] if cfg["vmin"] is not None else float(fin.min()), cfg["vmax"] if cfg["vmax"] is not None else float(fin.max()))
    elif it == "centered" and cfg["half_range"] is not None:
        declared = (cfg["vcenter"] - cfg["half_range"], cfg["vcenter"] + cfg["half_range"])
    if declared is not None and declared[0] < declared[1]:
        if frozen or it == "centered":
            # frozen limits (or limits fixed by the configuration) do not depend on the argument
            probe = run_probe(np.array([declared[0], declared[1]], dtype=np.float64), "the declared limits")
            tl = t
        else:
            # lazy manual: explicit limits stay what they are; a missing one is min/max of the argument, and adding the
            # limits themselves (lo <= hi) to the data does not move min/max
            probe = run_probe(np.concatenate([fin, np.array([declared[0], declared[1]], dtype=fin.dtype)]), "the data plus the declared limits")
            # a float32 probe is normalised in float32: (hi32 - lo32) / (hi - lo) is 1 only up to float32 rounding
            tl = max(t, 1e-4) if f32 else t
        if probe is None or not judge("limits-declared", "the declared lower/upper limits of the configuration are not sent to 0 and 1",
                                      declared, probe, tl, tl):
            return
    elif declared is not None:
        ctx.dist["norm:limits-declared-skipped(lo>=hi)"] += 1
    # (3a') automatic limits declared by the interval TYPE: centered = vcenter -/+ max|x - vcenter| (symmetric, nothing clipped),
    # manual without limits = data min/max.  The reported limits must be those, every finite pixel lies inside them, and
    # (strictly monotone stretch) clearly distinct pixel values are displayed differently.
    auto_lim = None
    if it == "centered" and cfg["half_range"] is None:
        f64 = fin.astype(np.float64)
        vc = float(cfg["vcenter"])
        h_ = float(np.max(np.abs(f64 - vc)))
        auto_lim = (vc - h_, vc + h_, max(abs(vc), h_, float(np.max(np.abs(f64)))))
    elif it == "manual" and cfg["vmin"] is None and cfg["vmax"] is None:
        auto_lim = (float(fin.min()), float(fin.max()), float(np.max(np.abs(fin.astype(np.float64)))))
    if auto_lim is not None and impl.get("vmin") is not None:
        olo_, ohi_, mag = auto_lim
        tolv = (1e-5 if f32 else 1e-12) * max(mag, 1e-300)
        rlo, rhi = impl["vmin"], impl["vmax"]
        ctx.dist["norm:limits-auto-value-checked"] += 1
        if not (abs(rlo - olo_) <= tolv and abs(rhi - ohi_) <= tolv):
            clipped = [x for x in fin.tolist() if x < rlo - tolv or x > rhi + tolv][:3]
            ctx.pred_fail("limits-auto-value:" + sig,
                          "the automatic limits are not the ones the interval type declares (centered: vcenter -/+ max|x - vcenter|; manual: data min/max)"
                          + (" - finite pixels inside the declared interval are clipped" if clipped else ""),
                          case, observed={"vmin": rlo, "vmax": rhi, "pixels_outside_reported_limits": clipped}, required=[olo_, ohi_])
            return
        if not f32 and ohi_ > olo_:
            gap = 1e-3 * (ohi_ - olo_)
            prs = sorted(((float(x), y) for x, y in zip(flat.tolist(), impl["out"])
                          if y is not None and not (isinstance(x, float) and (x != x or math.isinf(x)))), key=lambda p_: p_[0])
            for (x0, y0), (x1, y1) in zip(prs, prs[1:]):
                if x1 - x0 >= gap and not (y1 > y0):
                    ctx.pred_fail("limits-auto-distinct:" + sig, "two clearly distinct pixel values inside the automatic interval are displayed identically (clipped)",
                                  case, observed={"x": [x0, x1], "out": [y0, y1], "vmin": rlo, "vmax": rhi}, required="out(x0) < out(x1)")
                    return
    # (3b) the limits the interval itself reports
    lo, hi = impl.get("vmin"), impl.get("vmax")
    if lo is None or hi is None or not (lo < hi):
        ctx.dist["norm:limits-clause-skipped(vmin>=vmax)"] += 1
        return
    if frozen:
        judge("limits", "the interval's lower/upper limits are not sent to 0 and 1", (lo, hi), impl.get("probe_out"), t, t)
        return
    if it == "manual" and declared is None:
        # automatic min/max: the limits are data elements
        probe = run_probe(np.concatenate([fin, np.array([fin.min(), fin.max()], dtype=fin.dtype)]), "the data plus its min/max")
        if probe is not None:
            judge("limits", "the interval's lower/upper limits (data min/max) are not sent to 0 and 1", (float(fin.min()), float(fin.max())), probe,
                  max(t, 1e-4) if f32 else t, max(t, 1e-4) if f32 else t)
    elif it == "centered" and cfg["half_range"] is None:
        # automatic centered limits vcenter -/+ max|x - vcenter| (oracle, float64): adding them to the data leaves the half range
        # unchanged up to round-off, hence the conditioning-aware slack at the lower end
        f64 = fin.astype(np.float64)
        h = float(np.max(np.abs(f64 - float(cfg["vcenter"]))))
        olo, ohi = float(cfg["vcenter"]) - h, float(cfg["vcenter"]) + h
        if olo < ohi:
            probe = run_probe(np.concatenate([fin, np.array([olo, ohi]).astype(fin.dtype)]), "the data plus the centered limits")
            if probe is not None:
                judge("limits-centered-auto", "vcenter -/+ max|x - vcenter| are not sent to 0 and 1", (olo, ohi), probe,
                      max(t0_inexact, 1e-4 if f32 else 0.0), max(t1_inexact, 1e-4 if f32 else 0.0))
    elif it == "quantile":
        # the limits depend on the argument; consequence of (monotone ∧ limits -> 0/1 ∧ range): pixels at or beyond the reported
        # limits sit at 0 / 1
        ctx.dist["norm:limits-beyond-checked"] += 1
        xs = flat.tolist()
        for i, (x, y) in enumerate(zip(xs, impl["out"])):
            if isinstance(x, float) and (x != x):
                continue
            want = 0.0 if x <= lo else (1.0 if x >= hi else None)
            if want is not None and (y is None or abs(y - want) > max(t, 1e-4 if f32 else 0.0)):
                ctx.pred_fail("limits-beyond:" + sig, "a pixel at/beyond the interval's limit is not at 0 / 1", case,
                              observed={"vmin": lo, "vmax": hi, "x": x, "out": y}, required=want)
                return


def one_norm(ctx, drv, case):
    impl = run_impl_norm(case)
    m = drv.ask(model_request_norm(case, impl))
    ctx.count()
    cfg = case["cfg"]
    d = case["data"]
    ctx.dist["norm:dtype:" + d["dtype"]] += 1
    ctx.dist["norm:ndim:%d" % len(d["shape"])] += 1
    ctx.dist["norm:mode:" + case["mode"]] += 1
    ctx.dist["norm:interval:" + cfg["interval_type"]] += 1
    ctx.dist["norm:outcome:" + (impl.get("err") or "ok")] += 1
    ctx.dist["norm:stretch-selected:" + (impl.get("stretch") or "none")] += 1
    vals = [unj(v) for v in d["values"]]
    has_nan = any(isinstance(v, float) and v != v for v in vals)
    has_inf = any(isinstance(v, float) and math.isinf(v) for v in vals)
    if has_nan:
        ctx.dist["norm:has-nan"] += 1
    if has_inf:
        ctx.dist["norm:has-inf"] += 1
    ctx.dist["norm:size<=8" if len(vals) <= 8 else ("norm:size<=32" if len(vals) <= 32 else "norm:size>32")] += 1
    lims = tuple((k, type(cfg[k]).__name__) for k in ("vmin", "vmax", "vcenter", "half_range", "lower_quantile"))
    if len({v for v in vals if isinstance(v, int) or (v == v and not math.isinf(v))}) >= 2:
        ctx.mark(("norm", d["dtype"], len(d["shape"]), case["mode"], cfg["interval_type"], lims, impl.get("stretch"), has_nan, has_inf,
                  impl.get("err") or "ok"))
    compare_norm(ctx, case, impl, m)
    predicate_norm(ctx, case, impl)
    ctx.sample({"stream": "norm", "dtype": d["dtype"], "shape": d["shape"], "values": d["values"][:8], "cfg": {k: v for k, v in cfg.items() if v != DEFAULT_CFG[k]},
                "mode": case["mode"], "vmin": impl.get("vmin"), "vmax": impl.get("vmax"), "out": (impl.get("out") or [])[:8]}, limit=4)


def stream_norm(ctx, drv):
    cn = _cn()
    n = ctx.n(1500, 30000)
    presets = sorted(cn.NORMALIZATION_PRESETS)
    for i in range(n):
        rng = ctx.rng.fork(i)
        data = gen_data(rng, big=ctx.thorough())
        arr = build_array(data)
        if i < 2 * len(presets) or rng.chance(0.12):
            # a named preset exactly as _show_2d_array uses it
            name = presets[i % len(presets)] if i < 2 * len(presets) else rng.choice(presets)
            c = cn.NORMALIZATION_PRESETS[name]()              # the public preset table (what show_2d(norm=<name>) resolves to)
            cfg = {k: getattr(c, k) for k in CFG_FIELDS}
            ctx.dist["norm:preset:" + name] += 1
        else:
            cfg = gen_cfg(rng, arr)
        mode = "frozen" if rng.chance(0.6) else "lazy"
        case = {"stream": "norm", "data": data, "cfg": cfg, "mode": mode}
        if rng.chance(0.25):
            case["inv"] = [0.0, 0.25, 0.5, 1.0, nice(rng, rng.random())]
        one_norm(ctx, drv, case)
    # malformed / boundary stream: bool images, constant images, all-NaN images
    for i in range(ctx.n(80, 800)):
        rng = ctx.rng.fork(1_000_000 + i)
        kind = rng.choice(["bool", "constant", "allnan", "constant-int"])
        m = rng.randint(2, 9)
        if kind == "bool":
            data = {"dtype": "bool", "shape": [m], "values": [bool(rng.below(2)) for _ in range(m)]}
        elif kind == "constant":
            c = nice(rng, rng.uniform(-5, 5))
            data = {"dtype": "float64", "shape": [m], "values": [c] * m}
        elif kind == "constant-int":
            data = {"dtype": "int16", "shape": [m], "values": [rng.randint(-9, 9)] * m}
        else:
            data = {"dtype": rng.choice(["float32", "float64"]), "shape": [m], "values": [rng.choice(["nan", "inf", "-inf"]) for _ in range(m)]}
        arr = build_array(data)
        cfg = gen_cfg(rng, arr if kind != "allnan" else _np().array([0.0, 1.0]))
        mode = "frozen" if (kind == "bool" or rng.chance(0.5)) else "lazy"
        ctx.dist["norm:malformed:" + kind] += 1
        one_norm(ctx, drv, {"stream": "norm", "data": data, "cfg": cfg, "mode": mode})


# ---------------------------------------------------------------------------------------
# stream "stretch": S(x), S.inverse, S(S.inverse(y))

def gen_stretch_case(rng, i):
    cls = STRETCH_CLASSES[i % len(STRETCH_CLASSES)]
    r = rng.random()
    if cls == "LinearStretch":
        params = [1.0, 0.0] if r < 0.5 else [rng.choice([2, 0.5, 1.0, nice(rng, loguniform(rng, 0.1, 10)), -1.0]),
                                             rng.choice([0.0, 0.25, -0.5, nice(rng, rng.uniform(-1, 1))])]
    elif cls == "PowerLawStretch":
        params = [rng.choice([1.0, 2, 0.5, 3.0])] if r < 0.3 else [nice(rng, loguniform(rng, 0.05, 20))]
    elif cls in ("LogarithmicStretch", "InverseLogarithmicStretch"):
        params = [rng.choice([1000.0, 1, 10])] if r < 0.3 else [nice(rng, loguniform(rng, 1e-3, 1e6))]
    elif cls == "InverseHyperbolicSineStretch":
        params = [rng.choice([0.1, 1, 0.5])] if r < 0.3 else [nice(rng, loguniform(rng, 1e-6, 1e3))]
    else:
        params = [1.0 / 3.0] if r < 0.2 else [nice(rng, loguniform(rng, 0.02, 100))]
    if rng.chance(0.06) and cls != "LinearStretch":
        params = [rng.choice([0, 0.0, -1.0, -0.5])]
    dt = "float32" if rng.chance(0.15) else "float64"
    if dt == "float32" and cls != "LinearStretch" and params[0] > 0:
        # float32 evaluation of S∘S.inverse loses digits in `+ 0.5` / `* a + 1`; keep the parameters where the float32
        # round-off times the stretch's slope stays far below the 5e-4 tolerance (float64 runs cover the wide ranges)
        lo_, hi_ = {"PowerLawStretch": (0.25, 4), "LogarithmicStretch": (0.01, 1000), "InverseLogarithmicStretch": (0.01, 1000),
                    "InverseHyperbolicSineStretch": (0.01, 100), "HyperbolicSineStretch": (0.1, 100)}[cls]
        if not lo_ <= params[0] <= hi_:
            params = [nice(rng, loguniform(rng, lo_, hi_))]
    m = rng.randint(5, 24)
    xs = [0.0, 1.0, 0.5] + [round(rng.random(), rng.randint(1, 6)) for _ in range(m)]
    if rng.chance(0.5):
        xs += [rng.choice([-0.5, 1.5, 2.0, -3.0, 1e-300, 1e-12, 1 - 1e-12]) for _ in range(3)]
    if rng.chance(0.4):
        xs += ["nan", rng.choice(["inf", "-inf"])]
    return {"stream": "stretch", "cls": cls, "params": params, "dtype": dt, "xs": xs}


def one_stretch(ctx, drv, case):
    np = _np()
    cn = _cn()
    cls, params = case["cls"], case["params"]
    xs = np.array([unj(v) for v in case["xs"]], dtype=case["dtype"])
    f32 = case["dtype"] == "float32"
    impl = {}
    try:
        S = getattr(cn, cls)(*params)
        impl["valid"] = True
    except ValueError:
        impl["valid"] = False
    except Exception as e:  # noqa
        impl["valid"] = "Other:" + type(e).__name__
    if impl["valid"] is True:
        before = xs.copy()
        impl["ys"] = [float(v) for v in S(xs).tolist()]
        impl["mutated_input"] = not np.array_equal(before, xs, equal_nan=True)
        try:
            inv = S.inverse
            impl["inv_valid"] = True
            impl["inv_cls"] = type(inv).__name__
            import dataclasses
            impl["inv_params"] = [float(getattr(inv, f.name)) for f in dataclasses.fields(inv)]
            impl["inv_ys"] = [float(v) for v in inv(xs).tolist()]
            impl["comp"] = [float(v) for v in S(inv(xs)).tolist()]
        except ValueError:
            impl["inv_valid"] = False
    m = drv.ask({"op": "stretch", "cls": cls, "params": [fbits(p) for p in params], "xs": [fbits(v) for v in xs.tolist()]})
    if str(m.get("err", "")).startswith("driver"):
        raise RuntimeError(f"driver error {m}")
    ctx.count()
    ctx.dist["stretch:cls:" + cls] += 1
    ctx.dist["stretch:dtype:" + case["dtype"]] += 1
    ctx.dist["stretch:valid:" + str(impl["valid"])] += 1
    mo = m["ok"]
    ctx.mark(("stretch", cls, case["dtype"], str(impl["valid"]), str(impl.get("inv_valid")), tuple(type(p).__name__ for p in params),
              any(isinstance(v, str) for v in case["xs"])))
    tol = 5e-4 if f32 else 1e-9
    if mo["valid"] != impl["valid"]:
        ctx.disagree("stretch", case, {"valid": mo["valid"]}, {"valid": impl["valid"]}, note="__post_init__ outcome")
    elif impl["valid"] is True:
        if mo["inv_valid"] != impl["inv_valid"]:
            # Lean's Float and NumPy agree on overflow to inf; a difference here is a real one
            ctx.disagree("stretch", case, {"inv_valid": mo["inv_valid"]}, {"inv_valid": impl["inv_valid"]}, note="constructing S.inverse")
        else:
            def cmp(name, tol_=tol):
                a = [unbits(b) for b in mo[name]]
                b = impl[name]
                sc = max([1.0] + [abs(x) for x in a if x == x and not math.isinf(x)])
                for i, (x, y) in enumerate(zip(a, b)):
                    if not close(x, y, tol_, sc):
                        ctx.disagree("stretch", case, {name: x, "i": i}, {name: y, "i": i}, note=f"{name}[{i}] (x={case['xs'][i]})")
                        return False
                    if x == x and y == y and not math.isinf(x) and not math.isinf(y):
                        ctx.stat_max(f"max_abs_dev_stretch_{'f32' if f32 else 'f64'}", abs(x - y) / sc)
                return True
            good = cmp("ys")
            if good and impl["inv_valid"]:
                if mo["inv_cls"] != impl["inv_cls"]:
                    ctx.disagree("stretch", case, {"inv_cls": mo["inv_cls"]}, {"inv_cls": impl["inv_cls"]}, note="class of S.inverse")
                else:
                    good = cmp("inv_params", 1e-12) and cmp("inv_ys") and cmp("comp")
    # ---- property clause: S(S.inverse(y)) = y on [0, 1]  (parameters inside the quantifier)
    in_scope = impl["valid"] is True and (cls != "LinearStretch" or params == [1.0, 0.0])
    if in_scope:
        ctx.dist["stretch:inverse-clause-checked"] += 1
        if not impl.get("inv_valid"):
            # sinh(1/a) overflows for a < 1/710: the declared inverse cannot be built (HyperbolicSineStretch is never
            # selected by CustomNormalization with such a; as the inverse of asinh its a is >= 1/arsinh(huge))
            if cls == "HyperbolicSineStretch" and params[0] < 1.0 / 700:
                ctx.dist["stretch:sinh-overflow-outside-domain"] += 1
            else:
                ctx.pred_fail(f"inverse-raises:{cls}", "the declared inverse of an admissible stretch cannot be constructed", case,
                              observed="ValueError", required="inverse stretch")
        else:
            tol_c = 5e-4 if f32 else 1e-9
            for x, c in zip(xs.tolist(), impl["comp"]):
                if x == x and 0.0 <= x <= 1.0:
                    ctx.stat_max(f"max_inverse_pair_residual_{'f32' if f32 else 'f64'}", abs(c - x) if c == c else math.inf)
                    if not (abs(c - x) <= tol_c):
                        ctx.pred_fail(f"inverse-pair:{cls}", "stretch(inverse(y)) != y on [0, 1]", case,
                                      observed={"y": x, "stretch(inverse(y))": c}, required=x)
                        break
    ctx.sample({"stream": "stretch", "cls": cls, "params": params, "xs": case["xs"][:5], "ys": (impl.get("ys") or [])[:5],
                "inverse": [impl.get("inv_cls"), impl.get("inv_params")], "comp": (impl.get("comp") or [])[:5]}, limit=2)


def stream_stretch(ctx, drv):
    for i in range(ctx.n(600, 20000)):
        rng = ctx.rng.fork(2_000_000 + i)
        one_stretch(ctx, drv, gen_stretch_case(rng, i))
    # dataclass defaults as the translator read them
    import dataclasses
    cn = _cn()
    for cls in STRETCH_CLASSES:
        m = drv.ask({"op": "defaults", "cls": cls})
        inst = getattr(cn, cls)()
        impl = [float(getattr(inst, f.name)) for f in dataclasses.fields(inst)]
        model = [unbits(b) for b in m.get("ok", [])]
        ctx.count()
        if model != impl:
            ctx.disagree("stretch", {"stream": "defaults", "cls": cls}, model, impl, note="dataclass defaults")
    classes = drv.ask({"op": "classes"}).get("ok")
    real = [{"cls": c, "fields": [f.name for f in dataclasses.fields(getattr(cn, c))]} for c in STRETCH_CLASSES]
    if classes != real:
        ctx.disagree("stretch", {"stream": "classes"}, classes, real, note="stretch classes / fields")


# ---------------------------------------------------------------------------------------
# stream "resolve": presets and _resolve_normalization

def cfg_view(c):
    out = {}
    for k in CFG_FIELDS:
        v = getattr(c, k)
        out[k] = v if (v is None or isinstance(v, str)) else float(v)
    return out


def model_cfg_view(j):
    return {k: (j[k] if (j[k] is None or isinstance(j[k], str)) else unbits(j[k])) for k in CFG_FIELDS}


def kw_to_driver(v):
    if v is None:
        return None
    if isinstance(v, str):
        return {"s": v}
    return {"n": fbits(v)}


def gen_resolve_case(rng, i, presets):
    kind = rng.weighted([("none", 4), ("name", 3), ("dict", 3), ("config", 1), ("other", 0.6)])
    case = {"stream": "resolve", "kind": kind, "norm": None, "kwargs": []}
    if i < len(presets):
        kind = case["kind"] = "name"
        case["norm"] = presets[i]
        return case
    if kind == "name":
        case["norm"] = rng.choice(presets + ["nope", "Linear_auto", ""])
    elif kind in ("dict", "config"):
        d = {}
        for k in rng.sample(CFG_FIELDS, rng.randint(0, 4)):
            if k == "interval_type":
                d[k] = rng.choice(["quantile", "manual", "centered"])
            elif k == "stretch_type":
                d[k] = rng.choice(["linear", "power", "logarithmic", "asinh"])
            elif k in ("vmin", "vmax", "half_range"):
                d[k] = rng.choice([None, 1, 2.5, -3])
            else:
                d[k] = rng.choice([0.1, 0.9, 2, 5.0])
        if kind == "dict" and rng.chance(0.12):
            d[rng.choice(["gamma", "cmap", "Vmin"])] = 1.0
        case["norm"] = d
    elif kind == "other":
        case["norm"] = rng.choice([3, 2.5, ["linear_auto"]])
    kws = []
    for k in rng.sample(["vmin", "vmax", "lower_quantile", "upper_quantile", "stretch_type", "cmap", "title"], rng.randint(0, 3)):
        if k == "stretch_type":
            kws.append([k, rng.choice(["logarithmic", "asinh", "linear"])])
        elif k in ("cmap", "title"):
            kws.append([k, "x"])
        elif k in ("vmin", "vmax"):
            kws.append([k, rng.choice([0, 1.5, -2, None, 10])])
        else:
            kws.append([k, rng.choice([0.0, 0.05, 0.5, 0.95, 1])])
    case["kwargs"] = kws
    return case


def one_resolve(ctx, drv, case):
    cn = _cn()
    kind = case["kind"]
    norm = case["norm"]
    kwargs = {k: v for k, v in case["kwargs"]}
    arg = norm
    if kind == "config":
        arg = cn.NormalizationConfig(**norm)
    resolver = _private(ctx, cn, "_resolve_normalization")
    if resolver is None:
        ctx.dist["resolve:skipped(private name gone)"] += 1
        return
    try:
        impl = {"ok": cfg_view(resolver(arg, **kwargs))}
    except Exception as e:  # noqa
        impl = {"err": err_name(e)}
    if kind == "none":
        jn = None
    elif kind == "name":
        jn = {"name": norm}
    elif kind == "dict":
        jn = {"dict": [[k, kw_to_driver(v)] for k, v in norm.items()]}
    elif kind == "config":
        full = dict(DEFAULT_CFG)
        full.update(norm)
        jn = {"config": cfg_to_driver(full)}
    else:
        jn = {"other": True}
    m = drv.ask({"op": "resolve", "norm": jn, "kwargs": [[k, kw_to_driver(v)] for k, v in case["kwargs"]]})
    if str(m.get("err", "")).startswith("driver"):
        raise RuntimeError(f"driver error {m}")
    ctx.count()
    ctx.dist["resolve:kind:" + kind] += 1
    ctx.dist["resolve:outcome:" + (impl.get("err") or "ok")] += 1
    mm = {"ok": model_cfg_view(m["ok"])} if "ok" in m else {"err": m["err"]}
    ctx.mark(("resolve", kind, impl.get("err") or "ok", tuple(sorted(kwargs)), norm if isinstance(norm, str) else None))
    if mm != impl:
        ctx.disagree("resolve", case, mm, impl, note="_resolve_normalization")


def stream_resolve(ctx, drv):
    cn = _cn()
    presets = list(cn.NORMALIZATION_PRESETS)
    # the preset table itself, exhaustively
    m = drv.ask({"op": "presets"})
    model = [[n, model_cfg_view(c)] for n, c in m["ok"]]
    impl = [[n, cfg_view(f())] for n, f in cn.NORMALIZATION_PRESETS.items()]
    ctx.count()
    if model != impl:
        ctx.disagree("resolve", {"stream": "presets"}, model, impl, note="NORMALIZATION_PRESETS table (names, order, fields)")
    ctx.extra["presets_enumerated"] = len(impl)
    for i in range(ctx.n(200, 4000)):
        rng = ctx.rng.fork(3_000_000 + i)
        one_resolve(ctx, drv, gen_resolve_case(rng, i, presets))


# ---------------------------------------------------------------------------------------
# stream "show": the visualization.py callers (_show_2d_array, _show_2d_combined)

_FIG = {}


def _figax():
    if "fa" not in _FIG:
        import matplotlib
        matplotlib.use("Agg")
        import matplotlib.pyplot as plt
        _FIG["fa"] = plt.subplots(figsize=(1, 1))
    fig, ax = _FIG["fa"]
    ax.clear()
    return fig, ax


def gen_show_case(rng, i):
    np = _np()
    which = "array" if i % 2 == 0 else "combined"
    k = 1 if which == "array" else rng.randint(1, 3)
    d0 = gen_data(rng)
    n = len(d0["values"])
    divs = [d for d in range(1, n + 1) if n % d == 0]
    r = rng.choice(divs)
    arrays = []
    for j in range(k):
        d = d0 if j == 0 else None
        while d is None or len(d["values"]) != n or d["dtype"] != d0["dtype"]:
            d = gen_data(rng)
            if len(d["values"]) >= n:
                d = {"dtype": d["dtype"], "shape": [n], "values": d["values"][:n]}
            if d["dtype"] != d0["dtype"]:
                d = None
                continue
            a = build_array(d).ravel()
            fin = a[np.isfinite(a)] if a.dtype.kind == "f" else a
            if len(set(fin.tolist())) < 2:
                d = None
        d = dict(d)
        d["shape"] = [r, n // r]
        arrays.append(d)
    arr = build_array(arrays[0])
    flat = arr.ravel()
    fin = flat[np.isfinite(flat)] if flat.dtype.kind == "f" else flat
    fmin, fmax = float(fin.min()), float(fin.max())
    span = fmax - fmin
    lo = nice(rng, fmin + span * rng.uniform(-0.2, 0.4))
    hi = nice(rng, lo + span * rng.uniform(0.1, 0.9))
    if not hi > lo:
        hi = lo + 1.0
    if rng.chance(0.4):
        lo, hi = int(math.floor(lo)), int(math.floor(hi)) + 1
    kind = rng.weighted([("kw-limits", 4), ("kw-quantile", 2), ("none", 1), ("name", 3), ("dict", 3), ("config", 1.5)])
    case = {"stream": "show", "which": which, "kind": kind, "norm": None, "kwargs": [], "arrays": arrays}
    if kind == "kw-limits":
        r_ = rng.random()
        if r_ < 0.6:
            case["kwargs"] = [["vmin", lo], ["vmax", hi]]
        elif r_ < 0.8:
            case["kwargs"] = [["vmin", rng.choice([0, 0.0, -0.0]) if rng.chance(0.35) else lo]]
        else:
            case["kwargs"] = [["vmax", rng.choice([0, 0.0, -0.0]) if rng.chance(0.35) else hi]]
        if rng.chance(0.4):
            case["kwargs"].append(["stretch_type", rng.choice(["logarithmic", "asinh", "linear"])])
    elif kind == "kw-quantile":
        a, b = sorted([round(rng.random() * 0.4, 2), round(1 - rng.random() * 0.4, 2)])
        case["kwargs"] = rng.choice([[["lower_quantile", a], ["upper_quantile", b]], [["lower_quantile", a]], [["upper_quantile", b]]])
    elif kind == "name":
        case["norm"] = rng.choice(sorted(_cn().NORMALIZATION_PRESETS) + ["nope"])
    elif kind in ("dict", "config"):
        c = gen_cfg(rng, arr)
        d = {k_: v for k_, v in c.items() if v != DEFAULT_CFG[k_] or rng.chance(0.2)}
        if rng.chance(0.5):
            d.update({"interval_type": "manual", "vmin": lo, "vmax": hi})
        case["norm"] = d
    return case


def one_show(ctx, drv, case):
    np = _np()
    cn = _cn()
    from quantem.core.visualization import visualization as vis
    arrays = [build_array(d) for d in case["arrays"]]
    kwargs = {k: v for k, v in case["kwargs"]}
    norm_arg = case["norm"]
    if case["kind"] == "config":
        norm_arg = cn.NormalizationConfig(**case["norm"])
    rec = {}
    # internal-stage stream: it looks inside the private callers through three module-level names of visualization.py.
    # If a refactoring removed / re-routed any of them the stream is skipped (note in the evidence); the public show_2d
    # stream ("forms") and the CustomNormalization streams decide.
    show_fn = _private(ctx, vis, "_show_2d_array" if case["which"] == "array" else "_show_2d_combined")
    resolver = _private(ctx, cn, "_resolve_normalization")
    hooks = [getattr(vis, n_, None) for n_ in ("CustomNormalization", "array_to_rgba", "list_of_arrays_to_rgba")]
    if show_fn is None or resolver is None or any(h is None for h in hooks):
        ctx.dist["show:skipped(private name gone)"] += 1
        return
    real_cn, real_a2r, real_l2r = hooks

    def rec_cn(*a, **k):
        rec["norm"] = real_cn(*a, **k)
        return rec["norm"]

    def fake_a2r(scaled, *a, **k):
        rec["scaled"] = [scaled]
        return np.zeros(tuple(np.shape(scaled)) + (4,))

    def fake_l2r(lst, *a, **k):
        nrm = k.get("norm", a[0] if a else None)
        if callable(nrm):
            rec["scaled"] = [nrm(x) for x in lst]       # what list_of_arrays_to_rgba does first
        return np.zeros(tuple(np.shape(lst[0])) + (4,))

    vis.CustomNormalization, vis.array_to_rgba, vis.list_of_arrays_to_rgba = rec_cn, fake_a2r, fake_l2r
    impl = {}
    try:
        if case["which"] == "array":
            show_fn(arrays[0], norm=norm_arg, figax=_figax(), **kwargs)
        else:
            show_fn(arrays, norm=norm_arg, figax=_figax(), **kwargs)
        if "norm" not in rec or "scaled" not in rec:
            # the caller no longer builds / applies the normalisation through the hooked names: nothing observed
            ctx.dist["show:skipped(hooks not reached)"] += 1
            ctx.extra["show_hooks_not_reached"] = ctx.extra.get("show_hooks_not_reached", 0) + 1
            return
        norm = rec["norm"]
        impl = {"stretch": type(norm.stretch).__name__, "interval": interval_view(norm.interval),
                "attr_vmin": None if norm.vmin is None else float(norm.vmin), "attr_vmax": None if norm.vmax is None else float(norm.vmax),
                "outs": []}
        for sc in rec["scaled"]:
            m_ = np.ma.getmaskarray(sc).ravel().tolist()
            v_ = np.ma.getdata(sc).ravel().tolist()
            impl["outs"].append([None if mm else float(vv) for vv, mm in zip(v_, m_)])
    except Exception as e:  # noqa
        impl = {"err": err_name(e), "msg": str(e)[:200]}
    finally:
        vis.CustomNormalization, vis.array_to_rgba, vis.list_of_arrays_to_rgba = real_cn, real_a2r, real_l2r
    # ---- model
    kind = case["kind"]
    if norm_arg is None:
        jn = None
    elif kind == "name":
        jn = {"name": case["norm"]}
    elif kind == "dict":
        jn = {"dict": [[k, kw_to_driver(v)] for k, v in case["norm"].items()]}
    else:
        full = dict(DEFAULT_CFG)
        full.update(case["norm"])
        jn = {"config": cfg_to_driver(full)}
    m = drv.ask({"op": "show", "which": case["which"], "norm": jn, "kwargs": [[k, kw_to_driver(v)] for k, v in case["kwargs"]],
                 "arrays": [[fbits(v) for v in a.ravel().tolist()] for a in arrays]})
    if str(m.get("err", "")).startswith("driver"):
        raise RuntimeError(f"driver error {m}")
    ctx.count()
    dt = case["arrays"][0]["dtype"]
    ctx.dist["show:" + case["which"]] += 1
    ctx.dist["show:kind:" + kind] += 1
    ctx.dist["show:outcome:" + (impl.get("err") or "ok")] += 1
    ctx.mark(("show", case["which"], kind, dt, impl.get("err") or "ok", impl.get("stretch"), tuple(sorted(kwargs)), len(arrays)))
    f32 = dt == "float32"
    # ---- correspondence
    if "err" in impl or "err" in m:
        if impl.get("err") != m.get("err"):
            ctx.disagree("show", case, {"err": m.get("err")}, {"err": impl.get("err"), "msg": impl.get("msg")}, note="outcome (error kind)")
    else:
        mo = m["ok"]
        miv = {k: (v if (v is None or isinstance(v, str)) else unbits(v)) for k, v in mo["interval"].items()}
        mv = {"stretch": mo["stretch"], "interval": miv, "attr_vmin": unbits(mo["attr_vmin"]), "attr_vmax": unbits(mo["attr_vmax"])}
        iv = {k: impl[k] for k in ("stretch", "interval", "attr_vmin", "attr_vmax")}
        same = mv["stretch"] == iv["stretch"] and set(miv) == set(iv["interval"])
        if same:
            for k in list(miv) + ["attr_vmin", "attr_vmax"]:
                a = miv[k] if k in miv else mv[k]
                b = iv["interval"][k] if k in miv else iv[k]
                if isinstance(a, str) or isinstance(b, str):
                    same = same and a == b
                else:
                    same = same and close(a, b, 5e-4 if f32 else 0.0, max(1.0, abs(a or 0.0)))
        if not same:
            ctx.disagree("show", case, mv, iv, note="normalisation object built by the caller (stretch / interval / limits)")
        else:
            sel_lin = mo["stretch"] == "LinearStretch"
            tol = 5e-4 if f32 else (0.0 if sel_lin else 1e-9)
            steep = f32 and not sel_lin        # see compare_norm: float32 + steep stretch is compared through stream "norm"
            for j, (mo_, io_) in enumerate(zip(mo["outs"], impl["outs"])):
                mo_ = [unbits(b) for b in mo_]
                bad = [i for i, (a, b) in enumerate(zip(mo_, io_)) if not close(a, b, tol, 1.0)]
                if bad and not steep:
                    i = bad[0]
                    ctx.disagree("show", case, {"array": j, "i": i, "out": mo_[i]}, {"array": j, "i": i, "out": io_[i]},
                                 note=f"normalised pixel (tol {tol})")
                    break
    # ---- property clauses on what the caller displays
    try:
        rc = resolver(norm_arg, **kwargs)
        cfg = {k: getattr(rc, k) for k in CFG_FIELDS}
    except Exception:  # noqa
        ctx.dist["show:outside-quantifier:unresolvable"] += 1
        return
    for j, arr in enumerate(arrays):
        ok, why = admissible(cfg, arr)
        if not ok:
            ctx.dist["show:outside-quantifier:" + why] += 1
            continue
        sel = selected_stretch(cfg)
        sig = f"show-{case['which']}:{dt}:{cfg['interval_type']}:{sel[0]}"
        if "err" in impl:
            ctx.pred_fail("raises:" + sig, f"{'_show_2d_' + case['which']} raised {impl['err']} on an admissible array/configuration ({impl.get('msg')})",
                          case, observed=impl["err"], required="finite data mapped into [0, 1]")
            return
        t = slack(cfg, arr.dtype)
        if not clauses_range_mono_nan(ctx, case, sig, arr.ravel().tolist(), impl["outs"][j], t):
            return
        # the configuration's declared limits go to 0 and 1 (a missing side is the min/max of the displayed array; with the
        # frozen limits of _show_2d_array the probe does not move them, _show_2d_combined recomputes them per array and is
        # probed only with both limits given)
        flat_ = arr.ravel()
        fin_ = flat_[np.isfinite(flat_)] if flat_.dtype.kind == "f" else flat_.astype(np.float64)
        dlo = cfg["vmin"] if cfg["vmin"] is not None else float(fin_.min())
        dhi = cfg["vmax"] if cfg["vmax"] is not None else float(fin_.max())
        given = (cfg["vmin"] is not None) + (cfg["vmax"] is not None)
        if cfg["interval_type"] == "manual" and dlo < dhi and (given == 2 or (given == 1 and case["which"] == "array")):
            ctx.dist["show:limits-clause-checked"] += 1
            p = rec["norm"](np.array([dlo, dhi], dtype=np.float64))
            pm = np.ma.getmaskarray(p).ravel().tolist()
            pv = [None if mm else float(vv) for vv, mm in zip(np.ma.getdata(p).ravel().tolist(), pm)]
            if pv[0] is None or pv[1] is None or abs(pv[0]) > t or abs(pv[1] - 1.0) > t:
                ctx.pred_fail("limits:" + sig, "the configured lower/upper limits are not sent to 0 and 1 by the normalisation the caller builds",
                              case, observed={"vmin": dlo, "vmax": dhi, "norm([vmin, vmax])": pv}, required=[0.0, 1.0])
                return
    ctx.sample({"stream": "show", "which": case["which"], "norm": case["norm"], "kwargs": case["kwargs"], "dtype": dt,
                "shape": case["arrays"][0]["shape"], "built": {k: impl.get(k) for k in ("stretch", "interval")}}, limit=6)


# ---- sub-stream "forms": every input form of ONE declared configuration through the public show_2d must draw the same image

def gen_forms_case(rng, i):
    np = _np()
    d = None
    while d is None:
        d = gen_data(rng)
        if len(d["values"]) < 4:
            d = None
    n = len(d["values"])
    divs = [k for k in range(1, n + 1) if n % k == 0]
    r = rng.choice(divs)
    d = dict(d)
    d["shape"] = [r, n // r]
    arr = build_array(d).astype(np.float32)            # what show_2d normalises (it casts real ndarrays to float32)
    flat = arr.ravel()
    fin = flat[np.isfinite(flat)]
    if len(set(fin.tolist())) < 2:
        return gen_forms_case(rng.fork(7), i)
    fmin, fmax = float(fin.min()), float(fin.max())
    span = fmax - fmin
    kind = "manual" if i % 3 != 2 else "quantile"
    decl = {}
    if kind == "manual":
        which = rng.weighted([("both", 3), ("vmin", 3), ("vmax", 3)])
        lo = nice(rng, fmin + span * rng.uniform(-0.2, 0.45))
        hi = nice(rng, fmin + span * rng.uniform(0.55, 1.2))
        if rng.chance(0.3):
            lo, hi = int(math.floor(lo)), int(math.ceil(hi))
        if rng.chance(0.2) and fmin < 0 < fmax:
            z = rng.choice([0, 0.0, -0.0])
            lo, hi = (z, hi if hi > 0 else fmax) if rng.chance(0.5) else (lo if lo < 0 else fmin, z)
        if not lo < hi:
            lo, hi = fmin, fmax
        if which in ("both", "vmin"):
            decl["vmin"] = lo
        if which in ("both", "vmax"):
            decl["vmax"] = hi
        if rng.chance(0.5):
            decl["stretch_type"] = rng.choice(["linear", "logarithmic", "asinh"])
    else:
        which = rng.weighted([("both", 3), ("lower", 2), ("upper", 2)])
        a, b = round(rng.random() * 0.4, 2), round(1 - rng.random() * 0.4, 2)
        if which in ("both", "lower"):
            decl["lower_quantile"] = a
        if which in ("both", "upper"):
            decl["upper_quantile"] = b
    return {"stream": "forms", "kind": kind, "decl": [[k, v] for k, v in decl.items()], "array": d}


def one_forms(ctx, drv, case):
    """show_2d(img, <keyword shorthand>) vs norm=<dict> vs norm=NormalizationConfig(...) of the same declared configuration:
    the drawn images (ax.images[0]) must be identical, and pixels at/beyond a declared limit are black / white."""
    np = _np()
    cn = _cn()
    from quantem.core.visualization import visualization as vis
    arr = build_array(case["array"])
    decl = {k: v for k, v in case["decl"]}
    kind = case["kind"]
    explicit = dict(decl)
    explicit["interval_type"] = kind
    forms = [("keywords", dict(decl)), ("dict", {"norm": dict(explicit)}), ("NormalizationConfig", {"norm": cn.NormalizationConfig(**explicit)})]
    drawn = {}
    for name, kw in forms:
        fig, ax = _figax()
        try:
            vis.show_2d(arr, figax=(fig, ax), **kw)
            drawn[name] = np.array(ax.images[-1].get_array(), dtype=np.float64)
        except Exception as e:  # noqa
            drawn[name] = err_name(e)
    ctx.count()
    ctx.dist["forms:kind:" + kind] += 1
    ctx.dist["forms:declared:" + "+".join(sorted(decl))] += 1
    dt = case["array"]["dtype"]
    ctx.mark(("forms", kind, tuple(sorted(decl)), dt, tuple(type(v).__name__ for v in decl.values())))
    sig = f"show_2d:{dt}:{kind}:{'+'.join(sorted(decl))}"
    a32 = arr.astype(np.float32)
    flat = a32.ravel()
    fin = flat[np.isfinite(flat)]
    cfg = dict(DEFAULT_CFG)
    cfg.update(explicit)
    ok, why = admissible(cfg, a32)
    if not ok:
        ctx.dist["forms:outside-quantifier:" + why] += 1
        return
    # (i) all input forms draw the same image
    ref_name, ref = "NormalizationConfig", drawn["NormalizationConfig"]
    for name, _ in forms:
        img = drawn[name]
        same = (isinstance(img, str) and isinstance(ref, str) and img == ref) or \
               (not isinstance(img, str) and not isinstance(ref, str) and img.shape == ref.shape and np.array_equal(img, ref, equal_nan=True))
        if not same:
            if isinstance(img, str) or isinstance(ref, str):
                obs = {name: img if isinstance(img, str) else "image", ref_name: ref if isinstance(ref, str) else "image"}
            else:
                idx = np.argwhere(np.any(img != ref, axis=-1))[0].tolist()
                obs = {"pixel": idx, "value": float(a32[tuple(idx)]), name: img[tuple(idx)].tolist(), ref_name: ref[tuple(idx)].tolist()}
            ctx.pred_fail("forms-differ:" + sig, f"show_2d draws a different image for the {name} form than for the {ref_name} form of the same configuration",
                          case, observed=obs, required="identical images for every input form")
            return
    if isinstance(ref, str):
        ctx.pred_fail("raises:" + sig, f"show_2d raised {ref} on an admissible array/configuration", case, observed=ref, required="image")
        return
    # (ii) the declared limits are sent to 0 / 1: pixels at or beyond them are black / white (gray colormap)
    if kind == "manual":
        lo = decl.get("vmin", float(fin.min()))
        hi = decl.get("vmax", float(fin.max()))
        if lo < hi:
            ctx.dist["forms:limits-clause-checked"] += 1
            for name, _ in forms:
                img = drawn[name]
                level = img[..., 0]
                for idx in np.argwhere(np.isfinite(a32)):
                    x = float(a32[tuple(idx)])
                    want = 0.0 if x <= lo else (1.0 if x >= hi else None)
                    if want is not None and abs(float(level[tuple(idx)]) - want) > 1e-9:
                        ctx.pred_fail("forms-limits:" + sig, f"{name} form: a pixel at/beyond the declared limit is not drawn black/white",
                                      case, observed={"pixel": idx.tolist(), "x": x, "level": float(level[tuple(idx)]), "vmin": lo, "vmax": hi}, required=want)
                        return
    ctx.sample({"stream": "forms", "declared": case["decl"], "dtype": dt, "shape": case["array"]["shape"], "forms": [n for n, _ in forms],
                "identical": True}, limit=8)


def stream_show(ctx, drv):
    try:
        for i in range(ctx.n(240, 3000)):
            rng = ctx.rng.fork(4_000_000 + i)
            one_show(ctx, drv, gen_show_case(rng, i))
        for i in range(ctx.n(90, 900)):
            rng = ctx.rng.fork(5_000_000 + i)
            one_forms(ctx, drv, gen_forms_case(rng, i))
    finally:
        if "fa" in _FIG:
            import matplotlib.pyplot as plt
            plt.close(_FIG.pop("fa")[0])



# ---------------------------------------------------------------------------------------
# stream "shist": a HISTORY on one stretch object — build, read .inverse, assign another parameter (the stretches are
# plain mutable dataclasses), read .inverse again, copy the object, …  The property quantifies over every stretch
# parameter, hence also over the parameter the object carries NOW: S(S.inverse(y)) = y on [0, 1] must hold after
# every step, and S.inverse must be the inverse a freshly built S(param) declares.

HIST_STRETCH = {"PowerLawStretch": "power", "LogarithmicStretch": "logarithmic", "InverseLogarithmicStretch": None,
                "InverseHyperbolicSineStretch": "asinh", "HyperbolicSineStretch": None}
HIST_CN_KW = {"power": "power", "logarithmic": "logarithmic_index", "asinh": "asinh_linear_range"}


def hist_param(rng, cls):
    r = rng.random()
    if cls == "PowerLawStretch":
        return rng.choice([2, 0.5, 3.0, 1.0, 0.25]) if r < 0.4 else nice(rng, loguniform(rng, 0.2, 5))
    if cls in ("LogarithmicStretch", "InverseLogarithmicStretch"):
        return rng.choice([1000.0, 1, 10, 100]) if r < 0.3 else nice(rng, loguniform(rng, 1e-2, 1e4))
    if cls == "InverseHyperbolicSineStretch":
        return rng.choice([0.1, 1, 0.5]) if r < 0.3 else nice(rng, loguniform(rng, 1e-3, 1e2))
    return rng.choice([1.0 / 3.0, 1, 0.5]) if r < 0.3 else nice(rng, loguniform(rng, 0.05, 50))


def gen_shist_case(rng, i):
    classes = sorted(HIST_STRETCH)
    cls = classes[i % len(classes)]
    hows = ["direct", "copy"] + (["norm"] if HIST_STRETCH[cls] else [])
    how = hows[(i // len(classes)) % len(hows)]
    params = []
    while len(params) < rng.randint(2, 4):
        v = hist_param(rng, cls)
        if not params or float(v) != float(params[-1]):
            params.append(v)
    # a step may also be a REJECTED construction / a declared inverse that cannot be built, followed by valid steps
    ys = [0.0, 1.0, 0.5] + [round(rng.random(), rng.randint(1, 5)) for _ in range(rng.randint(3, 9))]
    return {"stream": "shist", "cls": cls, "how": how, "params": params, "ys": ys, "read_first": bool(i % 7 != 6)}


def one_shist(ctx, drv, case):
    import copy as _copy
    import dataclasses
    np = _np()
    cn = _cn()
    cls, how, params = case["cls"], case["how"], case["params"]
    ys = np.array(case["ys"], dtype=np.float64)
    ctx.count()
    ctx.dist["shist:cls:" + cls] += 1
    ctx.dist["shist:how:" + how] += 1
    ctx.mark(("shist", cls, how, len(params), case["read_first"], tuple(type(p_).__name__ for p_ in params)))
    try:
        if how == "norm":
            st = HIST_STRETCH[cls]
            norm = cn.CustomNormalization("manual", st, vmin=0.0, vmax=1.0, **{HIST_CN_KW[st]: params[0]})
            S = norm.stretch
        else:
            norm = None
            S = getattr(cn, cls)(params[0])
        field = dataclasses.fields(S)[0].name
    except Exception as e:  # noqa
        ctx.pred_fail(f"history-raises:{cls}", f"building an admissible stretch raised {err_name(e)}", case, observed=str(e)[:200], required="stretch object")
        return
    if type(S).__name__ != cls:
        ctx.dist["shist:other-class-selected"] += 1        # power == 1.0 with a named type etc.: not this history
        return
    for k, p_ in enumerate(params):
        step = {"step": k, "param": p_}
        try:
            if k > 0:
                if how == "copy" and k == 1:
                    S = _copy.copy(S)                       # the copy carries whatever the original has cached
                setattr(S, field, p_)
            elif not case["read_first"]:
                continue                                    # parameter changed BEFORE the inverse is first read
            if norm is not None and k > 0 and norm.stretch is not S:
                norm.stretch = S
            inv = S.inverse
            inv_params = [float(getattr(inv, f.name)) for f in dataclasses.fields(inv)]
            if norm is not None:
                comp = np.ma.getdata(norm(np.asarray(norm.inverse(ys.copy())))).astype(np.float64).tolist()
            else:
                comp = [float(v) for v in S(inv(ys.copy())).tolist()]
            fwd = [float(v) for v in S(ys.copy()).tolist()]
        except Exception as e:  # noqa
            ctx.pred_fail(f"history-raises:{cls}", f"stretch / declared inverse raised {err_name(e)} after an admissible parameter was assigned",
                          case, observed=dict(step, error=str(e)[:200]), required="stretch(inverse(y)) = y")
            return
        m = drv.ask({"op": "stretch", "cls": cls, "params": [fbits(p_)], "xs": [fbits(v) for v in ys.tolist()]})
        if str(m.get("err", "")).startswith("driver"):
            raise RuntimeError(f"driver error {m}")
        mo = m["ok"]
        ctx.dist["shist:steps"] += 1
        # correspondence with the (stateless) model evaluated at the parameter the object carries now
        m_inv = [unbits(b) for b in mo["inv_params"]]
        m_comp = [unbits(b) for b in mo["comp"]]
        m_fwd = [unbits(b) for b in mo["ys"]]
        if mo["inv_cls"] != type(inv).__name__ or any(not close(a, b, 1e-12, max(1.0, abs(a))) for a, b in zip(m_inv, inv_params)):
            ctx.disagree("shist", case, dict(step, inverse=[mo["inv_cls"], m_inv]), dict(step, inverse=[type(inv).__name__, inv_params]),
                         note="declared inverse after the parameter was assigned (model: the inverse of the current parameter)")
        elif any(not close(a, b, 1e-9, 1.0) for a, b in zip(m_fwd, fwd)):
            ctx.disagree("shist", case, dict(step, ys=m_fwd), dict(step, ys=fwd), note="S(y) after the parameter was assigned")
        elif any(not close(a, b, 1e-9, 1.0) for a, b in zip(m_comp, comp)):
            ctx.disagree("shist", case, dict(step, comp=m_comp), dict(step, comp=comp), note="S(S.inverse(y)) after the parameter was assigned")
        # the property clause on the object as it is now
        for y, c in zip(ys.tolist(), comp):
            if 0.0 <= y <= 1.0:
                ctx.stat_max("max_inverse_pair_residual_history", abs(c - y) if c == c else math.inf)
                if not (abs(c - y) <= 1e-9):
                    ctx.pred_fail(f"inverse-pair-history:{cls}", "stretch(inverse(y)) != y on [0, 1] for the parameter the stretch carries now "
                                  "(inverse read, parameter assigned, inverse read again)", case,
                                  observed=dict(step, y=y, **{"stretch(inverse(y))": c}, inverse=[type(inv).__name__, inv_params]), required=y)
                    return
    ctx.sample({"stream": "shist", "cls": cls, "how": how, "params": params}, limit=3)


def stream_shist(ctx, drv):
    for i in range(ctx.n(150, 3000)):
        rng = ctx.rng.fork(6_000_000 + i)
        one_shist(ctx, drv, gen_shist_case(rng, i))


# ---------------------------------------------------------------------------------------
# stream "nhist": a HISTORY on one CustomNormalization — build (frozen / lazy), then valid calls interleaved with operations
# that are REJECTED (an assignment of a non-scalar / non-numeric colour limit that matplotlib refuses, a call on an argument
# that cannot be normalised): the caller catches the error and carries on.  Every later valid call must still satisfy the
# property (finite -> [0, 1], non-decreasing, NaN masked, limits -> 0 / 1) and equal the model of the unchanged object.

BAD_VALUES = ["array2", "list2", "str", "complex", "tuple2", "array0"]
BAD_ARGS = ["str-array", "none", "object-array", "all-nan"]
HIST_INTERVALS = ["manual-both", "manual-auto", "manual-vmin", "quantile", "centered-auto", "centered-half"]


def bad_value(kind):
    np = _np()
    return {"array2": np.array([4.0, 40.0]), "list2": [4.0, 40.0], "str": "auto", "complex": 1 + 2j, "tuple2": (1.0, 2.0),
            "array0": np.array([])}[kind]


def bad_arg(kind):
    np = _np()
    return {"str-array": np.array(["a", "b"]), "none": None, "object-array": np.array([{}, []], dtype=object),
            "all-nan": np.array([np.nan, np.nan])}[kind]


def hist_float_data(rng):
    d = None
    while d is None or d["dtype"] == "float32":
        d = gen_data(rng)
    return d


def gen_nhist_case(rng, i):
    np = _np()
    data0 = hist_float_data(rng)
    arr0 = build_array(data0)
    # fixed block: interval kind x mode x rejected value x attribute are enumerated, not drawn
    ik = HIST_INTERVALS[i % len(HIST_INTERVALS)]
    mode = "frozen" if (i // len(HIST_INTERVALS)) % 2 == 0 else "lazy"
    bv = BAD_VALUES[(i // (2 * len(HIST_INTERVALS))) % len(BAD_VALUES)]
    attr = "vmin" if (i // (2 * len(HIST_INTERVALS) * len(BAD_VALUES))) % 2 == 0 else "vmax"
    cfg = gen_cfg(rng, arr0)
    flat = arr0.ravel()
    fin = flat[np.isfinite(flat)] if flat.dtype.kind == "f" else flat
    fmin, fmax = float(fin.min()), float(fin.max())
    span = (fmax - fmin) or 1.0
    for k_ in ("lower_quantile", "upper_quantile", "vmin", "vmax", "vcenter", "half_range"):
        cfg[k_] = DEFAULT_CFG[k_]
    if ik.startswith("manual"):
        cfg["interval_type"] = "manual"
        if ik in ("manual-both", "manual-vmin"):
            cfg["vmin"] = nice(rng, fmin + span * rng.uniform(-0.2, 0.3))
        if ik == "manual-both":
            cfg["vmax"] = nice(rng, float(cfg["vmin"]) + span * rng.uniform(0.3, 1.2))
    elif ik == "quantile":
        cfg["interval_type"] = "quantile"
        if rng.chance(0.5):
            cfg["lower_quantile"], cfg["upper_quantile"] = round(rng.random() * 0.3, 2), round(1 - rng.random() * 0.3, 2)
    else:
        cfg["interval_type"] = "centered"
        cfg["vcenter"] = rng.choice([0.0, nice(rng, fmin + span * rng.uniform(0, 1))])
        if ik == "centered-half":
            cfg["half_range"] = nice(rng, span * rng.uniform(0.3, 1.5)) or 1.0
    if cfg["interval_type"] == "bogus" or cfg["stretch_type"] == "bogus" or selected_stretch(cfg) is None:
        cfg["stretch_type"], cfg["power"] = rng.choice(["linear", "logarithmic", "asinh"]), 1.0
        cfg["logarithmic_index"], cfg["asinh_linear_range"] = 1000.0, 0.1
    ops = []
    if rng.chance(0.5):
        ops.append({"op": "call", "data": hist_float_data(rng)})
    if rng.chance(0.3):
        ops.append({"op": "inverse", "ys": [0.0, 0.5, 1.0, nice(rng, rng.random())]})
    ops.append({"op": "bad-set", "attr": attr, "value": bv})
    if rng.chance(0.4):
        ops.append({"op": rng.choice(["bad-call", "bad-inverse"]), "value": rng.choice(BAD_ARGS)})
    if rng.chance(0.3):
        ops.append({"op": "bad-set", "attr": rng.choice(["vmin", "vmax"]), "value": rng.choice(BAD_VALUES)})
    ops.append({"op": "call", "data": data0 if rng.chance(0.4) else hist_float_data(rng)})
    if rng.chance(0.5):
        ops.append({"op": "inverse", "ys": [0.0, 0.25, 1.0]})
    if rng.chance(0.4):
        ops.append({"op": "bad-call", "value": rng.choice(BAD_ARGS)})
        ops.append({"op": "call", "data": hist_float_data(rng)})
    return {"stream": "nhist", "cfg": cfg, "mode": mode, "data0": data0, "ops": ops}


def declared_limits(cfg, arr):
    """the limits the configuration DECLARES for this array (oracle, float64; independent of the code under test):
    manual: the given limits, a missing side is the min / max of the finite data; centered: vcenter -/+ half_range,
    a missing half range is max|x - vcenter|; quantile: NumPy's linear quantiles of the finite data"""
    np = _np()
    flat = arr.ravel()
    fin = (flat[np.isfinite(flat)] if flat.dtype.kind == "f" else flat).astype(np.float64)
    if len(fin) == 0:
        return None
    it = cfg["interval_type"]
    if it == "manual":
        lo = float(cfg["vmin"]) if cfg["vmin"] is not None else float(fin.min())
        hi = float(cfg["vmax"]) if cfg["vmax"] is not None else float(fin.max())
    elif it == "centered":
        vc = float(cfg["vcenter"])
        h = float(cfg["half_range"]) if cfg["half_range"] is not None else float(np.max(np.abs(fin - vc)))
        lo, hi = vc - h, vc + h
    elif it == "quantile":
        lo, hi = (float(v) for v in np.quantile(fin, [cfg["lower_quantile"], cfg["upper_quantile"]]))
    else:
        return None
    return lo, hi


def one_nhist(ctx, drv, case):
    np = _np()
    cfg, mode = case["cfg"], case["mode"]
    frozen = mode == "frozen"
    arr0 = build_array(case["data0"])
    ctx.count()
    ctx.dist["nhist:mode:" + mode] += 1
    ctx.dist["nhist:interval:" + cfg["interval_type"]] += 1
    sel = selected_stretch(cfg)
    linear = bool(sel) and sel[0] == "LinearStretch"
    tol_out = 0.0 if linear else 1e-9
    sig = f"{mode}:{cfg['interval_type']}:{sel[0] if sel else None}"
    ctx.mark(("nhist", mode, cfg["interval_type"], tuple(k for k in ("vmin", "vmax", "half_range") if cfg[k] is not None), sel[0] if sel else None,
              tuple((o["op"], o.get("attr"), o.get("value")) for o in case["ops"] if o["op"].startswith("bad"))))
    try:
        norm = make_norm(cfg, arr0 if frozen else None)
    except Exception as e:  # noqa
        ok0, _ = admissible(cfg, arr0)
        if ok0:
            ctx.pred_fail("raises:hist:" + sig, f"construction raised {err_name(e)} on an admissible array/configuration", case, observed=str(e)[:200],
                          required="normalisation object")
        return
    data0_bits = [fbits(v) for v in arr0.ravel().tolist()]
    rejected_so_far = []
    for k, op in enumerate(case["ops"]):
        kind = op["op"]
        if kind == "bad-set":
            try:
                setattr(norm, op["attr"], bad_value(op["value"]))
                ctx.dist["nhist:bad-set-accepted"] += 1
                return                              # matplotlib accepted it: what the limits mean now is not for C20 to say
            except Exception:  # noqa
                ctx.dist["nhist:bad-set-rejected"] += 1
                rejected_so_far.append(f"{op['attr']}={op['value']}")
            continue
        if kind in ("bad-call", "bad-inverse"):
            try:
                (norm if kind == "bad-call" else norm.inverse)(bad_arg(op["value"]))
                ctx.dist[f"nhist:{kind}-accepted"] += 1
            except Exception:  # noqa
                ctx.dist[f"nhist:{kind}-rejected"] += 1
                rejected_so_far.append(f"{kind}({op['value']})")
            continue
        step = {"step": k, "after_rejected": list(rejected_so_far)}
        if kind == "inverse":
            ys = np.array(op["ys"], dtype=np.float64)
            req = {"op": "norm", "cfg": cfg_to_driver(cfg), "frozen": frozen, "is_bool": False, "data": data0_bits, "inv": [fbits(v) for v in op["ys"]]}
            m = drv.ask(req)
            if "ok" not in m or isinstance(m["ok"].get("inv_out"), str) or m["ok"].get("inv_out") is None:
                continue                            # the model rejects this configuration / inverse: nothing to compare
            try:
                got = [float(v) for v in np.asarray(norm.inverse(ys)).ravel().tolist()]
            except Exception as e:  # noqa
                ctx.disagree("nhist", case, dict(step, inv_out="values"), dict(step, inv_out=err_name(e), msg=str(e)[:160]),
                             note="CustomNormalization.inverse raises in a history where the model does not")
                return
            want = [unbits(b) for b in m["ok"]["inv_out"]]
            sc = max([1.0] + [abs(x) for x in want if x == x and not math.isinf(x)])
            if frozen and any(not close(a, b, 1e-9, sc) for a, b in zip(want, got)):
                ctx.disagree("nhist", case, dict(step, inv_out=want), dict(step, inv_out=got), note="CustomNormalization.inverse values in a history")
                return
            continue
        # ---- a valid call
        arr = build_array(op["data"])
        flat = arr.ravel()
        xs = flat.tolist()
        impl = {}
        try:
            out = norm(arr)
            mask = np.ma.getmaskarray(out).ravel().tolist()
            vals = np.ma.getdata(out).ravel().tolist()
            impl["out"] = [None if mm else float(vv) for vv, mm in zip(vals, mask)]
        except Exception as e:  # noqa
            impl = {"err": err_name(e), "msg": str(e)[:200]}
        if frozen:
            req = {"op": "norm", "cfg": cfg_to_driver(cfg), "frozen": True, "is_bool": False, "data": data0_bits, "probe": [fbits(v) for v in xs]}
        else:
            req = {"op": "norm", "cfg": cfg_to_driver(cfg), "frozen": False, "is_bool": False, "data": [fbits(v) for v in xs]}
        m = drv.ask(req)
        if str(m.get("err", "")).startswith("driver"):
            raise RuntimeError(f"driver error {m}")
        ctx.dist["nhist:calls"] += 1
        ctx.dist["nhist:call-outcome:" + (impl.get("err") or "ok")] += 1
        # correspondence
        if "err" in impl or "err" in m:
            if impl.get("err") != m.get("err"):
                ctx.disagree("nhist", case, dict(step, err=m.get("err")), dict(step, err=impl.get("err"), msg=impl.get("msg")),
                             note="outcome of a valid call in a history (error kind)")
        else:
            mout = [unbits(b) for b in (m["ok"]["probe_out"] if frozen else m["ok"]["out"])]
            bad = [j for j, (a, b) in enumerate(zip(mout, impl["out"])) if not close(a, b, tol_out, 1.0)]
            if bad or len(mout) != len(impl["out"]):
                j = bad[0] if bad else 0
                ctx.disagree("nhist", case, dict(step, i=j, out=mout[j] if mout else None), dict(step, i=j, out=impl["out"][j] if impl["out"] else None),
                             note=f"normalised pixel of a call in a history (tol {tol_out})")
        # property clauses on this call (configuration + freezing array + argument inside the quantifier)
        ok_c, why = admissible(cfg, arr0 if frozen else arr)
        ok_a, why_a = admissible(dict(cfg, interval_type="manual", vmin=None, vmax=None), arr)
        if not (ok_c and ok_a):
            ctx.dist["nhist:outside-quantifier:" + (why or why_a)] += 1
            continue
        ctx.dist["nhist:inside-quantifier"] += 1
        hsig = "hist:" + sig
        if "err" in impl:
            ctx.pred_fail("raises:" + hsig, f"a valid call raised {impl['err']} ({impl.get('msg')}) on an admissible array/configuration"
                          + (f" after the rejected operation(s) {rejected_so_far}" if rejected_so_far else ""), case,
                          observed=dict(step, error=impl["err"]), required="finite data mapped into [0, 1]")
            return
        t = slack(cfg, arr.dtype)
        if not clauses_range_mono_nan(ctx, case, hsig, xs, impl["out"], t):
            return
        # the limits the configuration declares (from the freezing array, or from this argument when lazy): pixels at or
        # beyond them sit at 0 / 1 — also for the 2nd, 3rd, … array a lazy object is applied to
        dl = declared_limits(cfg, arr0 if frozen else arr)
        if dl is not None and dl[0] < dl[1] and arr.dtype != np.float32:
            ctx.dist["nhist:limits-beyond-checked"] += 1
            tiny_p = (1e-13 ** float(sel[1])) if sel[0] == "PowerLawStretch" else 0.0
            te0, te1 = max(t, 1e-9, tiny_p), max(t, 1e-9)
            for j, (x, y) in enumerate(zip(xs, impl["out"])):
                if isinstance(x, float) and (x != x or math.isinf(x)):
                    continue
                want = 0.0 if x <= dl[0] else (1.0 if x >= dl[1] else None)
                if want is not None and (y is None or abs(y - want) > (te0 if want == 0.0 else te1)):
                    ctx.pred_fail("limits-beyond:" + hsig, "a pixel at/beyond the limit the configuration declares for this array is not at 0 / 1"
                                  + (" (call number %d on this object)" % (1 + sum(1 for o in case["ops"][:k] if o["op"] == "call"))), case,
                                  observed=dict(step, declared_vmin=dl[0], declared_vmax=dl[1], x=x, out=y), required=want)
                    return
        if frozen and "ok" in m:
            lo, hi = unbits(m["ok"]["vmin"]), unbits(m["ok"]["vmax"])
            rlo, rhi = norm.vmin, norm.vmax
            if lo is not None and hi is not None and lo < hi and rlo is not None and rhi is not None:
                ctx.dist["nhist:limits-clause-checked"] += 1
                try:
                    pr = norm(np.array([float(rlo), float(rhi)], dtype=np.float64))
                    pv = [None if mm else float(vv) for vv, mm in zip(np.ma.getdata(pr).ravel().tolist(), np.ma.getmaskarray(pr).ravel().tolist())]
                except Exception as e:  # noqa
                    pv = err_name(e)
                if isinstance(pv, str) or pv[0] is None or pv[1] is None or abs(pv[0]) > t or abs(pv[1] - 1.0) > t:
                    ctx.pred_fail("limits:" + hsig, "the limits the normalisation reports (norm.vmin, norm.vmax) are not sent to 0 and 1"
                                  + (f" after the rejected operation(s) {rejected_so_far}" if rejected_so_far else ""), case,
                                  observed=dict(step, vmin=float(rlo), vmax=float(rhi), **{"norm([vmin, vmax])": pv}), required=[0.0, 1.0])
                    return
    ctx.sample({"stream": "nhist", "mode": mode, "cfg": {k: v for k, v in cfg.items() if v != DEFAULT_CFG[k]},
                "ops": [[o["op"], o.get("attr"), o.get("value")] for o in case["ops"]]}, limit=4)


def stream_nhist(ctx, drv):
    for i in range(ctx.n(300, 4000)):
        rng = ctx.rng.fork(7_000_000 + i)
        one_nhist(ctx, drv, gen_nhist_case(rng, i))


# ---------------------------------------------------------------------------------------
# stream "edge" (growth 6): FIXED blocks, independent of VERIF_SEED, for the input classes of the round-6 themes:
#   * limits frozen from a frame A (all-finite float frame, or a bool frame), object applied to ANOTHER frame B that holds
#     -inf only / +inf only / both / NaN only / NaN and inf; A itself after NaN / inf were written into it IN PLACE (and the
#     same call simply repeated); lazy objects on the same frames — under manual (both / none / one-sided), quantile and
#     centered (negative centre) intervals, ascending / descending / all-negative data;
#   * integer images around 127 / 255 / 32767 / 2**24 / 2**31 / 2**53 / 2**63 (through the "norm" machinery);
#   * images with more than 2**20 pixels (periodic column pattern, one extreme pixel just past index 2**20): predicate only,
#     vectorised.
# Theorems behind it: Props/C20Ext.lean (frozen_any_frame_spec, bool_frozen_spec, frozen_inplace_nan, getLimits_perm, call_perm).

EDGE_SPECIALS = {"clean": [], "neginf": ["-inf"], "posinf": ["inf"], "bothinf": ["-inf", "inf"], "nan": ["nan", "nan"],
                 "nan+inf": ["nan", "inf", "-inf"]}
EDGE_BASES = {"asc": [-3.5, -1.0, 0.25, 0.5, 2.0, 4.75, 7.0, 9.5],
              "desc": [9.5, 7.0, 4.75, 2.0, 0.5, 0.25, -1.0, -3.5],
              "neg": [-2.0, -3.25, -7.5, -8.0, -11.0, -40.0, -41.5, -100.0]}
EDGE_INTERVALS = ["manual-both", "manual-auto", "manual-vmin", "manual-vmax", "quantile", "quantile01", "centered-auto-neg", "centered-half-neg"]
EDGE_STRETCHES = [("linear", {}), ("power", {"power": 0.5}), ("logarithmic", {}), ("asinh", {}), ("power", {"power": 2}),
                  ("logarithmic", {"logarithmic_index": 10}), ("asinh", {"asinh_linear_range": 1})]
EDGE_MODES = ["frozen-other", "frozen-inplace", "frozen-bool", "lazy"]
EDGE_POS = [2, 5, 7]          # where the special values sit (inserted for a frame B, overwritten for the in-place mode)


def edge_cfg(ik, stretch, fvals):
    fin = [v for v in fvals if isinstance(v, (int, float)) and not isinstance(v, bool) and v == v and not math.isinf(v)] or [0.0, 1.0]
    fmin, fmax = float(min(fin)), float(max(fin))
    span = (fmax - fmin) or 1.0
    cfg = dict(DEFAULT_CFG)
    if ik.startswith("manual"):
        cfg["interval_type"] = "manual"
        if ik in ("manual-both", "manual-vmin"):
            cfg["vmin"] = fmin + 0.25 * span
        if ik == "manual-both":
            cfg["vmax"] = fmax - 0.125 * span
        if ik == "manual-vmax":
            cfg["vmax"] = fmax - 0.25 * span
    elif ik.startswith("quantile"):
        cfg["interval_type"] = "quantile"
        if ik == "quantile01":
            cfg["lower_quantile"], cfg["upper_quantile"] = 0, 1
    else:
        cfg["interval_type"] = "centered"
        cfg["vcenter"] = -2.5
        if ik == "centered-half-neg":
            cfg["half_range"] = span
    cfg["stretch_type"] = stretch[0]
    cfg.update(stretch[1])
    return cfg


def gen_edge_cases():
    cases = []
    i = 0
    for sp in EDGE_SPECIALS:
        for ik in EDGE_INTERVALS:
            for mode in EDGE_MODES:
                base = list(EDGE_BASES[["asc", "desc", "neg"][i % 3]])
                stretch = EDGE_STRETCHES[i % len(EDGE_STRETCHES)]
                dt = "float32" if (i // 4 + i % 4) % 4 == 3 else "float64"       # every mode gets both dtypes
                spv = EDGE_SPECIALS[sp]
                if mode == "frozen-inplace":
                    a = list(base)
                    b = list(base)
                    for pos, v in zip(EDGE_POS, spv):
                        b[pos] = v
                else:
                    b = list(base)
                    for pos, v in reversed(list(zip(EDGE_POS, spv))):
                        b.insert(pos, v)
                    if mode == "frozen-other":
                        a = [1.5 * v - 1.0 for v in reversed(base)]
                    elif mode == "frozen-bool":
                        a = [True, False, False, True]
                    else:
                        a = None
                lim_frame = b if mode == "lazy" else a
                cfg = edge_cfg(ik, stretch, [unj(v) for v in lim_frame])
                case = {"stream": "edge", "mode": mode, "ik": ik, "special": sp, "dtype": dt, "cfg": cfg, "A": a, "B": b}
                if mode == "frozen-inplace" and (i // 4) % 2:
                    case["no_first_call"] = True      # the frame is overwritten BEFORE the object is used for the first time
                cases.append(case)
                i += 1
    return cases


def _masked_list(np, out):
    mask = np.ma.getmaskarray(out).ravel().tolist()
    vals = np.ma.getdata(out).ravel().tolist()
    return [None if m else float(v) for v, m in zip(vals, mask)]


def one_edge(ctx, drv, case):
    np = _np()
    cfg, mode, dt = case["cfg"], case["mode"], case["dtype"]
    f32 = dt == "float32"
    sel = selected_stretch(cfg)
    linear = bool(sel) and sel[0] == "LinearStretch"
    sig = f"edge:{dt}:{mode}:{case['ik']}:{sel[0] if sel else None}:{case['special']}"
    ctx.count()
    ctx.dist["edge:mode:" + mode] += 1
    ctx.dist["edge:special:" + case["special"]] += 1
    ctx.dist["edge:interval:" + case["ik"]] += 1
    ctx.mark(("edge", dt, mode, case["ik"], sel[0] if sel else None, case["special"]))
    arrB = np.array([unj(v) for v in case["B"]], dtype=dt)
    is_bool = mode == "frozen-bool"
    arrA = None if case["A"] is None else (np.array(case["A"], dtype=bool) if is_bool else np.array([unj(v) for v in case["A"]], dtype=dt))
    frozen = mode != "lazy"
    limF = arrA if frozen else arrB                       # the frame the limits come from
    ok_c, why = (True, "") if is_bool else admissible(cfg, limF)
    ok_b, why_b = admissible(dict(cfg, interval_type="manual", vmin=None, vmax=None), arrB)
    inside = ok_c and ok_b and selected_stretch(cfg) is not None
    impl = {}
    out_first = out_first_snapshot = None
    try:
        if mode == "frozen-inplace":
            work = arrA.copy()
            norm = make_norm(cfg, work)
            if not case.get("no_first_call"):
                out_first = norm(work)
                out_first_snapshot = _masked_list(np, out_first)
            for pos, v in zip(EDGE_POS, EDGE_SPECIALS[case["special"]]):
                work[pos] = unj(v)                        # written IN PLACE into the frame the limits were frozen from
            out = norm(work)
        else:
            norm = make_norm(cfg, arrA if frozen else None)
            work = arrB.copy()
            out = norm(work)
        impl["out"] = _masked_list(np, out)
        impl["input_changed"] = not np.array_equal(work, arrB, equal_nan=True)
    except Exception as e:  # noqa
        impl = {"err": err_name(e), "msg": str(e)[:200]}
    xs = arrB.ravel().tolist()
    # ---- correspondence (float64 frames; float32 frames are left to the predicates)
    if not f32:
        fb = [fbits(float(v)) for v in (limF.ravel().tolist())]
        if frozen:
            req = {"op": "norm", "cfg": cfg_to_driver(cfg), "frozen": True, "is_bool": is_bool, "data": fb, "probe": [fbits(v) for v in xs]}
        else:
            req = {"op": "norm", "cfg": cfg_to_driver(cfg), "frozen": False, "is_bool": False, "data": [fbits(v) for v in xs]}
        m = drv.ask(req)
        if str(m.get("err", "")).startswith("driver"):
            raise RuntimeError(f"driver error {m}")
        if "err" in impl or "err" in m:
            if impl.get("err") != m.get("err"):
                ctx.disagree("edge", case, {"err": m.get("err")}, {"err": impl.get("err"), "msg": impl.get("msg")}, note="outcome (error kind) differs")
        else:
            mout = [unbits(b) for b in (m["ok"]["probe_out"] if frozen else m["ok"]["out"])]
            tol_out = 0.0 if linear else 1e-9
            bad = [j for j, (a, b) in enumerate(zip(mout, impl["out"])) if not close(a, b, tol_out, 1.0)]
            if bad or len(mout) != len(impl["out"]):
                j = bad[0] if bad else 0
                ctx.disagree("edge", case, {"i": j, "x": jnum(xs[j]), "out": mout[j] if mout else None},
                             {"i": j, "x": jnum(xs[j]), "out": impl["out"][j] if impl["out"] else None}, note=f"pixel of the frame the object is applied to (tol {tol_out})")
            if frozen and not is_bool and "err" not in impl:
                for name, a, b in (("vmin", unbits(m["ok"]["vmin"]), norm.vmin), ("vmax", unbits(m["ok"]["vmax"]), norm.vmax)):
                    if b is None or not close(a, float(b), 0.0, 1.0):
                        ctx.disagree("edge", case, {name: a}, {name: None if b is None else float(b)}, note="frozen limit")
    # ---- property clauses
    if not inside:
        ctx.dist["edge:outside-quantifier:" + (why or why_b)] += 1
        return
    ctx.dist["edge:inside-quantifier"] += 1
    if "err" in impl:
        ctx.pred_fail("raises:" + sig, f"display normalisation raised {impl['err']} ({impl.get('msg')}) on an admissible frame/configuration", case,
                      observed=impl["err"], required="finite data mapped into [0, 1]")
        return
    t = slack(cfg, arrB.dtype)
    if not clauses_range_mono_nan(ctx, case, sig, xs, impl["out"], t):
        return
    if out_first is not None:
        # the frame before the in-place write: its displayed values must not move when the object is used again (a result
        # that aliases an internal buffer would), and pixels that were not overwritten are displayed exactly as before
        again = _masked_list(np, out_first)
        if again != out_first_snapshot:
            ctx.pred_fail("result-aliased:" + sig, "the result of the first call changed when the object was called again", case,
                          observed={"first": out_first_snapshot, "first_after_second_call": again}, required="unchanged")
            return
        touched = set(EDGE_POS[:len(EDGE_SPECIALS[case["special"]])])
        for j, (a, b) in enumerate(zip(out_first_snapshot, impl["out"])):
            if j not in touched and a != b:
                ctx.pred_fail("inplace-moved:" + sig, "limits were frozen, yet a pixel that was not overwritten is displayed differently after NaN/inf were "
                              "written into other pixels of the same array (or the same call was repeated)", case,
                              observed={"i": j, "x": jnum(xs[j]), "before": a, "after": b}, required=a)
                return
    dl = (0.0, 1.0) if is_bool else declared_limits(cfg, limF)
    if dl is not None and dl[0] < dl[1] and not f32:
        ctx.dist["edge:limits-beyond-checked"] += 1
        tiny_p = (1e-13 ** float(sel[1])) if sel[0] == "PowerLawStretch" else 0.0
        te0, te1 = max(t, 1e-9, tiny_p), max(t, 1e-9)
        for j, (x, y) in enumerate(zip(xs, impl["out"])):
            if x != x or math.isinf(x):
                continue
            want = 0.0 if x <= dl[0] else (1.0 if x >= dl[1] else None)
            if want is not None and (y is None or abs(y - want) > (te0 if want == 0.0 else te1)):
                ctx.pred_fail("limits-beyond:" + sig, "a pixel at/beyond the limit the configuration declares (from the frame the limits were taken from) is not at 0 / 1",
                              case, observed={"declared_vmin": dl[0], "declared_vmax": dl[1], "x": x, "out": y}, required=want)
                return
    if frozen and dl is not None and not f32:
        # state "vmin/vmax fixed by _set_limits": the frozen limits are the ones the configuration declares for the frame given
        # at construction — as it was THEN (not for a later frame, not for that frame after it was overwritten in place)
        ctx.dist["edge:limits-frozen-checked"] += 1
        rl = [None if v is None else float(v) for v in (norm.vmin, norm.vmax)]
        tolv = 1e-12 * max(abs(dl[0]), abs(dl[1]), 1.0)
        if rl[0] is None or rl[1] is None or abs(rl[0] - dl[0]) > tolv or abs(rl[1] - dl[1]) > tolv:
            ctx.pred_fail("limits-frozen:" + sig, "the frozen limits (norm.vmin, norm.vmax) are not the ones the configuration declares for the frame the "
                          "object was constructed with", case, observed={"vmin": rl[0], "vmax": rl[1]}, required=[dl[0], dl[1]])
            return
    if frozen and norm.vmin is not None and norm.vmax is not None and float(norm.vmin) < float(norm.vmax):
        ctx.dist["edge:limits-clause-checked"] += 1
        try:
            pv = _masked_list(np, norm(np.array([float(norm.vmin), float(norm.vmax)], dtype=np.float64)))
        except Exception as e:  # noqa
            pv = err_name(e)
        if isinstance(pv, str) or pv[0] is None or pv[1] is None or abs(pv[0]) > t or abs(pv[1] - 1.0) > t:
            ctx.pred_fail("limits:" + sig, "the limits the normalisation reports (norm.vmin, norm.vmax) are not sent to 0 and 1 after it was applied to another frame",
                          case, observed={"vmin": float(norm.vmin), "vmax": float(norm.vmax), "norm([vmin, vmax])": pv}, required=[0.0, 1.0])
            return
    ctx.sample({"stream": "edge", "mode": mode, "ik": case["ik"], "special": case["special"], "dtype": dt, "B": case["B"], "out": impl["out"]}, limit=3)


# integer images around the thresholds of the narrower types (values beyond int8 / uint8 / int16 / float32's 2**24 / int32 /
# float64's 2**53 / int64), ascending and descending
EDGE_INT_FRAMES = [
    ("int8", [-128, -1, 0, 126, 127]),
    ("uint8", [0, 127, 128, 254, 255]),
    ("int16", [126, 127, 128, 129, 255, 256, -129, -128]),
    ("int16", [-3, -50, -129, -300, -32768]),
    ("uint16", [254, 255, 256, 257, 32767, 32768, 65535]),
    ("int32", [32766, 32767, 32768, 32769, 65535, 65536]),
    ("int32", [2 ** 24 - 1, 2 ** 24, 2 ** 24 + 1, 2 ** 24 + 2, 2 ** 24 + 3]),
    ("int32", [-(2 ** 24) - 1, -(2 ** 24), -(2 ** 24) + 1, -(2 ** 24) + 2]),
    ("uint32", [2 ** 31 - 1, 2 ** 31, 2 ** 31 + 1, 2 ** 32 - 1]),
    ("int64", [2 ** 31 - 1, 2 ** 31, 2 ** 31 + 1, -(2 ** 31) - 1]),
    ("int64", [2 ** 24, 2 ** 24 + 1, 2 ** 24 + 2, 2 ** 24 + 3, 2 ** 24 + 4]),
    ("uint64", [2 ** 53, 2 ** 53 + 2, 2 ** 53 + 4, 2 ** 53 + 6, 2 ** 53 + 8]),
    ("uint64", [0, 2 ** 53 + 2, 2 ** 63, 2 ** 63 + 2 ** 12, 2 ** 64 - 2 ** 11]),
    ("int64", [-(2 ** 63), -(2 ** 53) - 2, 0, 2 ** 53 + 2, 2 ** 63 - 1024]),
]
EDGE_INT_INTERVALS = ["manual-auto", "quantile01", "quantile", "centered-auto-neg", "manual-vmin"]


def gen_edge_int_cases():
    cases = []
    i = 0
    for dt, vals in EDGE_INT_FRAMES:
        for ik in EDGE_INT_INTERVALS:
            for mode in ("frozen", "lazy"):
                stretch = EDGE_STRETCHES[i % len(EDGE_STRETCHES)]
                cfg = edge_cfg(ik, stretch, vals)
                if ik == "manual-vmin":
                    cfg["vmin"] = int(sorted(vals)[1])                 # an exact integer limit inside the data
                if ik == "centered-auto-neg":
                    cfg["vcenter"] = -3 if i % 2 else -2.5
                v = list(vals) if i % 3 else list(reversed(vals))
                shape = [len(v)] if len(v) % 2 or i % 2 else [2, len(v) // 2]
                cases.append({"stream": "norm", "data": {"dtype": dt, "shape": shape, "values": v}, "cfg": cfg, "mode": mode, "edge": "int"})
                i += 1
    return cases


EDGE_BIG = ["quantile-periodic:frozen", "quantile-periodic:lazy", "minmax-past-2^20:lazy", "centered-past-2^20:frozen"]


def edge_big_array(which):
    np = _np()
    if which.startswith("quantile-periodic"):
        # 2048 x 2048 float64 (> 2**20 pixels): every row repeats an 8-column pattern whose even columns hold only small values;
        # 1/8 of the pixels are 90 -> the 0.98 quantile is 90, the 0.02 quantile 0; a NaN stripe, one +inf, one -inf
        pat = np.array([0.0, 10.0, 1.0, 10.0, 2.0, 10.0, 3.0, 90.0])
        arr = np.tile(pat, (2048, 256))
        arr[5, ::64] = np.nan
        arr[1001, 1003] = np.inf           # adjacent, and an even number of NaNs: the phase of the pattern in the sequence of
        arr[1001, 1004] = -np.inf          # finite pixels is the same before and after them
        arr[1500, 1] = -40.0              # single finite pixels beyond the quantile limits
        arr[2047, 2047] = 400.0
        cfg = dict(DEFAULT_CFG)
    else:
        # 1 x (2**20 + 1) int32: the minimum is the pixel at index 2**20 (the first one past a 2**20 block), the maximum the last
        # pixel of the previous block
        n = 2 ** 20 + 1
        arr = (np.arange(n, dtype=np.int64) % 10 + 20).astype(np.int32).reshape(1, n)
        arr[0, n - 1] = -70000
        arr[0, n - 2] = 17_000_000
        cfg = dict(DEFAULT_CFG, interval_type="manual") if which.startswith("minmax") else dict(DEFAULT_CFG, interval_type="centered", vcenter=-2.5)
    return arr, cfg


def one_edge_big(ctx, drv, case):
    """predicate only (the array does not cross to the Lean driver), vectorised"""
    np = _np()
    which, mode = case["which"].split(":")
    arr, cfg = edge_big_array(which)
    sig = f"edge-big:{which}:{mode}"
    ctx.count()
    ctx.dist["edge:big:" + which] += 1
    ctx.mark(("edge-big", which, mode))
    try:
        norm = make_norm(cfg, arr if mode == "frozen" else None)
        out = norm(arr)
    except Exception as e:  # noqa
        ctx.pred_fail("raises:" + sig, f"display normalisation raised {err_name(e)} on a {arr.shape} image", case, observed=str(e)[:200], required="[0, 1]")
        return
    x = arr.ravel().astype(np.float64)
    y = np.ma.getdata(out).ravel().astype(np.float64)
    msk = np.ma.getmaskarray(out).ravel()
    if y.shape != x.shape:
        ctx.pred_fail("range:" + sig, "output has another number of pixels", case, observed=list(y.shape), required=list(x.shape))
        return
    isnan, fin = np.isnan(x), np.isfinite(x)
    if not msk[isnan].all():
        ctx.pred_fail("nan-unmasked:" + sig, "a NaN pixel came back as a number", case, observed=int((~msk[isnan]).sum()), required="masked")
        return
    yf, xf = y[fin], x[fin]
    if msk[fin].any() or not np.all((yf >= 0.0) & (yf <= 1.0)):
        j = int(np.flatnonzero(msk[fin] | ~((yf >= 0.0) & (yf <= 1.0)))[0])
        ctx.pred_fail("range:" + sig, "finite pixel not mapped into [0, 1]", case, observed={"x": float(xf[j]), "out": float(yf[j]), "masked": bool(msk[fin][j])},
                      required="number in [0, 1]")
        return
    order = np.argsort(xf, kind="stable")
    xs_, ys_ = xf[order], yf[order]
    dx, dy = np.diff(xs_), np.diff(ys_)
    badm = (dy < 0) | ((dx == 0) & (dy != 0))
    if badm.any():
        j = int(np.flatnonzero(badm)[0])
        ctx.pred_fail("monotone:" + sig, "normalisation is not non-decreasing in the data value", case,
                      observed={"x": [float(xs_[j]), float(xs_[j + 1])], "out": [float(ys_[j]), float(ys_[j + 1])]}, required="out(x0) <= out(x1) for x0 <= x1")
        return
    dl = declared_limits(cfg, arr)
    lo, hi = dl
    ctx.dist["edge:big-limits-checked"] += 1
    # the limits the object reports / uses are the ones the interval type declares for THIS image (all of its pixels)
    try:
        rlo, rhi = (norm.vmin, norm.vmax) if mode == "frozen" else norm.interval.get_limits(arr.astype(np.float64))
        rlo, rhi = float(rlo), float(rhi)
    except Exception as e:  # noqa
        rlo = rhi = None
    tolv = 1e-9 * max(abs(lo), abs(hi), 1.0)
    if rlo is None or abs(rlo - lo) > tolv or abs(rhi - hi) > tolv:
        ctx.pred_fail("limits-auto-value:" + sig, "the limits are not the ones the interval type declares for this image (quantiles / min-max / centred range of ALL its finite pixels)",
                      case, observed={"vmin": rlo, "vmax": rhi}, required=[lo, hi])
        return
    if selected_stretch(cfg)[0] == "LinearStretch" and lo < hi:
        # correspondence with the closed form the model is proved equal to (intervalFin_eq): clip01((x - lo) / (hi - lo))
        want = np.clip((xf - lo) / (hi - lo), 0.0, 1.0)
        dev = np.abs(yf - want)
        ctx.stat_max("max_abs_dev_out_big_linear", float(dev.max()))
        if dev.max() > 1e-9:
            j = int(np.argmax(dev))
            ctx.disagree("edge-big", case, {"x": float(xf[j]), "out": float(want[j])}, {"x": float(xf[j]), "out": float(yf[j])},
                         note="pixel of a > 2**20-pixel image vs clip01((x - vmin) / (vmax - vmin)) with the declared limits")
    below, above = xf <= lo, xf >= hi
    if not (np.all(yf[below] == 0.0) and np.all(yf[above] == 1.0)):
        bad = np.flatnonzero((below & (yf != 0.0)) | (above & (yf != 1.0)))
        j = int(bad[0])
        ctx.pred_fail("limits-beyond:" + sig, "a pixel at/beyond the limit the configuration declares for this image is not at exactly 0 / 1", case,
                      observed={"declared_vmin": lo, "declared_vmax": hi, "x": float(xf[j]), "out": float(yf[j]), "pixels": int(len(bad))},
                      required=0.0 if xf[j] <= lo else 1.0)
        return
    # strictly inside the declared limits the default linear stretch separates clearly distinct values
    inner = (xf > lo) & (xf < hi)
    if inner.any() and not (np.all(yf[inner] > 0.0) and np.all(yf[inner] < 1.0)):
        j = int(np.flatnonzero(inner & ~((yf > 0.0) & (yf < 1.0)))[0])
        ctx.pred_fail("limits-auto-distinct:" + sig, "a pixel strictly inside the declared limits is displayed like the limit (clipped)", case,
                      observed={"declared_vmin": lo, "declared_vmax": hi, "x": float(xf[j]), "out": float(yf[j])}, required="strictly between 0 and 1")
        return
    if mode == "frozen":
        pv = _masked_list(np, norm(np.array([float(norm.vmin), float(norm.vmax)], dtype=np.float64)))
        if pv != [0.0, 1.0]:
            ctx.pred_fail("limits:" + sig, "the limits the normalisation reports are not sent to exactly 0 and 1", case,
                          observed={"vmin": float(norm.vmin), "vmax": float(norm.vmax), "norm([vmin, vmax])": pv}, required=[0.0, 1.0])


# stream "alias" (growth 6): the BUFFER level (Model/NormAlias.lean).  S(buf, copy=False) leaves the result in the caller's
# array (CustomNormalization.__call__ discards the return value and reads the buffer), S(buf, copy=True) leaves it untouched.
# Correspondence only (aliasing is a mechanism, not a clause of the property).  Fixed block.
ALIAS_PARAMS = {"LinearStretch": [[1.0, 0.0], [2.0, 0.25], [0.5, 0.0]], "PowerLawStretch": [[1.0], [0.5], [2]],
                "LogarithmicStretch": [[1000.0], [10]], "InverseLogarithmicStretch": [[1000.0], [3.5]],
                "InverseHyperbolicSineStretch": [[0.1], [1]], "HyperbolicSineStretch": [[1.0 / 3.0], [2.0]]}
ALIAS_XS = [0.0, 1.0, 0.5, 0.125, 0.75, -0.5, 1.5, "nan", "inf", "-inf"]


def one_alias(ctx, drv, case):
    np = _np()
    cn = _cn()
    ctx.count()
    ctx.dist["alias:" + case["cls"] + (":copy" if case["copy"] else ":nocopy")] += 1
    ctx.mark(("alias", case["cls"], tuple(case["params"]), case["copy"]))
    buf = np.array([unj(v) for v in case["xs"]], dtype=np.float64)
    m = drv.ask({"op": "alias", "cls": case["cls"], "params": [fbits(p) for p in case["params"]], "xs": [fbits(v) for v in buf.tolist()],
                 "copy": bool(case["copy"])})
    if "ok" not in m:
        raise RuntimeError(f"driver error {m}")
    try:
        S = getattr(cn, case["cls"])(*case["params"])
        r = S(buf, copy=case["copy"])
        impl = {"ret": [float(v) for v in np.asarray(r).ravel().tolist()], "buf": [float(v) for v in buf.tolist()]}
    except Exception as e:  # noqa
        ctx.disagree("alias", case, "values", {"err": err_name(e), "msg": str(e)[:160]}, note="stretch call raised")
        return
    for name in ("ret", "buf"):
        mv = [unbits(b) for b in m["ok"][name]]
        for j, (a, b) in enumerate(zip(mv, impl[name])):
            if not close(a, b, 1e-9, max(1.0, abs(a)) if a == a and not math.isinf(a) else 1.0):
                ctx.disagree("alias", case, {name: a, "i": j}, {name: b, "i": j},
                             note=("the array S returns" if name == "ret" else "the caller's array after the call") + f" (x={case['xs'][j]})")
                return


def stream_alias(ctx, drv):
    for cls in STRETCH_CLASSES:
        for params in ALIAS_PARAMS[cls]:
            for copy in (False, True):
                one_alias(ctx, drv, {"stream": "alias", "cls": cls, "params": params, "xs": ALIAS_XS, "copy": copy})
    # CustomNormalization.__call__ against the buffer-level model (stretch return value discarded, buffer read)
    np = _np()
    for k, case in enumerate(c for c in gen_edge_cases() if c["mode"] == "lazy" and c["dtype"] == "float64"):
        if k % 3:
            continue
        arr = np.array([unj(v) for v in case["B"]], dtype=np.float64)
        m = drv.ask({"op": "callbuf", "cfg": cfg_to_driver(case["cfg"]), "copy": False, "data": [fbits(v) for v in arr.tolist()]})
        ctx.count()
        ctx.dist["alias:callbuf"] += 1
        try:
            impl = _masked_list(np, make_norm(case["cfg"], None)(arr))
        except Exception as e:  # noqa
            impl = err_name(e)
        if "ok" not in m or isinstance(impl, str):
            if m.get("err") != impl:
                ctx.disagree("alias", dict(case, stream="edge"), {"err": m.get("err")}, {"err": impl}, note="outcome of the call (buffer-level model)")
            continue
        mv = [unbits(b) for b in m["ok"]["out"]]
        sel = selected_stretch(case["cfg"])
        tol = 0.0 if sel and sel[0] == "LinearStretch" else 1e-9
        bad = [j for j, (a, b) in enumerate(zip(mv, impl)) if not close(a, b, tol, 1.0)]
        if bad or len(mv) != len(impl):
            ctx.disagree("alias", dict(case, stream="edge"), {"i": bad[0] if bad else None, "out": mv}, {"out": impl},
                         note="CustomNormalization.__call__ vs the buffer-level model (copy=False, return value discarded)")


# stream "grid" (growth 6): the public show_2d with SEVERAL arrays (row / column / 2-D grid) and per-panel or shared norm
# arguments (_normalize_show_input_to_grid, _norm_show_args, _normalize_show_args_to_grid).  Every panel must be drawn exactly
# as show_2d draws that array alone with that norm (each array gets its own limits; a configuration object shared by the
# panels or by two consecutive calls is not changed by drawing), and under a min-max norm the panel's own minimum / maximum
# are black / white.  Fixed block.
GRID_ARRAYS = [
    {"dtype": "float32", "shape": [3, 4], "values": [-3.5, -1.0, 0.25, 0.5, 2.0, 4.75, 7.0, 9.5, 1.0, 1.5, 3.0, 8.0]},
    {"dtype": "int16", "shape": [3, 4], "values": [300, 129, 128, 127, 255, 256, 1000, 32767, 500, 700, 900, -129]},
    {"dtype": "float32", "shape": [3, 4], "values": [-100.0, -41.5, "nan", -40.0, -11.0, -8.0, "inf", -7.5, -3.25, -2.0, "-inf", -50.0]},
    {"dtype": "float64", "shape": [4, 3], "values": [0.0, 0.125, 0.25, 0.375, 0.5, 0.625, 0.75, 0.875, 1.0, 2.0, 64.0, 0.0625]},
]
GRID_NORMS = {"none": None, "minmax": "minmax", "log": "log_minmax", "centered": "linear_centered",
              "manual": {"interval_type": "manual", "vmin": -2.0, "vmax": 200.0, "stretch_type": "asinh"},
              "quantile": {"interval_type": "quantile", "lower_quantile": 0.1, "upper_quantile": 0.9}}
GRID_CASES = [
    # (layout of array indices, norm argument as names, expected per-panel norm names)
    ([[0, 1, 2]], ["minmax", "log", "manual"], [["minmax", "log", "manual"]]),
    ([[0, 1, 2]], "minmax", [["minmax", "minmax", "minmax"]]),
    ([[1, 0]], ["quantile"], [["quantile", "quantile"]]),
    ([[0], [1], [2]], ["centered", "minmax", "log"], [["centered"], ["minmax"], ["log"]]),
    ([[0, 1], [2, 3]], [["minmax", "manual"], ["log", "quantile"]], [["minmax", "manual"], ["log", "quantile"]]),
    ([[2, 1], [0, 3]], None, [["none", "none"], ["none", "none"]]),
    ([[3, 2, 1, 0]], "cfgobj:minmax", [["cfgobj:minmax"] * 4]),
    ([[1, 2]], "cfgobj:quantile", [["cfgobj:quantile"] * 2]),
]


def one_grid(ctx, drv, case):
    np = _np()
    cn = _cn()
    import matplotlib.pyplot as plt
    from quantem.core.visualization import visualization as vis
    layout, norm_names, expected = case["layout"], case["norm"], case["expected"]
    arrays = [build_array(d) for d in GRID_ARRAYS]
    shared = {}

    def norm_of(name):
        if isinstance(name, str) and name.startswith("cfgobj:"):
            # ONE NormalizationConfig object for all panels (and for the single-panel references drawn afterwards)
            if name not in shared:
                base = GRID_NORMS[name.split(":", 1)[1]]
                shared[name] = cn.NORMALIZATION_PRESETS[base]() if isinstance(base, str) else cn.NormalizationConfig(**base)
            return shared[name]
        v = GRID_NORMS[name]
        return dict(v) if isinstance(v, dict) else v

    def fresh(name):
        # the reference (array shown alone) gets its own, newly built configuration
        if isinstance(name, str) and name.startswith("cfgobj:"):
            base = GRID_NORMS[name.split(":", 1)[1]]
            return cn.NORMALIZATION_PRESETS[base]() if isinstance(base, str) else cn.NormalizationConfig(**base)
        return norm_of(name)

    def conv(x):
        if isinstance(x, list):
            return [conv(y) for y in x]
        return norm_of(x) if x is not None else None

    ctx.count()
    nr, nc = len(layout), len(layout[0])
    form = "single" if not isinstance(norm_names, list) else ("2d" if isinstance(norm_names[0], list) else "1d")
    sig = f"show_2d:grid{nr}x{nc}:{form}"
    ctx.dist["grid:" + sig] += 1
    ctx.mark(("grid", nr, nc, form, str(norm_names)))
    grid = [[arrays[k] for k in row] for row in layout]
    arg = grid[0] if nr == 1 else grid
    figs = []
    try:
        fig, axs = vis.show_2d(arg, norm=conv(norm_names))
        figs.append(fig)
        axs = np.asarray(axs).reshape(nr, nc)
        for i in range(nr):
            for j in range(nc):
                k = layout[i][j]
                img = np.array(axs[i, j].images[-1].get_array(), dtype=np.float64)
                f1, a1 = vis.show_2d([arrays[k]], norm=fresh(expected[i][j]) if expected[i][j] != "none" else None)
                figs.append(f1)
                ref = np.array(a1.images[-1].get_array(), dtype=np.float64)
                if img.shape != ref.shape or not np.array_equal(img, ref, equal_nan=True):
                    idx = np.argwhere(np.any(img != ref, axis=-1))[0].tolist() if img.shape == ref.shape else None
                    ctx.pred_fail("grid-panel:" + sig, f"panel ({i}, {j}) of a multi-array show_2d is not drawn like the same array shown alone with the same norm "
                                  "(each array is normalised with its own limits)", case,
                                  observed={"panel": [i, j], "array": k, "pixel": idx, "grid": None if idx is None else img[tuple(idx)].tolist(),
                                            "alone": None if idx is None else ref[tuple(idx)].tolist()}, required="identical images")
                    return
                base = expected[i][j].split(":")[-1]
                if base in ("minmax", "log"):
                    a = arrays[k].astype(np.float64)
                    finm = np.isfinite(a)
                    lo_i = np.unravel_index(np.argmin(np.where(finm, a, np.inf)), a.shape)
                    hi_i = np.unravel_index(np.argmax(np.where(finm, a, -np.inf)), a.shape)
                    lv = (float(img[lo_i][0]), float(img[hi_i][0]))
                    ctx.dist["grid:limits-clause-checked"] += 1
                    if abs(lv[0]) > 1e-9 or abs(lv[1] - 1.0) > 1e-9:
                        ctx.pred_fail("grid-limits:" + sig, f"panel ({i}, {j}) under a min-max norm: the panel's own minimum / maximum are not drawn black / white",
                                      case, observed={"panel": [i, j], "array": k, "level_at_min": lv[0], "level_at_max": lv[1]}, required=[0.0, 1.0])
                        return
    except Exception as e:  # noqa
        ctx.pred_fail("raises:" + sig, f"show_2d raised {err_name(e)} on a grid of admissible arrays", case, observed=str(e)[:200], required="images")
    finally:
        for f in figs:
            plt.close(f)


def stream_grid(ctx, drv):
    for lay, nn, exp in GRID_CASES:
        one_grid(ctx, drv, {"stream": "grid", "layout": lay, "norm": nn, "expected": exp})


def stream_edge(ctx, drv):
    # fixed blocks: the same cases for every seed and tier
    for case in gen_edge_cases():
        one_edge(ctx, drv, case)
    for case in gen_edge_int_cases():
        one_norm(ctx, drv, case)
    for w in EDGE_BIG:
        one_edge_big(ctx, drv, {"stream": "edge-big", "which": w})

# ---------------------------------------------------------------------------------------

def run(ctx):
    from qv.driver import Driver
    import warnings
    warnings.simplefilter("ignore")
    drv = Driver("C20")
    try:
        stream_stretch(ctx, drv)
        stream_shist(ctx, drv)
        stream_norm(ctx, drv)
        stream_nhist(ctx, drv)
        stream_edge(ctx, drv)
        stream_alias(ctx, drv)
        stream_grid(ctx, drv)
        stream_resolve(ctx, drv)
        stream_show(ctx, drv)
    finally:
        drv.close()


def replay(ctx, rep):
    from qv.driver import Driver
    import warnings
    warnings.simplefilter("ignore")
    case = rep.get("case")
    if case is None:
        ds = rep.get("correspondence_disagreements") or rep.get("disagreements") or [{}]
        case = ds[0].get("case")
    if not case or case.get("stream") not in ("norm", "stretch", "resolve", "show", "forms", "shist", "nhist", "edge", "edge-big", "alias", "grid"):
        print("replay: no replayable case in file (tie-only report); re-running the quick streams")
        run(ctx)
        return True
    drv = Driver("C20")
    try:
        {"norm": one_norm, "stretch": one_stretch, "resolve": one_resolve, "show": one_show, "forms": one_forms,
         "shist": one_shist, "nhist": one_nhist, "edge": one_edge, "edge-big": one_edge_big, "alias": one_alias, "grid": one_grid}[case["stream"]](ctx, drv, case)
    finally:
        drv.close()
    return True
