"""C01 — serializer round-trip fidelity: correspondence with Model/Serialize.lean and the
round-trip / store-independence / fixed-point predicates on the real save()/load()."""
import json
import os
import pathlib
import shutil

from . import ser_common as sc
from . import c01_ext as cx
from . import c01_g6 as g6

LEVEL = "proof"
# theorems that tie the chain translated from the current source to the model: built and audited on their own
EXTRA_PROPS = ["QuantemModel.Props.C01Tie", "QuantemModel.Props.C01Ext"]
MANIFEST_ENTRY = {
    "category": "proof",
    "text": "Lean 4 theorem `roundtrip` (structural induction over the whole value universe, any depth/width/mix): decode(encode v) = canon v for every well-formed object graph of the executable model of serialize.py (ndarray fast path with NumPy promotion, empty/0-d arrays, path flags, container and object restoration loops), plus the fixed point of a second save/load (`roundtrip_fixed`) and attribute-name exactness (`attr_names_exact`). The type-dispatch chain of _serialize_value is translated mechanically from the current source on every run (harness/translator/serdispatch2lean.py -> Generated/SerializeDispatch.lean) and proved equal to the hand model for every CONSISTENT combination of the 30 isinstance/hasattr facts (`generated_dispatch_eq_model` in Props/C01Tie.lean; `Consistent` = the subclass / attribute relations that hold for every Python object, checked on every real object of the dispatch stream); every supported value kind reaches its own branch (`generated_dispatch_kind`), the chain is first-match (`dispatch_first_match`), the kinds for which the order decides are listed (`order_decides`), and what `encode` stores shows that branch (`encode_follows_dispatch`). The argument checks of save() are modelled check by check (`resolveSave_ok_iff`: accepted exactly for level None/0..9, store zip or dir with an extension-less path, target absent or mode 'o'; `resolveSave_level_independent`), and the round trip and the fixed point are proved over every HISTORY of save / load / print_file calls on shared targets, rejected and raising calls included (`roundtrip_history`, `fixed_point_history`, `raised_call_is_noop`, `hstep_frame`). ONE save() END TO END on one target (growth 6, Model/SerializeStoreExt.lean + Props/C01Ext.lean): argument checks + `encode` + `_install()` run on every KIND of directory entry at the target (nothing, file, empty / non-empty directory, symbolic link to a directory / a file / nothing; C08's entry-kind model of the helper) + load: an accepted call never fails inside `_install()`, leaves the staged entry (file for zip, directory for dir) holding the encoded graph, and loads back `canon` of the graph (`saveOnto_roundtrip`); the loaded graph is the same for ANY two accepted configurations and ANY two pre-states of the target (`saveOnto_config_independent`: zip/dir, every level, every path spelling, either mode); the coarse history model of round 5 is a sound abstraction of it (`saveOnto_refines_hstep`), and the round trip holds over every history of saves onto one target (`soRun_roundtrip`, `soRun_protected`). The model is tied to the code on every run by differential round trips of generated graphs through the real save()/load() (zip and dir stores, all compression levels, str/Path, keyword and positional calls), by call histories on shared targets (save, read, overwrite with another graph, rejected / raising saves, in-memory mutation of sources and of loaded objects), by the argument-check grid, by the facts and the branch of real objects of every kind, and the property's own equality is evaluated on the real results as the failing-input search.",
    "note": "Trusted: Lean kernel + standard axioms; hand model validated by sampled correspondence only; the dispatch translator (~200 lines, cross-checked by the dispatch stream on real objects); the table of facts per value kind (`featOf`) is measured on real objects on every run; torch.save/dill payloads are opaque tokens (fidelity observed via dtype/shape/values/requires_grad fingerprints), zarr/blosc/JSON/zipfile return what was written; in the history model a target holds what the last save that returned normally wrote (staging + install: C08's theorems), store / compression / path-type independence is PROVED at model level end to end (`saveOnto_config_independent`: neither `encode` nor `_install()` on any entry kind depends on them; `saveOnto` is compared with the real save()/load() on all 7 entry kinds x 2 stores x 2 modes on every run) and what zarr / blosc / zipfile do with the level is MEASURED (every graph on both stores, random level and path type, thorough tier all 11 levels); FIXED blocks (independent of the seed, harness/props/c01_g6.py): item-by-item containers with 11..257 items, long numeric sequences with values beyond 255 / 32767 / 2**24, arrays and tensors whose memory order differs from C order (a.T, asfortranarray, transpose(2,0,1), negative strides, broadcast views; H>W and H<W) as attributes and inside containers, arrays beyond one chunk / 64 KiB, same-named classes from two modules in one graph and in one process, dtype classes outside the random generator (datetime64, timedelta64, structured, bytes, float16 must round trip); sequence elements are positional children in the value model; the str(i)/int(k) key layer is modelled separately (Model/SeqKeys.lean), proved to be the identity on every list in every storage order (seqDecode_keyed_perm) and compared with the real container code directly. Recorded findings: numeric-seq-int-float-precision, dict-key-not-a-zarr-node-name, ndarray-non-native-byteorder, ndarray-dtype-not-storable (longdouble / clongdouble / object arrays), npscalar-not-json-representable (np.longdouble / np.datetime64 / np.timedelta64), nested-class-qualname.",
    "technique": "Lean 4 proof (structural induction on nested value/tree types; invariants over call histories) + source-to-Lean translation of the dispatch chain + model-vs-implementation correspondence",
}
RULE = ("type-directed random object graphs (every value kind reachable, depth<=4, width<=6, plus aliased members, exact duplicates, "
        "one-element sequences, integers beyond int64, index-/metadata-like dict keys, empty objects) saved with a random "
        "store/compression/path-type pair and reloaded; one evaluation = one save+load of one graph under one configuration, one public "
        "call of a history, one argument combination of save(), or one value of the dispatch / numeric-scalar streams; distinct "
        "non-trivial = distinct (sorted multiset of value kinds, max depth) with depth >= 2, distinct (stores, op kinds, length) of a "
        "history, distinct (target name, store, mode, outcome, pre-state) of an argument case, distinct (kind, branch) of the dispatch stream")
TRUSTED = ["torch.save / pickle / dill fidelity (observed through content fingerprints)", "zarr-python, blosc, JSON attribute encoding, zipfile",
           "harness/translator/serdispatch2lean.py (Python ast -> Lean if-chain; branch named by what its body writes)",
           "os.path.exists / splitext / rename semantics behind the history model (a target holds what the last normally returning save wrote)",
           "Model/SaveInstall.lean primitives (os.remove / shutil.rmtree / os.replace per entry kind): compared with the real filesystem by C08's fs-primitives stream and, composed, by the saveonto block"]
ASSUMPTIONS = ["dict/object entry order and set order are not compared (zarr lists arrays/groups in directory order)",
               "after a save that raised part-way the target is not read until it is saved again (its content is C08's clause)",
               "dtype classes outside the random generator are decided by fixed probes only (datetime64 / timedelta64 / structured / bytes / float16: must hold; longdouble / clongdouble / object arrays and NumPy scalars without a JSON form: recorded findings); they are not in the Lean value universe",
               "class identity is (module, qualname) for classes importable by one getattr (top-level classes); the model carries one class string"]
EXPLANATION = "see MANIFEST level text"


def pregenerate():
    """called by the runner before `lake build`: retranslate the dispatch chain of `_serialize_value` from
    $QVERIF_REPO/src (harness/translator/serdispatch2lean.py -> lean/QuantemModel/Generated/SerializeDispatch.lean).
    A source outside the translator's grammar is returned as a note (recorded as a broken tie; the previous file stays)."""
    from translator import serdispatch2lean
    try:
        serdispatch2lean.regenerate()
    except serdispatch2lean.TranslationError as e:
        return f"TranslationError: {e}"
    return None


def scratch():
    d = os.path.join(os.environ.get("QVERIF_SCRATCH", "/tmp"), "c01")
    os.makedirs(d, exist_ok=True)
    return d


def roundtrip_real(obj, cfg, tag):
    from quantem.core.io import serialize
    base = os.path.join(scratch(), f"t{tag}")
    shutil.rmtree(base, ignore_errors=True)
    os.makedirs(base)
    path = os.path.join(base, "obj.zip" if cfg["store"] == "zip" else "objdir")
    target = pathlib.Path(path) if cfg["pathlib"] else path
    if cfg.get("pre") is not None and cfg["mode"] == "o":
        # overwrite mode: an earlier, different object already lives at the target
        sc.Builder(None).build(cfg["pre"]).save(path, mode="w", store=cfg["store"])
    if cfg.get("form") == "pos":
        # positional call forms (parameter order of the pinned signatures, see SIGNATURES)
        obj.save(target, cfg["mode"], cfg["store"], (), cfg["level"])
        loaded = serialize.load(target, ())
    else:
        obj.save(target, mode=cfg["mode"], store=cfg["store"], compression_level=cfg["level"])
        loaded = serialize.load(target)
    return loaded, base


# parameter order of the public entry points the positional calls rely on (a reordering is an API
# change that keyword calls cannot see)
SIGNATURES = {
    "AutoSerialize.save": ["self", "path", "mode", "store", "skip", "compression_level"],
    "load": ["path", "skip"],
}


def signature_tie(ctx):
    import inspect
    from quantem.core.io import serialize
    got = {"AutoSerialize.save": list(inspect.signature(serialize.AutoSerialize.save).parameters),
           "load": list(inspect.signature(serialize.load).parameters)}
    ctx.count()
    if got != SIGNATURES:
        ctx.disagree("signatures", {"signatures": True}, SIGNATURES, got, note="parameter order of save()/load()")


def gen_cfg(rng, store):
    cfg = {"store": store, "level": rng.choice([None, 0, 1, 2, 3, 4, 5, 6, 7, 8, 9]), "pathlib": rng.chance(0.5),
           "mode": rng.choice(["w", "o"]), "form": rng.choice(["kw", "kw", "pos"])}
    if cfg["mode"] == "o" and rng.chance(0.6):
        # pre-existing target written from another object whose member names overlap the generator's
        g = sc.Gen(rng.fork(77), {})
        cfg["pre"] = ["obj", "SB", [[k, g.value(1)] for k in rng.sample(sc.NAMES, 5)]]
    return cfg


def classify(spec_sub):
    t = spec_sub[0] if isinstance(spec_sub, list) and spec_sub and isinstance(spec_sub[0], str) else "meta"
    if t == "nd":
        return "nd0d" if not spec_sub[2] else ("ndempty" if 0 in spec_sub[2] else "nd")
    return t


def find(spec, path):
    """sub-value of spec at a prop_equal path like $.a[2].b"""
    import re
    cur = spec
    for m in re.finditer(r"\.([^.\[\]]+)|\[(\d+)\]", path[1:]):
        try:
            if m.group(1) is not None:
                if m.group(1) in ("names", "len", "class"):
                    return cur
                ents = cur[1] if cur[0] == "dict" else cur[2]
                cur = dict((k, v) for k, v in ents)[m.group(1)]
            else:
                cur = cur[1][int(m.group(2))]
        except Exception:
            return cur
    return cur


def check_case(ctx, drv, recipe, cfgs, idx, streams=("corr", "pred")):
    import io, contextlib
    builder = cx.BuilderX(None)
    obj = builder.build(recipe)
    spec = sc.observe(obj)
    case = {"recipe": recipe, "cfgs": cfgs}
    obs = []
    sink = io.StringIO()
    for ci, cfg in enumerate(cfgs):
        ctx.count()
        try:
            with contextlib.redirect_stdout(sink):
                loaded, base = roundtrip_real(obj, cfg, f"{idx}_{ci}")
            o = sc.observe(loaded)
            # fixed point: save the loaded object again and reload
            try:
                with contextlib.redirect_stdout(sink):
                    loaded2, base2 = roundtrip_real(loaded, cfg, f"{idx}_{ci}b")
                o2 = sc.observe(loaded2)
                if sc.canon_order(o2) != sc.canon_order(o):
                    from qv.jdiff import first_diff
                    fd = first_diff(sc.canon_order(o), sc.canon_order(o2))
                    ctx.pred_fail("fixed-point", "saving the loaded object again and reloading is not a fixed point", case,
                                  observed=sc.short(fd), required="identical graph")
            except Exception as e:  # noqa
                ctx.pred_fail(f"fixed-point-raises:{type(e).__name__}", "re-saving the loaded object raised", case,
                              observed=str(e)[:200], required="fixed point")
            obs.append(("ok", o))
        except Exception as e:  # noqa
            obs.append(("err", type(e).__name__ + ":" + str(e)[:120]))
        finally:
            shutil.rmtree(os.path.join(scratch(), f"t{idx}_{ci}"), ignore_errors=True)
            shutil.rmtree(os.path.join(scratch(), f"t{idx}_{ci}b"), ignore_errors=True)
    # --- model
    m = drv.ask({"op": "roundtrip", "v": spec})
    if "driver" in str(m.get("err", "")):
        raise RuntimeError(m)
    kind0, o0 = obs[0]
    if "ok" in m:
        if kind0 != "ok" or sc.canon_order(m["ok"]) != sc.canon_order(o0):
            ctx.disagree("roundtrip", case, sc.canon_order(m["ok"]), sc.canon_order(o0) if kind0 == "ok" else {"err": o0},
                         note=f"cfg={cfgs[0]}")
    else:
        if kind0 == "ok" or not str(o0).startswith(m["err"]):
            ctx.disagree("roundtrip", case, m, sc.canon_order(o0) if kind0 == "ok" else {"err": o0}, note=f"cfg={cfgs[0]}")
    # --- property predicates on the implementation
    for (k, o), cfg in zip(obs, cfgs):
        if k != "ok":
            kinds = sorted(sc.val_kinds(spec))
            ctx.pred_fail("save-load-raises:" + o.split(":")[0] + ":" + _culprit(spec), "save/load of a supported object graph raised",
                          case, observed=o, required="round trip")
            continue
        d = sc.prop_equal(spec, o)
        if d:
            sub = find(spec, d[0])
            what = d[0].rsplit(".", 1)[-1] if d[0].endswith((".names", ".len", ".class")) else "value"
            key = f"roundtrip:{what}:{classify(sub)}"
            parent = find(spec, d[0].rsplit("[", 1)[0]) if d[0].endswith("]") else None
            if parent and parent[0] in ("list", "tuple", "set") and all(sc.numeric(e) for e in parent[1]) \
                    and any(e[-1][0] == "float" for e in parent[1]) \
                    and any(e[-1][0] == "int" and abs(int(e[-1][1])) > 2 ** 53 for e in parent[1]):
                key = "numeric-seq-int-float-precision"
            ctx.pred_fail(key, f"loaded graph differs from the saved one at {d[0]}", case,
                          observed=sc.short(d[2]), required=sc.short(d[1]))
    oks = [sc.canon_order(o) for k, o in obs if k == "ok"]
    if len(oks) == 2 and oks[0] != oks[1]:
        from qv.jdiff import first_diff
        ctx.pred_fail("store-dependent", "zip and dir stores / compression levels / path types give different results", case,
                      observed=sc.short(first_diff(oks[0], oks[1])), required="identical")
    depth = sc.val_depth(spec)
    if depth >= 2:
        ctx.mark((tuple(sorted(sc.val_kinds(spec).items())), depth))
    for kname, cnt in sc.val_kinds(spec).items():
        ctx.dist["kind:" + kname] += cnt
    ctx.dist[f"depth:{depth}"] += 1
    for cfg in cfgs:
        ctx.dist[f"cfg:{cfg['store']}:level={cfg['level']}"] += 1
        ctx.dist[f"mode:{cfg['mode']}:{'pre-existing' if cfg.get('pre') else 'fresh'}"] += 1
    ctx.sample({"recipe": recipe, "cfgs": cfgs}, limit=2)


def _culprit(spec):
    ks = sc.val_kinds(spec)
    for k in ("nprng", "trng", "fb", "set"):
        if k in ks:
            return k
    return "other"


def seqkeys_stream(ctx, drv):
    """ties Model/SeqKeys.lean (decimal keys, isdigit/int parse, length reconstruction, lookup loop —
    the layer `Model/Serialize.lean` abstracts to positional children and `seqDecode_keyed_perm`
    proves sound) to the real `_serialize_container` / `_deserialize_container`: the keys the real
    code writes for a sequence, and what it rebuilds from a group whose element keys are partly
    missing / accompanied by other keys"""
    import pathlib
    import numpy as np
    import zarr
    from quantem.core.io.serialize import AutoSerialize

    class _K(AutoSerialize):
        pass

    rng = ctx.rng.fork(777001)
    ns = [0, 1, 9, 10, 11, 19, 20, 99, 100, 101, 999, 1000, 12345] + [rng.randint(0, 10 ** 6) for _ in range(20)]
    r = drv.ask({"op": "dec", "ns": ns})
    ctx.count()
    if r.get("ok") != [str(n) for n in ns]:
        ctx.disagree("seqkeys-dec", {"seqkeys": "dec", "ns": ns}, r.get("ok"), [str(n) for n in ns], note="str(n)")

    def mk(i, kind):
        return {"str": f"s{i}", "arr": np.array([i, i]), "list": [i, "x"], "tuple": (i, "t"), "path": pathlib.Path(f"p{i}"),
                "dict": {"i": i, "k": "v"}}[kind]

    def index_of(v):
        if isinstance(v, str):
            return int(v[1:])
        if isinstance(v, pathlib.PurePath):
            return int(str(v)[1:])
        if isinstance(v, np.ndarray):
            return int(v[0])
        if isinstance(v, dict):
            return int(v["i"])
        return int(v[0])

    for j in range(ctx.n(80, 800)):
        n = rng.choice([0, 1, 2, 9, 10, 11, 12, 21, 101]) if rng.chance(0.5) else rng.randint(0, 30)
        kinds = [rng.choice(["str", "arr", "list", "tuple", "path", "dict"]) for _ in range(n)]
        value = [mk(i, k) for i, k in enumerate(kinds)]
        if rng.chance(0.3):
            value = tuple(value)
        g = zarr.group(store=zarr.storage.MemoryStore())
        _K()._serialize_container(value, g, set(), (), None)
        all_keys = lambda: list(g.attrs) + list(g.array_keys()) + list(g.group_keys())  # noqa: E731
        digit = sorted(k for k in all_keys() if k.isdigit())
        case = {"seqkeys": "group", "n": n, "kinds": kinds, "tuple": isinstance(value, tuple)}
        ctx.count()
        want = drv.ask({"op": "dec", "ns": list(range(n))}).get("ok")
        if digit != sorted(want):
            ctx.disagree("seqkeys-written", case, sorted(want), digit, note="element keys written by _serialize_container")
        # delete some element keys, add other keys
        removed = []
        mode = rng.choice(["intact", "intact", "one", "some", "tail"])
        if n and mode != "intact":
            if mode == "one":
                removed = [rng.below(n)]
            elif mode == "tail":
                removed = list(range(rng.below(n), n))
            else:
                removed = [i for i in range(n) if rng.chance(0.3)]
            for i in removed:
                k = str(i)
                if k in g.attrs:
                    del g.attrs[k]
                    if k + ".is_path" in g.attrs:
                        del g.attrs[k + ".is_path"]
                else:
                    del g[k]
        extras = []
        if rng.chance(0.4):
            for k in rng.sample(["note", "x1", "1x", "-1", "1.5", "007", "0012", " 3", "3 ", ""], rng.randint(1, 3)):
                if k == "":
                    continue
                g.attrs[k] = 49
                extras.append(k)
        case.update({"removed": removed, "extras": extras})
        keys = all_keys()
        m = drv.ask({"op": "seqdecode", "keys": keys}).get("ok")
        try:
            back = AutoSerialize._deserialize_container(g)
            impl = [(49 if (isinstance(v, int) and v == 49) else index_of(v)) for v in back]
            err = None
        except KeyError as e:
            impl, err = "KeyError", e
        except Exception as e:  # noqa
            impl, err = "raised:" + type(e).__name__, e
        ctx.count()
        mf = (m or {}).get("found")
        model_found = mf if isinstance(mf, str) else [int(k) for k in mf]
        if model_found != impl:
            ctx.disagree("seqkeys-decode", case, {"found": model_found, "len": (m or {}).get("len")}, impl,
                         note="items rebuilt by _deserialize_container vs Model/SeqKeys.seqDecode")
        if mode == "intact" and not extras and err is None:
            if type(back) is not type(value) or [index_of(v) for v in back] != list(range(n)):
                ctx.pred_fail("seq-roundtrip-intact", "a sequence written element by element is not rebuilt in order", case,
                              observed=[index_of(v) for v in back], required=list(range(n)))
        ctx.mark(("seqkeys", min(n, 12), mode, bool(extras)))
        ctx.dist[f"seqkeys:{mode}"] += 1


def _guard(ctx, name, fn):
    """run one stream; an exception that escapes from the REAL code (a frame under <repo>/src/quantem) is
    recorded as a broken tie of that stream and the remaining streams still run, so that a failing input can
    be exhibited; any other exception is a harness error and propagates"""
    import traceback
    try:
        fn()
    except Exception as e:  # noqa
        repo_src = os.path.join(os.path.realpath(os.environ.get("QVERIF_REPO", "/repo")), "src", "quantem")
        frames = traceback.extract_tb(e.__traceback__)
        real = [f for f in frames if os.path.realpath(f.filename).startswith(repo_src)]
        if not real:
            raise
        ctx.disagree("exception-in-real-code", {"stream": name, "raised_at": f"{os.path.basename(real[-1].filename)}:{real[-1].lineno} in {real[-1].name}"},
                     "no exception (the stream completes on the unchanged tree)", f"{type(e).__name__}: {str(e)[:200]}",
                     note=f"the implementation raised inside stream '{name}'")


def run(ctx):
    from qv.driver import Driver
    drv = Driver("C01")
    try:
        # corpus first
        cdir = os.path.join(os.path.dirname(os.path.dirname(os.path.dirname(os.path.abspath(__file__)))), "corpus", "C01")
        idx = 0
        if os.path.isdir(cdir):
            for f in sorted(os.listdir(cdir)):
                c = json.load(open(os.path.join(cdir, f)))
                check_case(ctx, drv, c["recipe"], c["cfgs"], f"c{idx}")
                idx += 1
        signature_tie(ctx)
        _guard(ctx, "seqkeys", lambda: seqkeys_stream(ctx, drv))
        _guard(ctx, "finding-probes", lambda: cx.finding_probes(ctx))
        _guard(ctx, "numeric-scalar", lambda: cx.numeric_stream(ctx, drv))
        _guard(ctx, "dispatch", lambda: cx.dispatch_stream(ctx, drv))
        _guard(ctx, "save-args", lambda: cx.resolve_stream(ctx, drv))
        _guard(ctx, "history", lambda: cx.history_stream(ctx, drv))
        _guard(ctx, "fixed-g6", lambda: g6.fixed_stream(ctx, drv))
        # fixed probe of a recorded finding (int/float promotion in the ndarray fast path)
        probe = ["obj", "SA", [["a", ["list", [["scalar", ["int", str(2 ** 62 + 1)]], ["scalar", sc.S(0.5)]]]]]]
        check_case(ctx, drv, probe, [gen_cfg(ctx.rng.fork(999), "zip")], "probe")
        n = ctx.n(120, 800)   # thorough: 800 graphs (80 of them under all 11 compression settings) — keeps the tier within 25 min with the history / argument / dispatch streams
        for i in range(n):
            rng = ctx.rng.fork(i)
            allow = {"rng_in_container": True, "fallback_in_container": True, "npcomplex": True}
            g = cx.GenX(rng, allow)
            recipe = g.root(rng.weighted([(1, 2), (2, 4), (3, 3), (4, 1)]))
            cfgs = [gen_cfg(rng, "zip"), gen_cfg(rng, "dir")]
            if ctx.thorough() and i % 10 == 0:
                # all 11 compression settings on a 10 % subsample
                for lvl in [None, 0, 1, 2, 3, 4, 5, 6, 7, 8, 9]:
                    c2 = [dict(cfgs[0], level=lvl), dict(cfgs[1], level=lvl)]
                    check_case(ctx, drv, recipe, c2, f"{i}_{lvl}")
            else:
                check_case(ctx, drv, recipe, cfgs, i)
    finally:
        drv.close()


def replay(ctx, rep):
    from qv.driver import Driver
    case = rep.get("case") or rep["correspondence_disagreements"][0]["case"]
    drv = Driver("C01")
    try:
        if case.get("seqkeys"):
            seqkeys_stream(ctx, drv)
            return True
        if case.get("g6"):
            g6.fixed_stream(ctx, drv)
            return True
        if case.get("history"):
            cx.run_history(ctx, drv, case, "replay")
            return True
        if case.get("save_args"):
            cx.resolve_case(ctx, drv, case, "replay")
            return True
        if case.get("dispatch") or case.get("dispatch_value"):
            cx.dispatch_stream(ctx, drv)
            return True
        if case.get("numeric_scalar"):
            cx.numeric_stream(ctx, drv)
            return True
        check_case(ctx, drv, case["recipe"], case["cfgs"], "replay")
    finally:
        drv.close()
    return True
