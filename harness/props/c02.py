"""C02 — the ptychography forward pipeline reproduces independently simulated data.

The independent reference implementation is `Spec.simulate` of lean/QuantemModel/Model/Forward.lean
(textbook centred conventions) EXECUTED AT FLOAT by the Lean driver.  Its data are fed to the real
`PtychographyDatasetRaster.preprocess` + `Ptychography.from_models/preprocess`; the ground truth is
installed and the real pipeline (dset.forward → probe_model.forward → obj_model.forward →
forward_operator → detector_model.forward → error_estimate) is evaluated for every loss type and several
batch sizes.  Correspondence: the library's intermediate observables vs the Lean model of the pipeline
(`Forward.forward`, `centredAmplitude`, `lossBatch`, geometry).  Predicate: loss(truth) = 0 to float32
precision (relative to the loss of a zero prediction) and strictly larger at perturbed objects / probes."""
from fractions import Fraction

import os
import numpy as np

from props import c02_problem as cp

LEVEL = "proof"
EXTRA_PROPS = ["QuantemModel.Props.C02Ext"]   # growth 6: chunked _set_patch_indices loop, sub-pixel offset sign, end-to-end compositions
MANIFEST_ENTRY = {
    "category": "proof",
    "text": "Lean 4 theorems over an executable model of the ptychography forward pipeline composed from the C16 operator model "
            "(scan positions, round-half-even patch indices in FFT order with periodic wrap, sub-pixel probe placement, exp(iV) "
            "transmission, multislice overlap, detector, preprocessing of measured intensities for no_shift/constant, the four "
            "losses with batch-fraction and mean-intensity scaling) and of an independent reference specification in centred "
            "conventions: forward = specification for every ROI size (even, odd, non-square), any number of slices (induction) and "
            "modes; fftfreq-ordered indices = natural-order window; fftshift/ifftshift/roll algebra; no_shift preprocessing is the "
            "identity on amplitudes for every size; intensity losses vanish at the truth, amplitude losses reduce to the "
            "sqrt(I+eps)-sqrt(I) residual; losses are non-negative and vanish only where masked predictions equal the targets; "
            "pure-phase objects give mean pattern intensity = total probe intensity; padded object shapes are multiples of 8; the "
            "pipeline equals the specification only for scan positions inside the object box (counterexample theorem + known finding). "
            "State carried between public calls is modelled as three state machines over histories that contain REFUSED (raising) calls "
            "(Model/ForwardState.lean): slice-thickness setter (None / scalar / sequence, both entry points) -> propagator cache, pattern "
            "stacks -> targets (_set_targets, preprocess, stack setters), scan-position setter -> clip -> cached patch indices. Proved for "
            "all histories: a refused call changes nothing; the thickness list stays one positive entry per gap; the last ACCEPTED "
            "assignment wins and refused ones leave no trace; the next rebuild yields the specification's Fresnel kernels of those "
            "thicknesses; the per-slice setter accepts exactly the admissible lists; targets after re-preprocessing + reconstruct are the "
            "stack of the LAST preprocessing the loss type selects; the index cache is never stale after dset.forward; nearest pixel + "
            "sub-pixel shift decompose every position (|shift| <= 1/2) and exact ties go to the even neighbour. "
            "Growth 6 (Props/C02Ext.lean, Model/ForwardExt2.lean): the CHUNKED loop of _set_patch_indices (chunk = min(1000, n), range(0, n, chunk), "
            "slices, torch.cat) is modelled as written and proved equal to the position-by-position indices for EVERY chunk size and scan length "
            "(chunks tile the list; count ceil(n/c), lengths min(c, n - kc); only the empty scan raises); the sub-pixel offset is p - floor(p) >= 0 "
            "below the half pixel and p - floor(p) - 1 < 0 above it; end-to-end compositions: any thickness history -> rebuilt propagators -> "
            "forward = data simulated with the last accepted thicknesses -> intensity losses of the no_shift-preprocessed data = 0; any position "
            "history -> cached indices + offsets of the next dset.forward -> patterns = specification at the clipped positions; stored chunked "
            "indices -> pipeline = specification. "
            "Every run executes the specification at Float in the Lean driver to simulate 4D-STEM data, feeds them to the real "
            "preprocess/from_models pipeline, compares every intermediate observable with the model and evaluates the property "
            "predicate (loss zero at the truth, strictly larger at perturbations) on the real code for all loss types / batch sizes, "
            "also after histories of reconstruct() calls, through alternative entry points, after histories containing refused calls "
            "(against an untouched twin), after re-preprocessing one dataset object, and at exact tie / integer scan positions; the three "
            "state machines are compared with the real objects call by call (exact); public signatures / defaults are pinned. Fixed blocks "
            "(independent of the seed) run every time: sibling configurations in ONE process differing only in beam energy / sampling / slice "
            "thicknesses (also permuted) / ROI orientation with 3 slices and 2 modes, the base again at the end; scan rotations in every quadrant "
            "and beyond 180 deg with and without exchanged axes; a scan of 1073 = 37 x 29 positions (more than the internal chunk of 1000, not a "
            "multiple) on a 6 x 5 ROI with batches of 1073 / 1000 / 1001 (thorough tier: also 1023 transposed and 2021).",
    "note": "Partial by nature (DESIGN §7): the theorems are convention algebra over the reals; float32/complex64 accuracy of the "
            "library, strict increase under perturbation and stationarity are measured, not proved. The `constant` clause is decided "
            "only where the fitted constant recovers the true centre (point-symmetric problems; odd ROI exact, even ROI limited by "
            "intensity on the Nyquist row/column) — other cases are counted as not applicable and reported. Object / probe hard "
            "constraints (global phase, Gram-Schmidt) belong to C10: the model takes the constrained arrays the library reports. "
            "Scan rotation / transposition: positions modelled and compared, predicate evaluated; the rotated object shape is read back. "
            "The state-machine theorems are about the model: that the real setters validate BEFORE they store (so that a refused call changes "
            "nothing) is tied by the call-by-call correspondence and by the twin predicate, not proved of the Python code. NaN thicknesses "
            "pass the library's `<= 0` check (modelled as such, not generated); numpy scalars as thickness raise TypeError (not generated).",
    "technique": "Lean 4 proof (list permutation algebra of fftshift/ifftshift/roll, induction on slices, reuse of the C16 spectral "
                 "lemmas) + model-vs-implementation correspondence with the specification executed as the reference simulator",
}
RULE = ("a case is one generated ptychography configuration pushed through simulate → real preprocess → real forward pipeline → "
        "all loss types × batch sizes × (truth + 5 perturbations) + two histories of 2-4 reconstruct() calls on the same object + two alternative-entry-point "
        "set-ups + one history with refused calls + one re-preprocessing history (each against an untouched twin) + three state-machine histories "
        "(thickness setter, targets, scan positions) compared call by call with the Lean model; plus the seed-independent fixed blocks (siblings, quadrants, "
        "large scan: light cases without histories); evaluations count every real loss evaluation and every compared "
        "observable; distinct non-trivial = distinct (row parity, col parity, square?, obj type, #slices, #modes, com fit, padded?, "
        "dyadic step?) signature with at least 9 scan positions")
TRUSTED = ["torch.fft / numpy.fft compute the defining DFT sums; torch advanced indexing, round-half-even of torch.round/np.round (modelled, sampled)",
           "the library runs in float32/complex64: intensities/amplitudes are compared with the float64 model by the 5e-4 rule after "
           "normalisation by the mean pixel intensity; 'zero to numerical precision' is decided as |loss(truth) - eps residual|/loss(zero prediction) "
           "<= 1e-9 (l2 losses: quadratic in the float32 error, measured ~1e-13) / 2e-5 (l1 losses: linear in the float32 error and in the 1e-9 inside sqrt, measured ~7e-7); the eps residual is the exact value sum mask*(sqrt(I+1e-9)-sqrt(I)) [squared for l2] the amplitude losses take at perfect agreement (theorem amplitude_loss_residual; measured up to ~7e-6 of the scale for l1, 1e-10 for l2), computed from the reference data in float64"]
ASSUMPTIONS = [
    "the reference implementation is Spec.simulate (Model/Forward.lean) executed at Float by the Lean driver; the equality "
    "forward = Spec over the reals is the theorem forward_eq_spec, so a disagreement between the real pipeline and the data can "
    "only come from the implementation (or from float accuracy, measured)",
    "ObjectPixelated has no public setter: the ground truth object is written to the optimised parameter `_obj.data`; the probe goes "
    "through the public `probe` setter; ground-truth modes are orthogonal with distinct powers installed in descending, ascending, mixed "
    "or nearly equal order, so the library's Gram-Schmidt + power-sort hard constraint may only re-order them (checked each case)",
    "scan rotation / transposition are set through the public preprocess arguments force_com_rotation / force_com_transpose (0 / False in 60 % "
    "of the configurations, +-90 deg, oblique angles and exchanged axes otherwise; never estimated from the data); the rotated positions are "
    "modelled numerically (scanPositionsGeneral), the rotated object SHAPE (floor of trigonometric values) is read back, not modelled; "
    "descan learning off",
    "`constant`: decided only for cases whose fitted constant is within 2e-5 px of the pattern centre (generator: point-symmetric "
    "object, symmetric probe, symmetric raster); others are counted in input_distribution as constant.not-applicable",
    "geometry is read back from the library (padding is enlarged to make the object shape a multiple of 8) and compared with the model",
    "the property predicate is exactly: every loss type x batch size has loss(truth)/loss(zero prediction) <= tolerance per batch, and the "
    "epoch loss at 5 perturbations (3 object, 2 probe) is strictly larger than at the truth; index / centring / normalisation / "
    "batch-fraction mechanics are correspondence streams (a change there without a failing loss ends as no-failing-input-found)",
    "known finding scan-exceeds-object-box:clip_scan_positions: configurations whose initial raster leaves [0, obj_shape-1] (used padding < 2) "
    "are generated with low weight, their predicate failures are routed to that one key; theorem forward_eq_spec carries the matching "
    "hypothesis InBox and scan_exceeds_object_box_counterexample shows it is not automatic",
    "histories: on the one Ptychography object at the ground truth two histories of 2-4 real reconstruct(num_iters=1) calls are run "
    "(loss types from all four, at least one amplitude<->intensity switch without reset, random reset=True, batch size, autograd on/off, "
    "optimizer_params given or not); optimiser steps are no-ops and reset_recon is followed by re-installing the truth (instance-level "
    "wrappers); at every call: loss at the truth zero against the dataset's correct centred targets, prediction = simulated data, every "
    "batch loss equal to a fresh object's (own dataset) for the same batch order",
    "entry points: per configuration the problem is set up twice more through the alternative public entry points (dataset preprocessing "
    "delegated to ptycho.preprocess with com_fit_function / force_com_rotation / force_com_transpose / obj_padding_px / vectorized / plot_* "
    "passed there; looped COM; object via ObjectPixelated.from_array; single-mode probe via ProbePixelated.from_array only; slice thicknesses "
    "via the ptycho.slice_thicknesses attribute; reconstruct options batch_size / optimizer_params / constraints via attributes) — com_fit, "
    "rotation/transpose, padding/shape, positions, mean intensity, centred targets, descan shifts, propagators, predictions must equal the "
    "primary route (exactly, 1e-5 where the looped COM feeds a `constant` fit) and the loss at the truth must be zero there too; "
    "padded_diffraction_intensities_shape is not exercised (Dataset.pad keyword defect noted in DESIGN §8 #23, outside the quantifier)",
    "refused calls: per configuration one Ptychography object (own dataset) at the ground truth receives 2-3 rounds of 1-3 public calls with an "
    "invalid argument drawn from a menu of 30 (slice thicknesses through ptycho / obj_model in list / tuple / ndarray / tensor / scalar / None "
    "form with non-positive entries, 0.0, -0.0, wrong length, empty; probe, scan positions, detector mask, descan shifts, centred stacks of a "
    "wrong shape; non-positive mean intensity / batch size; out-of-range val_ratio; unknown constraints / object type / loss type / device / fit "
    "function; malformed padding), each followed by a valid call that rebuilds derived state (none / reset_recon / preprocess / to / "
    "compute_propagator_arrays) and a real reconstruct(); a call that is NOT refused on the tree under test ends the history (nothing to "
    "compare); predicate: every batch loss equals the untouched twin's and is zero at the truth",
    "re-preprocessing: one raw dataset object is preprocessed with OTHER settings first (fit function, bilinear, rotation, transposition, "
    "padding, looped COM), optionally a preprocess that raises, then with the configuration's settings; Ptychography.preprocess is likewise "
    "run with another padding first in 60 % of the cases; then real reconstruct() calls for the four loss types (amplitude first in half of "
    "the cases); predicate as above against a dataset preprocessed once",
    "tie positions: every 8th configuration scans with a step of exactly 0.5 / 1.5 / 2.5 object pixels (>= 4 rows, plain raster, used padding "
    ">= 2) so that exact x.5 positions with even AND odd integer part occur (checked per case); the reference rounds ties to even like the "
    "library (a convention the two share; a band-limited probe does not make the two neighbouring windows equivalent)",
    "state machines: thickness histories run on the geometry object (dummy data), target histories on the re-preprocessed dataset "
    "(stacks identified by content), position histories through the public scan_positions_px setter with exact k/8 values; "
    "`_set_targets` is reached through the public reconstruct(num_iters=0, loss_type=...)",
    "fixed blocks (fixed_blocks(), BLOCK_SEED, independent of VERIF_SEED): light cases = geometry / index (exact, ALL positions) / preprocessing / "
    "forward correspondences + loss at the truth for 4 loss types x batch sizes + 1 object and 1 probe perturbation, no histories; for scans with "
    "more than 200 positions the Lean forward / preprocessing models run on a fixed subset of ~20 positions (first, last, 998..1002, row ends), "
    "Spec.simulate and the exact index model on all of them; a sibling's replay runs the base configuration first in the same process",
    "torch runs single-threaded inside run() (tiny tensors; results are compared by the tolerance rule)",
    "strict increase is measured at random perturbations only (not a theorem: it depends on the perturbation not being a symmetry); "
    "stationarity / autograd gradients are not evaluated",
]
EXPLANATION = ("Theorems in Props/C02.lean are about Model/Forward.lean at the real-number instance; each run simulates data with the "
               "specification (Lean, Float), runs the real preprocessing and forward pipeline on them and compares positions, patch "
               "indices (exact), shifted probes, patches, predicted intensities, centred amplitudes and losses with the model, and "
               "evaluates loss(truth)=0 < loss(perturbed) on the real code.")

TOL32 = 5e-4
TOL_L2 = 1e-9
TOL_L1 = 2e-5
CONSTANT_APPLICABLE = 2e-5   # px


# ----------------------------------------------------------------------------- encoding
def f2b(x):
    from qv.driver import f2b as _f
    return _f(x)


def b2f(x):
    from qv.driver import b2f as _b
    return _b(x)


def enc_rows(x):
    return [[f2b(v) for v in row] for row in np.asarray(x, dtype=np.float64).tolist()]


def dec_rows(j):
    return np.array([[b2f(v) for v in r] for r in j], dtype=np.float64).reshape(len(j), -1)


def enc_img(x):
    x = np.asarray(x, dtype=np.complex128)
    return {"re": enc_rows(x.real), "im": enc_rows(x.imag)}


def dec_img(j):
    return dec_rows(j["re"]) + 1j * dec_rows(j["im"])


def enc_flat(x):
    x = np.asarray(x, dtype=np.complex128).reshape(-1)
    return {"re": [f2b(v) for v in x.real.tolist()], "im": [f2b(v) for v in x.imag.tolist()]}


_ASK_SECONDS = {}


def ask(drv, obj):
    import time
    t0 = time.time()
    r = drv.ask(obj)
    _ASK_SECONDS[obj.get("op")] = _ASK_SECONDS.get(obj.get("op"), 0.0) + time.time() - t0
    if "ok" not in r:
        raise DriverError(f"driver error {r} on op {obj.get('op')}")
    return r["ok"]


def maxabs(a):
    a = np.asarray(a)
    return float(np.max(np.abs(a))) if a.size else 0.0


def corr(ctx, stream, case, model, impl, tol, note="", scale=None):
    model, impl = np.asarray(model), np.asarray(impl)
    ctx.count()
    if model.shape != impl.shape:
        ctx.disagree(stream, case, {"shape": list(model.shape)}, {"shape": list(impl.shape)}, note + " shape")
        return False
    d = maxabs(impl - model)
    s = max(1.0, maxabs(model)) if scale is None else scale
    ctx.stat_max(f"corr_reldist[{stream}]", d / s)
    if not (d <= tol * s):
        k = int(np.argmax(np.abs(impl - model)))
        ctx.disagree(stream, case, {"max": maxabs(model), "at": k, "value": str(model.reshape(-1)[k])},
                     {"max": maxabs(impl), "at": k, "value": str(impl.reshape(-1)[k])}, f"{note} |impl-model|={d:.3g} > {tol:g}*{s:.3g}")
        return False
    return True


# ----------------------------------------------------------------------------- generator
def psig(r0, r1):
    return ("o" if r0 % 2 else "e") + ("o" if r1 % 2 else "e") + ("=" if r0 == r1 else "#")


def gen_cfg(rseed, index=0):
    """configuration from one seed; `index` stratifies object type / slices / modes / fit so that a short run
    already covers every value"""
    from qv.prng import Rng
    rng = Rng(rseed)
    i = index
    com = "constant" if i % 4 == 3 else "no_shift"
    kind = rng.weighted([("even=", 2), ("even#", 3), ("odd", 3), ("mixed", 2)])
    if com == "constant":
        kind = rng.weighted([("odd", 3), ("even#", 1), ("mixed", 1)])
    ev = [6, 8, 10, 12]
    od = [7, 9, 11]
    if kind == "even=":
        r0 = r1 = rng.choice(ev)
    elif kind == "even#":
        r0 = rng.choice(ev)
        r1 = rng.choice([v for v in ev if v != r0])
    elif kind == "odd":
        r0, r1 = rng.choice(od), rng.choice(od)
    else:
        r0, r1 = rng.choice(ev), rng.choice(od)
        if rng.chance(0.5):
            r0, r1 = r1, r0
    scan = [rng.randint(3, 5), rng.randint(3, 4)]
    samp = list(rng.choice([(1.0, 1.0), (0.5, 0.5), (0.5, 0.25), (0.25, 0.25), (2.0, 1.0)]))
    dyadic = not rng.chance(0.25)
    if com == "constant":
        # symmetric raster with an integer doubled centre: integer steps in pixels
        step_px = [float(rng.randint(1, 3)), float(rng.randint(1, 3))]
        dyadic = True
    elif dyadic:
        step_px = [rng.randint(8, 24) / 8.0, rng.randint(8, 24) / 8.0]
    else:
        step_px = [rng.choice([1.3, 1.7, 2.1, 2.6]), rng.choice([1.1, 1.9, 2.3])]
    # exact TIE positions (x.5 object pixels, even and odd integer part; round-half-even vs half-up / truncation): every 8th
    # configuration scans with a step of exactly 0.5 / 1.5 / 2.5 object pixels on the row axis (>= 4 rows, so ties with both
    # parities of the integer part occur whatever the padding) and, in half of them, on the column axis too
    ties = com != "constant" and i % 8 == 2
    if ties:
        samp = list(rng.choice([(1.0, 1.0), (0.5, 0.5), (0.5, 0.25), (2.0, 1.0)]))
        step_px = [rng.choice([0.5, 1.5, 2.5]), rng.choice([0.5, 1.5, 2.5]) if rng.chance(0.5) else rng.randint(8, 24) / 8.0]
        scan = [rng.randint(4, 5), rng.randint(3, 4)]
        dyadic = True
    step = [float(np.float32(step_px[0] * samp[0])), float(np.float32(step_px[1] * samp[1]))]
    S = 1 + (i % 4)
    K = 1 + ((i // 2) % 3)
    obj_type = ("complex", "pure_phase", "potential")[i % 3]
    if rng.chance(0.3):     # decorrelate from the stratification now and then
        S, K = rng.randint(1, 4), rng.randint(1, 3)
        obj_type = rng.choice(["complex", "pure_phase", "potential"])
    pad = list(rng.weighted([((0, 0), 2), ((2, 3), 3), ((4, 4), 3), ((8, 5), 2), ((1, 6), 1), ((3, 2), 2)]))
    cfg = {
        "roi": [r0, r1], "scan": scan, "samp": samp, "step": step, "step_px": step_px, "dyadic": dyadic,
        "slices": S, "dz": [rng.randint(8, 160) / 8.0 for _ in range(S - 1)], "modes": K, "obj_type": obj_type,
        "pad": pad, "com": com, "energy": rng.choice([80e3, 200e3, 300e3]),
        "counts": rng.choice([1000.0, 4096.0, 50000.0]),
        "aperture": rng.choice([0.26, 0.31, 0.36, 0.41]), "soft_aperture": rng.chance(0.3),
        "aberrations": [rng.randint(-160, 160) / 8.0, rng.randint(0, 64) / 8.0, rng.randint(0, 24) / 8.0, rng.randint(-80, 80) / 8.0],
        "obj_kind": "smooth" if (com == "constant" and (r0 % 2 == 0 or r1 % 2 == 0)) else rng.choice(["rough", "rough", "smooth"]),
        "truth_seed": rng.next(),
    }
    # scan geometry beyond the plain raster: rotation of the scan axes / exchanged fast and slow axis (public preprocess arguments)
    cfg["rotation_deg"] = 0 if com == "constant" else rng.weighted([(0, 6), (90, 1), (-90, 1), (rng.randint(-80, 80), 3)])
    cfg["transpose"] = False if com == "constant" else (rng.chance(0.1) or i % 8 in (1, 5))
    if i % 8 == 5:
        cfg["rotation_deg"] = 0        # exchanged axes without rotation: its own code path (float32 positions are flipped in place)
    if (cfg["transpose"] or cfg["rotation_deg"] != 0) and rng.chance(0.8):
        # the object box is not transposed / only floor-rotated with the scan: small paddings leave the box (known finding);
        # keep most of these configurations inside it so that they exercise the predicate
        cfg["pad"] = list(rng.choice([(6, 6), (8, 5), (8, 8)]))
    if ties:
        # plain raster (positions exact), used padding >= 2 (inside the object box: the predicate decides, not the known finding)
        cfg["rotation_deg"], cfg["transpose"] = 0, False
        cfg["pad"] = list(rng.choice([(2, 3), (4, 4), (3, 2), (8, 5), (5, 4)]))
    cfg["ties"] = ties
    # order in which the mode powers are installed through the probe setter (no order in the quantifier)
    cfg["mode_order"] = rng.weighted([("descending", 1), ("ascending", 2), ("mixed", 2), ("near-equal", 1)]) if K > 1 else "single"
    return cfg


def cfg_sig(cfg, padded):
    r0, r1 = cfg["roi"]
    return ("pipeline", psig(r0, r1), cfg["obj_type"], cfg["slices"], cfg["modes"], cfg["com"], padded, cfg["dyadic"],
            cfg["rotation_deg"] != 0, cfg["transpose"])


# ----------------------------------------------------------------------------- one configuration
def loss_scale(p, lt, bi, mask):
    """loss of a zero prediction on this batch (float64): the natural scale of the loss"""
    t = p.dset.targets[bi].double().numpy() * mask
    e = np.sum(np.abs(t)) if "l1" in lt else np.sum(np.abs(t) ** 2)
    return float(e / (len(bi) / p.dset.num_gpts) / p.dset.mean_diffraction_intensity)


def true_scale(pd, lt, bi, mask):
    """loss of a zero prediction against the CORRECT preprocessed targets of this loss type (taken from the dataset's
    centred amplitudes / intensities, not from whatever `dset.targets` currently holds)"""
    src = pd.centered_amplitudes if "amplitude" in lt else pd.centered_intensities
    t = src[bi].double().numpy() * mask
    e = np.sum(np.abs(t)) if "l1" in lt else np.sum(np.abs(t) ** 2)
    return float(e / (len(bi) / pd.num_gpts) / pd.mean_diffraction_intensity)


def gen_history(rng, n):
    """2-4 reconstruct() calls: loss types from all four, resets, batch sizes and other per-call options vary; at least one
    change of the loss family (amplitude <-> intensity) happens WITHOUT a reset in between"""
    L = rng.randint(2, 4)
    lts = [rng.choice(list(cp.LOSS_TYPES)) for _ in range(L)]
    resets = [rng.chance(0.3) for _ in range(L)]          # reset flag of each call (the first call: fresh object either way)
    fam = lambda lt: "amplitude" in lt
    if not any(fam(lts[k]) != fam(lts[k - 1]) and not resets[k] for k in range(1, L)):
        k = rng.randint(1, L - 1)
        other = [lt for lt in cp.LOSS_TYPES if fam(lt) != fam(lts[k - 1])]
        lts[k] = rng.choice(other)
        resets[k] = False
    calls = []
    for k in range(L):
        calls.append({"loss_type": lts[k], "reset": bool(resets[k]), "batch_size": rng.choice([n, 1, rng.randint(2, max(2, n - 1)), rng.choice([2, 3, 4, 5])]),
                      "autograd": not rng.chance(0.2), "pass_optimizer": True if k == 0 else rng.chance(0.6)})
    return calls


def history_stream(ctx, case, cfg, p, pd, data, truth, twin, mask, mean_I, pix, applicable, clipped, key, rng):
    """histories of real reconstruct() calls on ONE Ptychography object initialised at the ground truth.  At every call:
    loss at the truth zero to precision (against the correct targets of that call's loss type), predicted intensities = the
    simulated data, and every batch loss equal to that of a fresh object evaluated with the same options / batch order."""
    n = pd.num_gpts
    r0, r1 = cfg["roi"]
    p_f = twin     # fresh twin: its own dataset (the targets live in the dataset) and its own Ptychography, truth installed
    for h in range(2):
        calls = gen_history(rng, n)
        if h == 1:
            cp.install_truth(p, cfg, *truth)
        hist = [{k: c[k] for k in ("loss_type", "reset", "batch_size", "autograd")} for c in calls]
        ctx.dist[f"history.length={len(calls)}"] += 1
        for k, c in enumerate(calls):
            lt = c["loss_type"]
            prev = calls[k - 1]["loss_type"] if k else None
            switch = k > 0 and ("amplitude" in prev) != ("amplitude" in lt)
            ctx.dist[f"history.call:{'first' if k == 0 else ('family-switch' if switch else 'same-family')},reset={c['reset']}"] += 1
            ctx.dist[f"history.autograd={c['autograd']}"] += 1
            recs = cp.reconstruct_call(p, cfg, truth, lt, c["batch_size"], c["reset"], c["autograd"], c["pass_optimizer"])
            hcase = {**case, "history": hist, "call": k}
            tol = TOL_L1 if "l1" in lt else TOL_L2
            order = [i for r in recs for i in r["indices"]]
            ctx.count()
            if sorted(order) != list(range(n)):
                ctx.disagree("history-batches", hcase, list(range(n)), sorted(order), "one epoch must visit every pattern exactly once")
                continue
            fresh = cp.run_pipeline(p_f, lt, c["batch_size"], order=order)
            worst, worst_f, worst_pred = 0.0, 0.0, 0.0
            for r, f in zip(recs, fresh):
                bi = r["indices"]
                sc = true_scale(pd, lt, bi, mask)
                res = amplitude_residual(lt, data[bi], mask, len(bi), n, mean_I)
                worst = max(worst, abs(r["loss"] - res) / sc if sc > 0 else float("inf"))
                worst_f = max(worst_f, abs(r["loss"] - f["loss"]) / sc if sc > 0 else float("inf"))
                worst_pred = max(worst_pred, maxabs(r["pred"] - data[bi]) / pix / max(1.0, maxabs(data[bi]) / pix))
                ctx.count(3)
            ctx.stat_max("history.loss_vs_fresh_object_rel", worst_f)
            if not (worst_f <= 2 * TOL_L1):
                ctx.pred_fail("history-differs-from-fresh-object" if not clipped else key("history"),
                              f"{lt} loss of call {k} of a reconstruct() history differs from a fresh object given the same options", hcase,
                              observed=f"|loss(history) - loss(fresh)|/scale={worst_f:.4g}", required=f"<= {2 * TOL_L1:g}")
            if applicable and not clipped:
                ctx.stat_max(f"history.loss_at_truth_rel[{lt}]", worst)
                ctx.stat_max("history.prediction_vs_reference", worst_pred)
                if not (worst <= tol):
                    ctx.pred_fail(key("history-loss-at-truth"), f"{lt} loss at the ground truth is not zero at call {k} of a reconstruct() history", hcase,
                                  observed=f"|loss - eps residual|/scale={worst:.4g}", required=f"<= {tol:g}")
                if not (worst_pred <= TOL32):
                    ctx.pred_fail(key("history-prediction"), f"predicted intensities differ from the simulated data at call {k} of a reconstruct() history", hcase,
                                  observed=f"max|pred - data|/scale={worst_pred:.4g}", required=f"<= {TOL32:g}")
    cp.install_truth(p, cfg, *truth)


def entry_point_stream(ctx, case, cfg, p, pd, data, truth, mask, mean_I, pix, applicable, clipped, key, rng, full_pred):
    """the same problem through the alternative public entry points of every step (dataset preprocessing delegated to
    ptycho.preprocess with every forwarded argument, looped COM, object via from_array, probe via constructor only, slice
    thicknesses via attribute, reconstruct options via attributes): observables, predictions and the loss at the truth must
    agree with the primary route, and the loss at the truth must be zero there too."""
    phi, probe_lib = truth
    n = pd.num_gpts
    r0, r1 = cfg["roi"]
    gr, gc = cfg["scan"]
    K, S = cfg["modes"], cfg["slices"]
    routes = [{"delegated": True, "vectorized": True, "obj_from_array": rng.chance(0.5), "probe_setter": True, "dz_attribute": rng.chance(0.5)},
              {"delegated": rng.chance(0.7), "vectorized": rng.chance(0.5), "obj_from_array": rng.chance(0.5),
               "probe_setter": not (K == 1 and rng.chance(0.7)), "dz_attribute": rng.chance(0.5)}]
    for route in routes:
        sig = ",".join(f"{k}={int(bool(v))}" for k, v in sorted(route.items()) if k != "dz_attribute" or S > 1)
        ctx.dist[f"entry.{sig}"] += 1
        rcase = {**case, "route": route}
        q = cp.make_ptycho_alternative(cfg, data.reshape(gr, gc, r0, r1), probe_lib, phi, route)
        qd = q.dset
        ctx.count()

        def differ(name, a, b, tol):
            a, b = np.asarray(a, dtype=np.float64), np.asarray(b, dtype=np.float64)
            d = float("inf") if a.shape != b.shape else (maxabs(a - b) / max(1.0, maxabs(a)) if a.size else 0.0)
            ctx.stat_max(f"entry.differs[{name}]", d)
            ctx.count()
            if not (d <= tol):
                ctx.pred_fail(f"entry-points-differ:{name}:delegated={route['delegated']}", f"{name} depends on the entry point the problem is set up through", rcase,
                              observed=f"relative difference {d:.4g} (route {sig})", required=f"<= {tol:g}")
        tolp = 0.0 if route["vectorized"] or cfg["com"] == "no_shift" else 1e-5
        differ("com_fit", qd.com_fit, pd.com_fit, tolp)
        differ("rotation/transpose", [qd.com_rotation_rad, float(qd.com_transpose)], [pd.com_rotation_rad, float(pd.com_transpose)], 0.0)
        differ("obj_padding/shape", list(q.obj_padding_px) + list(q.obj_shape_full), list(p.obj_padding_px) + list(p.obj_shape_full), 0.0)
        differ("scan_positions", qd.initial_scan_positions_px.numpy(), pd.initial_scan_positions_px.numpy(), 0.0)
        differ("mean_intensity", [qd.mean_diffraction_intensity], [pd.mean_diffraction_intensity], 0.0)
        differ("centred_amplitudes", qd.centered_amplitudes.numpy() / np.sqrt(pix), pd.centered_amplitudes.numpy() / np.sqrt(pix), tolp)
        differ("centred_intensities", qd.centered_intensities.numpy() / pix, pd.centered_intensities.numpy() / pix, tolp)
        differ("descan_shifts", qd.descan_shifts.detach().numpy(), pd.descan_shifts.detach().numpy(), max(tolp, 0.0))
        if S > 1:
            differ("propagators", np.abs(q.propagators.numpy() - p.propagators.numpy()), np.zeros(tuple(p.propagators.shape)), 0.0)
        if not route["probe_setter"]:
            differ("probe(constructor only)", q.probe_model.probe.detach().numpy() / np.sqrt(mean_I), p.probe_model.probe.detach().numpy() / np.sqrt(mean_I), 1e-5)
        full = cp.run_pipeline(q, "l2_amplitude", n)[0]
        differ("predicted_intensities", full["pred"] / pix, full_pred / pix, 1e-5 if not route["probe_setter"] else 1e-6)
        b = rng.choice([n, 1, rng.randint(2, max(2, n - 1))])
        for lt in cp.LOSS_TYPES:
            tol = TOL_L1 if "l1" in lt else TOL_L2
            recs = cp.reconstruct_via_attributes(q, lt, b) if lt == rng.choice(list(cp.LOSS_TYPES)) or lt == "l2_intensity" else cp.run_pipeline(q, lt, b)
            worst = 0.0
            for r in recs:
                bi = r["indices"]
                sc = true_scale(pd, lt, bi, mask)
                res = amplitude_residual(lt, data[bi], mask, len(bi), n, mean_I)
                worst = max(worst, abs(r["loss"] - res) / sc if sc > 0 else float("inf"))
                ctx.count()
            if applicable and not clipped:
                ctx.stat_max(f"entry.loss_at_truth_rel[{lt}]", worst)
                if not (worst <= (tol if route["probe_setter"] else max(tol, 1e-8))):
                    ctx.pred_fail(key("entry-loss-at-truth") if clipped else f"entry-loss-at-truth:delegated={route['delegated']}:{cfg['com']}",
                                  f"{lt} loss at the ground truth is not zero when the problem is set up through the alternative entry points", {**rcase, "loss_type": lt, "batch_size": b},
                                  observed=f"|loss - eps residual|/scale={worst:.4g} (route {sig})", required=f"<= {tol:g}")


def twin_compare(ctx, stream, hcase, recs, twin, pd, data, mask, mean_I, pix, lt, bsize, applicable, clipped, key, what):
    """one real reconstruct() call on a history object against the UNTOUCHED twin (own dataset, same options / batch order):
    every batch loss equal to the twin's, loss at the truth zero, prediction = simulated data.  Returns False when the
    epoch did not visit every pattern once."""
    n = pd.num_gpts
    tol = TOL_L1 if "l1" in lt else TOL_L2
    order = [i for r in recs for i in r["indices"]]
    ctx.count()
    if sorted(order) != list(range(n)):
        ctx.disagree(f"{stream}-batches", hcase, list(range(n)), sorted(order), "one epoch must visit every pattern exactly once")
        return False
    fresh = cp.run_pipeline(twin, lt, bsize, order=order)
    worst, worst_f, worst_pred = 0.0, 0.0, 0.0
    for r, f in zip(recs, fresh):
        bi = r["indices"]
        sc = true_scale(pd, lt, bi, mask)
        res = amplitude_residual(lt, data[bi], mask, len(bi), n, mean_I)
        worst = max(worst, abs(r["loss"] - res) / sc if sc > 0 else float("inf"))
        worst_f = max(worst_f, abs(r["loss"] - f["loss"]) / sc if sc > 0 else float("inf"))
        worst_pred = max(worst_pred, maxabs(r["pred"] - data[bi]) / pix / max(1.0, maxabs(data[bi]) / pix))
        ctx.count(3)
    ctx.stat_max(f"{stream}.loss_vs_untouched_twin_rel", worst_f)
    if not (worst_f <= 2 * TOL_L1):
        ctx.pred_fail(f"{stream}-differs-from-untouched-twin" if not clipped else key(stream),
                      f"{lt} loss after {what} differs from an untouched object given the same options", hcase,
                      observed=f"|loss(history) - loss(twin)|/scale={worst_f:.4g}", required=f"<= {2 * TOL_L1:g}")
    if applicable and not clipped:
        ctx.stat_max(f"{stream}.loss_at_truth_rel[{lt}]", worst)
        ctx.stat_max(f"{stream}.prediction_vs_reference", worst_pred)
        if not (worst <= tol):
            ctx.pred_fail(key(f"{stream}-loss-at-truth"), f"{lt} loss at the ground truth is not zero after {what}", hcase,
                          observed=f"|loss - eps residual|/scale={worst:.4g}", required=f"<= {tol:g}")
        if not (worst_pred <= TOL32):
            ctx.pred_fail(key(f"{stream}-prediction"), f"predicted intensities differ from the simulated data after {what}", hcase,
                          observed=f"max|pred - data|/scale={worst_pred:.4g}", required=f"<= {TOL32:g}")
    return True


def rejected_call_stream(ctx, case, cfg, pd, data, truth, twin, mask, mean_I, pix, applicable, clipped, key, rng):
    """EXCEPTION SAFETY: on one Ptychography object (own dataset) at the ground truth, public calls with an invalid argument
    (which the library rejects by raising) are interleaved with valid calls that rebuild derived state (reset_recon, preprocess,
    to, compute_propagator_arrays) and with real reconstruct() calls.  A rejected call must change nothing: every reconstruct()
    call of the history must give the loss of an untouched twin, zero at the truth."""
    n = pd.num_gpts
    r0, r1 = cfg["roi"]
    S = cfg["slices"]
    pd_q = cp.make_dataset(cfg, data.reshape(cfg["scan"][0], cfg["scan"][1], r0, r1))
    q = cp.make_ptycho(cfg, pd_q, truth[1])
    cp.install_truth(q, cfg, *truth)
    menu = cp.rejected_menu(cfg, rng)
    dz_items = [m for m in menu if m["name"].startswith("dz:")]
    rounds = rng.randint(2, 3)
    hist = []
    for k in range(rounds):
        # 1-3 rejected calls.  Deterministic part (coverage must not depend on the seed): every history of a multislice model starts
        # with a refused thickness assignment in the form that reaches the per-slice branch (>= 3 slices: correct length, one
        # non-positive entry) or the scalar branch (2 slices), and its second round with the other form / any thickness item
        per_slice = [m for m in dz_items if m["name"] == "dz:per-slice-nonpositive"]
        scalar = [m for m in dz_items if m["name"] == "dz:scalar-nonpositive"]
        if k == 0 and S >= 2:
            rej = [rng.choice(per_slice if S >= 3 else scalar)]
        elif k == 1 and S >= 2:
            rej = [rng.choice(scalar if S >= 3 else dz_items)]
        else:
            rej = []
        rej += [rng.choice(menu) for _ in range(rng.randint(0 if rej else 1, 2))]
        rej = rng.shuffle(rej)
        aborted = False
        for item in rej:
            got = cp.apply_call(q, cfg, item)
            ctx.count()
            ctx.dist[f"rejected.{item['name']}:{'raised' if got else 'ACCEPTED'}"] += 1
            hist.append({"rejected": item, "raised": got})
            if got is None:
                aborted = True     # the call was accepted on this tree: no longer a rejected call, nothing to compare with the twin
                break
        if aborted:
            ctx.dist["rejected.history-abandoned(call accepted)"] += 1
            return
        rebuild = rng.weighted([("none", 3), ("reset_recon", 2), ("preprocess", 2), ("to_cpu", 1), ("compute_propagator_arrays", 1)])
        lt = rng.choice(list(cp.LOSS_TYPES))
        bsize = rng.choice([n, 1, rng.randint(2, max(2, n - 1))])
        call = {"rebuild": rebuild, "loss_type": lt, "batch_size": bsize}
        hist.append(call)
        ctx.dist[f"rejected.then:{rebuild}"] += 1
        hcase = {**case, "rejected_history": [dict(h) for h in hist]}
        names = ", ".join(h["rejected"]["name"] for h in hist if "rejected" in h)
        autograd, pass_opt = rng.chance(0.8), k == 0 or rng.chance(0.5)
        try:
            cp.valid_rebuild(q, cfg, truth, rebuild)
            recs = cp.reconstruct_call(q, cfg, truth, lt, bsize, False, autograd, pass_opt)
        except Exception as e:   # noqa: BLE001
            import traceback
            frames = [f for f in traceback.extract_tb(e.__traceback__) if "/quantem/" in f.filename.replace("\\", "/")]
            if not frames or str(e).startswith("harness:"):
                raise
            ctx.dist["rejected.valid-call-raises"] += 1
            ctx.pred_fail("rejected-call-history-raises", f"a VALID call ({rebuild} + reconstruct()) raises after refused calls ({names}) — the pipeline cannot be evaluated "
                          "although every accepted call was valid", hcase,
                          observed=f"{type(e).__name__}: {str(e)[:140]} (at {frames[-1].filename.split('/quantem/')[-1]}:{frames[-1].lineno} {frames[-1].name})",
                          required="refused calls change nothing: the valid call succeeds as on an untouched object")
            return
        twin_compare(ctx, "rejected-call-history", hcase, recs, twin, pd, data, mask, mean_I, pix, lt, bsize, applicable, clipped, key,
                     f"rejected calls ({names}) followed by {rebuild} + reconstruct()")


def repreprocess_stream(ctx, case, cfg, pd, data, truth, twin, mask, mean_I, pix, applicable, clipped, key, rng):
    """RE-PREPROCESSING HISTORIES on ONE dataset object: preprocess(settings A) -> [a rejected preprocess] -> preprocess(the
    configuration's settings) -> Ptychography.from_models / preprocess(padding A') -> preprocess(the configuration's padding) ->
    real reconstruct() calls for the loss types in a random order (amplitude first in half of the cases).  Everything must be what
    a dataset preprocessed ONCE with the configuration's settings gives (the untouched twin)."""
    n = pd.num_gpts
    r0, r1 = cfg["roi"]
    gr, gc = cfg["scan"]
    fits = [f for f in ("plane", "constant", "none", "no_shift") if f != cfg["com"]]
    A = {"com_fit_function": rng.choice(fits), "bilinear": rng.chance(0.3), "vectorized": rng.chance(0.7),
         "force_com_rotation": rng.choice([cfg.get("rotation_deg", 0), 0, 90, 17]), "force_com_transpose": rng.chance(0.3),
         "obj_padding_px": tuple(rng.choice([(0, 0), (4, 4), (2, 6)]))}
    padA = list(rng.choice([(0, 0), (4, 4), (5, 2), (8, 8)]))
    rejected_between = rng.chance(0.4)
    ptycho_repre = rng.chance(0.6)
    plan = {"first": {k: (list(v) if isinstance(v, tuple) else v) for k, v in A.items()}, "rejected_between": rejected_between,
            "ptycho_first_padding": padA if ptycho_repre else None}
    ctx.dist[f"repreprocess.first_fit={A['com_fit_function']},bilinear={A['bilinear']}"] += 1
    ctx.dist[f"repreprocess.rejected_between={rejected_between},ptycho_level={ptycho_repre}"] += 1
    d = cp.make_raw_dataset(cfg, data.reshape(gr, gc, r0, r1))
    cp.dataset_preprocess(d, cfg, **A)
    if rejected_between:
        try:
            cp.dataset_preprocess(d, cfg, com_fit_function="bogus")
            ctx.dist["repreprocess.bogus-fit-accepted"] += 1
        except Exception:   # noqa: BLE001
            pass
    cp.dataset_preprocess(d, cfg)
    import warnings
    with warnings.catch_warnings():
        warnings.simplefilter("ignore")
        if ptycho_repre:
            cfgA = {**cfg, "pad": padA}
            q = cp.make_ptycho(cfgA, d, truth[1])
            q.preprocess(obj_padding_px=tuple(cfg["pad"]), plot_rotation=False, plot_com=False)
        else:
            q = cp.make_ptycho(cfg, d, truth[1])
    cp.install_truth(q, cfg, *truth)
    lts = rng.shuffle(list(cp.LOSS_TYPES))
    if rng.chance(0.5):
        lts.sort(key=lambda t: "amplitude" not in t)     # amplitude losses first: the targets preprocess() itself installed are used
    for k, lt in enumerate(lts):
        bsize = rng.choice([n, 1, rng.randint(2, max(2, n - 1))])
        recs = cp.reconstruct_call(q, cfg, truth, lt, bsize, False, rng.chance(0.8), k == 0 or rng.chance(0.5))
        hcase = {**case, "repreprocess": plan, "loss_order": lts, "call": k}
        twin_compare(ctx, "repreprocess-history", hcase, recs, twin, pd, data, mask, mean_I, pix, lt, bsize, applicable, clipped, key,
                     f"preprocess({A['com_fit_function']}, ...) -> preprocess({cfg['com']}, ...) on one dataset object")
    if rng.chance(0.6):
        # configure, run, RE-configure, run again: the dataset is re-preprocessed AFTER reconstruct() calls were made on the object
        # (other settings, then the configuration's), Ptychography.preprocess re-derives positions / indices / object for the padding
        # in use, and reconstruct() is called again — first with the loss type of the last call (no change of the loss family)
        A2 = {"com_fit_function": rng.choice(fits), "bilinear": rng.chance(0.3)}
        ctx.dist["repreprocess.after-reconstruct"] += 1
        cp.dataset_preprocess(d, cfg, **A2)
        cp.dataset_preprocess(d, cfg)
        with warnings.catch_warnings():
            warnings.simplefilter("ignore")
            q.preprocess(obj_padding_px=tuple(cfg["pad"]), plot_rotation=False, plot_com=False)
        cp.install_truth(q, cfg, *truth)
        for k, lt in enumerate([lts[-1], rng.choice(list(cp.LOSS_TYPES))]):
            bsize = rng.choice([n, rng.randint(2, max(2, n - 1))])
            recs = cp.reconstruct_call(q, cfg, truth, lt, bsize, False, rng.chance(0.8), rng.chance(0.5))
            hcase = {**case, "repreprocess": plan, "loss_order": lts, "again": {"first": A2, "call": k, "loss_type": lt}}
            twin_compare(ctx, "repreprocess-history", hcase, recs, twin, pd, data, mask, mean_I, pix, lt, bsize, applicable, clipped, key,
                         f"reconstruct() calls -> preprocess({A2['com_fit_function']}, ...) -> preprocess({cfg['com']}, ...) on the same dataset object")
    return d, q


def amplitude_residual(lt, I, mask, b, n, mean_I):
    """value of an amplitude loss when prediction and data agree exactly: sum mask*(sqrt(I+1e-9)-sqrt(I)) (l1) or its
    square (l2), with the batch-fraction and mean-intensity scaling; 0 for intensity losses (float64)"""
    if "amplitude" not in lt:
        return 0.0
    I = np.maximum(np.asarray(I, dtype=np.float64), 0.0)
    d = (np.sqrt(I + 1e-9) - np.sqrt(I)) * mask
    e = np.sum(np.abs(d)) if "l1" in lt else np.sum(d ** 2)
    return float(e / (b / n) / mean_I)


# ----------------------------------------------------------------------------- state machines (Model/ForwardState.lean)
def _exc_name(f):
    import warnings
    try:
        with warnings.catch_warnings():
            warnings.simplefilter("ignore")
            f()
        return None
    except Exception as e:   # noqa: BLE001
        return type(e).__name__


def thickness_history_stream(ctx, drv, case, cfg, p0, samp_lib, rng):
    """slice-thickness setter + propagator cache as a state machine: a history of assignments through both entry points
    (ptycho.slice_thicknesses / obj_model.slice_thicknesses) in every input form (None, scalar float / int, list, tuple,
    ndarray, tensor; valid, non-positive entries incl. 0.0 / -0.0, wrong lengths, empty) and of valid calls that rebuild the
    propagators; after EVERY call: raised?, the stored thicknesses (exact) and the propagators (5e-4) vs the Lean model."""
    import torch
    S = cfg["slices"]
    r0, r1 = cfg["roi"]
    d8 = lambda: rng.randint(4, 160) / 8.0
    bad = lambda: rng.choice([0.0, -0.0, -d8(), 0, -3])
    ops, real = [], []
    for _ in range(rng.randint(5, 8)):
        kind = rng.weighted([("ptycho", 5), ("obj", 3), ("rebuild", 3)])
        if kind == "rebuild":
            how = rng.choice(["compute_propagator_arrays", "reset_recon", "preprocess", "reconstruct0"])
            ops.append({"kind": "rebuild"})
            real.append(("rebuild", how, None))
            continue
        what = rng.weighted([("valid-seq", 3), ("valid-scalar", 2), ("nonpositive-seq", 3), ("nonpositive-scalar", 2), ("wrong-length", 2),
                             ("len1-seq", 1), ("none", 1), ("empty", 1)])
        if what == "valid-seq":
            v, form = [d8() for _ in range(max(S - 1, 0))], "seq"
        elif what == "valid-scalar":
            v, form = rng.choice([d8(), rng.randint(1, 20)]), "scalar"
        elif what == "nonpositive-seq":
            v, form = [d8() for _ in range(max(S - 1, 2))], "seq"
            v[rng.below(len(v))] = float(bad())
        elif what == "nonpositive-scalar":
            v, form = bad(), "scalar"
        elif what == "wrong-length":
            v, form = [d8() for _ in range(rng.choice([max(S - 2, 2) if S != 4 else 2, S, S + 1, S + 2]))], "seq"
            if len(v) == S - 1:
                v.append(d8())
        elif what == "len1-seq":
            v, form = [rng.choice([d8(), float(bad())])], "seq"
        elif what == "none":
            v, form = None, "none"
        else:
            v, form = [], "seq"
        container = rng.choice(["list", "tuple", "ndarray", "tensor"]) if form == "seq" else "python"
        if form == "seq" and len(v) == 0:
            container = rng.choice(["list", "tuple"])
        ctx.dist[f"thickness.{what}[{container}]"] += 1
        ops.append({"kind": kind, "form": form, **({"value": ([f2b(float(x)) for x in v] if form == "seq" else f2b(float(v)))} if form != "none" else {})})
        real.append((kind, cp._as_form(v, container) if form == "seq" else v, what))
    start = [float(x) for x in np.asarray(p0.slice_thicknesses, dtype=np.float64).reshape(-1)]
    trace = ask(drv, {"op": "thick_history", "num_slices": S, "R0": r0, "R1": r1, "dr": f2b(samp_lib[0]), "dc": f2b(samp_lib[1]),
                      "energy": f2b(cfg["energy"]), "thick": [f2b(x) for x in start], "ops": ops})
    shown = []
    for k, ((kind, val, what), m) in enumerate(zip(real, trace)):
        if kind == "rebuild":
            how = val
            got = _exc_name({"compute_propagator_arrays": p0.compute_propagator_arrays, "reset_recon": p0.reset_recon,
                             "preprocess": lambda: p0.preprocess(obj_padding_px=tuple(cfg["pad"]), plot_rotation=False, plot_com=False),
                             "reconstruct0": lambda: p0.reconstruct(num_iters=0, constraints={})}[how])
            shown.append(f"rebuild:{how}")
        else:
            tgt = p0 if kind == "ptycho" else p0.obj_model
            got = _exc_name(lambda: setattr(tgt, "slice_thicknesses", val))
            shown.append(f"{kind}:{what}")
        hcase = {**case, "thickness_history": shown[:], "call": k}
        ctx.count(3)
        want = "ValueError" if m["raised"] else None
        if got != want:
            ctx.disagree("thickness-setter-raises", hcase, want, got, f"call {k} ({shown[-1]}): accepted / refused")
        lib_t = np.asarray(p0.slice_thicknesses, dtype=np.float64).reshape(-1)
        mod_t = np.array([b2f(x) for x in m["thick"]], dtype=np.float64)
        if lib_t.shape != mod_t.shape or not np.array_equal(lib_t, mod_t):
            ctx.disagree("thickness-setter-state", hcase, mod_t.tolist(), lib_t.tolist(), f"slice thicknesses held after call {k} ({shown[-1]})")
        lib_p = p0.propagators.detach().numpy().astype(np.complex128)
        mod_p = np.array([dec_img(x) for x in m["props"]]).reshape((-1, r0, r1)) if m["props"] else np.zeros((0,))
        if lib_p.size == 0 and mod_p.size == 0:
            continue
        corr(ctx, "propagators-after-history", hcase, mod_p, lib_p.reshape(mod_p.shape) if lib_p.size == mod_p.size else lib_p, TOL32,
             note=f"propagators after call {k} ({shown[-1]})")
    # leave the object as the configuration says
    if S > 1:
        p0.slice_thicknesses = list(cfg["dz"])


def targets_history_stream(ctx, drv, case, cfg, d, q, rng):
    """which pattern stack the targets hold, as a state machine: a history of preprocess(settings) / a preprocess that raises /
    reconstruct(num_iters=0, loss_type=...) (= `_set_targets`, incl. 'poisson' and unknown strings) / stack assignments (accepted
    and refused) on ONE dataset; after every call the stack `dset.targets` equals (by content) vs the Lean model (exact)."""
    reg = {}

    def ident(t):
        a = np.ascontiguousarray(t.detach().numpy() if hasattr(t, "detach") else np.asarray(t))
        return reg.setdefault((a.shape, a.tobytes()), len(reg))

    def stacks():
        return {"centered_amplitudes": ident(d.centered_amplitudes), "amplitudes": ident(d.amplitudes),
                "centered_intensities": ident(d.centered_intensities), "intensities": ident(d.intensities)}
    n = d.num_gpts
    r0, r1 = cfg["roi"]
    st0, t0 = stacks(), ident(d.targets)
    fit0 = bool(d.learn_descan and d.has_optimizer())
    ops, obs, shown = [], [], []
    bump = 0
    for _ in range(rng.randint(5, 8)):
        kind = rng.weighted([("preprocess", 3), ("preprocess_rejected", 2), ("set_targets", 5), ("assign_stack", 3)])
        if kind == "preprocess":
            fit = rng.choice(["plane", "constant", "none", "no_shift"])
            bil = rng.chance(0.3)
            got = _exc_name(lambda: cp.dataset_preprocess(d, cfg, com_fit_function=fit, bilinear=bil))
            ops.append({"kind": "preprocess", "stacks": stacks()})
            shown.append(f"preprocess({fit},bilinear={bil})")
        elif kind == "preprocess_rejected":
            got = _exc_name(lambda: cp.dataset_preprocess(d, cfg, com_fit_function=rng.choice(["bogus", "Plane"])))
            ops.append({"kind": "preprocess_rejected"})
            shown.append("preprocess(unknown fit)")
        elif kind == "set_targets":
            lt = rng.weighted([("l2_amplitude", 2), ("l1_amplitude", 2), ("l2_intensity", 2), ("l1_intensity", 2), ("poisson", 1),
                               ("l2_bogus", 1), ("", 1), ("l3_amplitude", 1), ("Poisson", 1)])
            got = _exc_name(lambda: q.reconstruct(num_iters=0, loss_type=lt, constraints={}))
            fit_now = bool(d.learn_descan and d.has_optimizer())
            if fit_now != fit0:
                ops.append({"kind": "set_fit_descan", "value": fit_now})
                obs.append((None, ident(d.targets)))      # placeholder for the extra model step (never raises)
                shown.append("fit-descan-flag")
                fit0 = fit_now
            ops.append({"kind": "set_targets", "loss_type": lt})
            shown.append(f"reconstruct(0,{lt!r})")
        else:
            name = rng.choice(["centered_amplitudes", "amplitudes", "centered_intensities", "intensities"])
            ok = rng.chance(0.5)
            bump += 1
            arr = (getattr(d, name).detach().numpy() + np.float32(bump)) if ok else np.ones((n + 1, r0, r1), np.float32)
            got = _exc_name(lambda: setattr(d, name, arr))
            ops.append({"kind": "assign_stack", "name": name, "id": ident(getattr(d, name)) if ok else 0, "ok": ok})
            shown.append(f"{name}={'array' if ok else 'wrong shape'}")
        obs.append((got, ident(d.targets)))
        ctx.dist[f"targets.{kind}"] += 1
    trace = ask(drv, {"op": "targets_history", "stacks": st0, "targets": t0, "fit_descan": fit0 if not any(o["kind"] == "set_fit_descan" for o in ops) else bool(False), "ops": ops})
    names = {}
    for k, ((got, tid), m) in enumerate(zip(obs, trace)):
        hcase = {**case, "targets_history": shown[:k + 1]}
        ctx.count(2)
        if got is not None or ops[k]["kind"] != "set_fit_descan":
            want = "ValueError" if m["raised"] else None
            if got != want:
                ctx.disagree("targets-call-raises", hcase, want, got, f"call {k} ({shown[k]}): accepted / refused")
        if tid != m["targets"]:
            ctx.disagree("targets-source", hcase, f"stack id {m['targets']}", f"stack id {tid}",
                         f"which pattern stack dset.targets holds after call {k} ({shown[k]}) (ids by content, in order of first appearance)")


def index_history_stream(ctx, drv, case, cfg, p0, H, W, rng):
    """scan-position setter + cached patch indices as a state machine: positions installed through the public
    `dset.scan_positions_px` setter (exact k/8 values: ties x.5 of both parities, integers, generic, outside the object box,
    negative; wrong shapes are refused) interleaved with `dset.forward`; after every forward pass the patch indices, the clipped
    positions and the fractional parts vs the Lean model (exact)."""
    ds = p0.dset
    n = ds.num_gpts
    r0, r1 = cfg["roi"]
    pad = p0.obj_padding_px
    start = ds.scan_positions_px.detach().numpy().astype(np.float64)
    cur = start.copy()
    ops, real, shown = [], [], []
    for _ in range(rng.randint(4, 7)):
        kind = rng.weighted([("assign", 4), ("assign_bad_shape", 2), ("forward", 4)])
        if kind == "assign":
            new = cur.copy()
            mode = rng.weighted([("scatter", 3), ("within-floor-cell", 3), ("within-round-cell", 2)])
            ctx.dist[f"positions.history.assign:{mode}"] += 1
            if mode != "scatter":
                # SMALL moves of every position: inside its integer cell [k, k+1) (the rounded pixel may change, floor does not) or
                # inside its rounding cell (the rounded pixel stays: the cached indices must be served) — what decides whether
                # `patch_indices_need_update` fires is the whole tensor, so every coordinate has to stay in its cell
                base = np.floor(cur) if mode == "within-floor-cell" else np.round(cur)
                offs = [0.0, 0.125, 0.375, 0.5, 0.625, 0.875] if mode == "within-floor-cell" else [-0.375, -0.125, 0.0, 0.25, 0.375]
                for i in range(n):
                    for a in (0, 1):
                        new[i, a] = base[i, a] + rng.choice(offs)
            for i in range(n if mode == "scatter" else 0):
                for a, size in ((0, H), (1, W)):
                    c = rng.weighted([("keep", 4), ("tie", 3), ("int", 2), ("eighth", 3), ("outside", 1), ("negative", 1)])
                    if c == "tie":
                        new[i, a] = rng.randint(0, size - 2) + 0.5
                    elif c == "int":
                        new[i, a] = float(rng.randint(0, size - 1))
                    elif c == "eighth":
                        new[i, a] = rng.randint(0, 8 * (size - 1)) / 8.0
                    elif c == "outside":
                        new[i, a] = size - 1 + rng.randint(1, 20) / 8.0
                    elif c == "negative":
                        new[i, a] = -rng.randint(1, 20) / 8.0
            arr = new.astype(np.float32)
            assert np.array_equal(arr.astype(np.float64), new)
            ops.append({"kind": "assign", "positions": [[cp.frac_str(a), cp.frac_str(b)] for a, b in new.tolist()]})
            real.append(("assign", rng.choice(["ndarray", "tensor"]), arr))
            cur = new
            shown.append("assign")
        elif kind == "assign_bad_shape":
            shape = rng.choice([(n + 1, 2), (n, 3), (n,), (max(n - 1, 1), 2)])
            ops.append({"kind": "assign_bad_shape", "rows": shape[0]})
            real.append(("assign", "ndarray", np.full(shape, 2.5, np.float32)))
            shown.append(f"assign(shape {tuple(shape)})")
        else:
            ops.append({"kind": "forward"})
            real.append(("forward", None, None))
            cur = np.stack([np.clip(cur[:, 0], 0, H - 1), np.clip(cur[:, 1], 0, W - 1)], axis=1)
            shown.append("forward")
        ctx.dist[f"positions.history.{kind}"] += 1
    if ops[-1]["kind"] != "forward":
        ops.append({"kind": "forward"})
        real.append(("forward", None, None))
        shown.append("forward")
        cur = np.stack([np.clip(cur[:, 0], 0, H - 1), np.clip(cur[:, 1], 0, W - 1)], axis=1)
    # growth 6, fixed per configuration index (not seed luck): after a forward pass has filled the cache, ONE assignment whose change a
    # too-wide / too-cheap refresh guard overlooks, then a forward pass: `permute` = the same positions in reversed order (same set, same
    # sums), `single-last` = only the last position moves by whole pixels, `balanced` = one coordinate +1 px and another -1 px (sums kept)
    forced = ("permute", "single-last", "balanced")[int(case.get("index", 0)) % 3]
    new = cur.copy()
    if forced == "permute":
        new = cur[::-1].copy()
        if np.array_equal(np.round(new), np.round(cur)):
            forced = "single-last"
    if forced == "single-last":
        new = cur.copy()
        new[n - 1, 0] = cur[n - 1, 0] - 2.0 if cur[n - 1, 0] >= 2.0 else cur[n - 1, 0] + 2.0
    elif forced == "balanced":
        i, j = 0, n - 1
        new[i, 0] = cur[i, 0] + 1.0 if cur[i, 0] + 1.0 <= H - 1 else cur[i, 0] - 1.0
        d = new[i, 0] - cur[i, 0]
        new[j, 1] = cur[j, 1] - d if 0 <= cur[j, 1] - d <= W - 1 else cur[j, 1]
    if np.array_equal(new.astype(np.float32).astype(np.float64), new) and not np.array_equal(new, cur):
        ctx.dist[f"positions.history.forced:{forced}"] += 1
        ops.append({"kind": "assign", "positions": [[cp.frac_str(a), cp.frac_str(b)] for a, b in new.tolist()]})
        real.append(("assign", "ndarray", new.astype(np.float32)))
        shown.append(f"assign[{forced}]")
        ops.append({"kind": "forward"})
        real.append(("forward", None, None))
        shown.append("forward")
    trace = ask(drv, {"op": "index_history", "positions": [[cp.frac_str(a), cp.frac_str(b)] for a, b in start.tolist()],
                      "H": H, "W": W, "R0": r0, "R1": r1, "ops": ops})
    import torch
    for k, ((kind, form, arr), m) in enumerate(zip(real, trace)):
        hcase = {**case, "position_history": shown[:k + 1]}
        ctx.count()
        if kind == "assign":
            got = _exc_name(lambda: setattr(ds, "scan_positions_px", torch.tensor(arr) if form == "tensor" else arr))
            want = "ValueError" if m["raised"] else None
            if got != want:
                ctx.disagree("scan-positions-setter-raises", hcase, want, got, f"call {k} ({shown[k]}): accepted / refused")
            continue
        with torch.no_grad():
            idx, pos, frac, _descan = ds.forward(np.arange(n), pad)
        ctx.count(3)
        midx = np.array(m["idx"], dtype=np.int64)
        lidx = idx.numpy().astype(np.int64)
        if midx.shape != lidx.shape or not np.array_equal(midx, lidx):
            bad = int(np.argmax((midx != lidx).reshape(n, -1).any(axis=1))) if midx.shape == lidx.shape else -1
            ctx.disagree("patch-indices-after-history", hcase, {"position": bad, "idx": midx[bad].tolist() if bad >= 0 else list(midx.shape)},
                         {"position": bad, "idx": lidx[bad].tolist() if bad >= 0 else list(lidx.shape)},
                         f"patch indices returned by dset.forward at call {k} (cache of _last_patch_positions_px)")
        mpos = np.array([[float(Fraction(a)), float(Fraction(b))] for a, b in m["pos"]])
        mfrac = np.array([[float(Fraction(a)), float(Fraction(b))] for a, b in m["frac"]])
        if not np.array_equal(mpos, pos.detach().numpy().astype(np.float64)):
            ctx.disagree("positions-after-history", hcase, mpos.tolist(), pos.detach().numpy().tolist(), f"clipped positions at call {k}")
        if not np.array_equal(mfrac, frac.detach().numpy().astype(np.float64)):
            ctx.disagree("fractional-positions-after-history", hcase, mfrac.tolist(), frac.detach().numpy().tolist(), f"pos - round(pos) at call {k}")
    ds.scan_positions_px = start.astype(np.float32)


class DriverError(RuntimeError):
    pass


def pipeline_case(ctx, drv, case, light=False):
    """one configuration; an exception raised inside the real quantem code is a predicate failure (the pipeline cannot even be
    evaluated for that input), anything else is re-raised as a harness / infrastructure error"""
    import traceback
    try:
        return _pipeline_case(ctx, drv, case, light)
    except DriverError:
        raise
    except Exception as e:   # noqa: BLE001
        tb = traceback.extract_tb(e.__traceback__)
        frames = [f for f in tb if "/quantem/" in f.filename.replace("\\", "/")]
        if not frames:
            raise
        where = frames[-1]
        key = (f"pipeline-raises:{type(e).__name__}:{where.name}:rotation={'0' if case.get('rotation_deg', 0) == 0 else 'nonzero'}"
               f":transpose={case.get('transpose', False)}")
        ctx.dist["real-code-exception"] += 1
        ctx.pred_fail(key, "the real preprocessing / forward pipeline raises on a configuration inside the quantifier", case,
                      observed=f"{type(e).__name__}: {str(e)[:160]} (at {where.filename.split('/quantem/')[-1]}:{where.lineno} {where.name})",
                      required="pipeline evaluates, loss at the truth = 0")
        return False


def _pipeline_case(ctx, drv, case, light=False):
    from qv.prng import Rng
    cfg = gen_cfg(case["rseed"], case.get("index", 0))
    light = light or bool(case.get("light"))
    if case.get("override"):
        cfg = apply_override(cfg, case["override"])
    r0, r1 = cfg["roi"]
    gr, gc = cfg["scan"]
    n = gr * gc
    if case.get("block"):
        ctx.dist[f"fixed-block={case['block']}"] += 1
    S, K = cfg["slices"], cfg["modes"]
    rng = Rng(cfg["truth_seed"])
    symmetric = cfg["com"] == "constant"
    shown = {k: cfg[k] for k in ("roi", "scan", "samp", "step_px", "slices", "dz", "modes", "mode_order", "obj_type", "pad", "com", "rotation_deg", "transpose", "energy", "counts", "aperture", "obj_kind")}
    case.update(shown)
    ctx.dist[f"roi.parity={psig(r0, r1)}"] += 1
    ctx.dist[f"roi={r0}x{r1}"] += 1
    ctx.dist[f"scan={gr}x{gc}"] += 1
    ctx.dist[f"obj_type={cfg['obj_type']}"] += 1
    ctx.dist[f"slices={S}"] += 1
    ctx.dist[f"modes={K}"] += 1
    ctx.dist[f"com={cfg['com']}"] += 1
    ctx.dist[f"pad_requested={tuple(cfg['pad'])}"] += 1
    ctx.dist[f"step.dyadic={cfg['dyadic']}"] += 1
    ctx.dist[f"obj_kind={cfg['obj_kind']}"] += 1
    ctx.dist[f"mode_order={cfg['mode_order']}"] += 1
    rot_kind = "0" if cfg["rotation_deg"] == 0 else ("+-90" if abs(cfg["rotation_deg"]) == 90 else "oblique")
    ctx.dist[f"scan.rotation={rot_kind},transpose={cfg['transpose']}"] += 1

    # ---- 1. geometry, read back from the real objects built on dummy data
    probes_c = cp.centred_probe(cfg, rng, symmetric)                       # (K, r0, r1) centred, complex128
    probe_lib = np.fft.ifftshift(probes_c, axes=(-2, -1))                  # library convention: origin at pixel 0
    pd0 = cp.make_dataset(cfg, np.ones((gr, gc, r0, r1), np.float32))
    p0 = cp.make_ptycho(cfg, pd0, probe_lib)
    H, W = (int(v) for v in p0.obj_shape_full[-2:])
    pad_used = [int(v) for v in p0.obj_padding_px]
    samp_lib = [float(v) for v in p0.sampling]
    pos32 = p0.dset.scan_positions_px.detach().numpy()                      # float32 (n, 2)
    pos = pos32.astype(np.float64)
    padded = pad_used != [0, 0]
    clipped = bool((pos[:, 0] > H - 1).any() or (pos[:, 1] > W - 1).any() or (pos < 0).any())
    ctx.dist[f"pad_used.zero={not padded}"] += 1
    ctx.dist[f"scan_exceeds_object_box={clipped}"] += 1
    ctx.mark(cfg_sig(cfg, padded))
    case.update({"obj_shape": [H, W], "pad_used": pad_used})
    plain = cfg["rotation_deg"] == 0 and not cfg["transpose"]
    if not plain:
        # rotated / transposed scan: positions from the numeric model (cos, sin at Float); the rotated object shape is
        # read back from the library (floor of trigonometric values: not modelled)
        mg = ask(drv, {"op": "positions_general", "gr": gr, "gc": gc, "stepR": f2b(float(np.float32(cfg["step"][0]))), "stepC": f2b(float(np.float32(cfg["step"][1]))),
                       "sampR": f2b(samp_lib[0]), "sampC": f2b(samp_lib[1]), "padR": f2b(pad_used[0]), "padC": f2b(pad_used[1]),
                       "angle": f2b(float(np.deg2rad(cfg["rotation_deg"]))), "transpose": bool(cfg["transpose"])})
        corr(ctx, f"scan-positions[rotation={rot_kind},transpose={cfg['transpose']}]", case, np.array([[b2f(a), b2f(b)] for a, b in mg]), pos, 2e-5,
             note="_set_initial_scan_positions_px with rotation / transposition")
        if H % 8 or W % 8:
            ctx.disagree("geometry", case, "multiple of 8", [H, W], "padded object shape")
    # model geometry (exact rationals of the library's own float inputs)
    g = None if not plain else ask(drv, {"op": "geometry", "gr": gr, "gc": gc, "stepR": cp.frac_str(np.float32(cfg["step"][0])), "stepC": cp.frac_str(np.float32(cfg["step"][1])),
                  "sampR": cp.frac_str(samp_lib[0]), "sampC": cp.frac_str(samp_lib[1]), "R0": r0, "R1": r1, "padR": cfg["pad"][0], "padC": cfg["pad"][1]})
    if g is None:
        g = {"pad": pad_used, "shape": [H, W], "positions": [[cp.frac_str(a), cp.frac_str(b)] for a, b in pos32.tolist()]}
    ctx.count()
    # (a disagreement never stops the case: everything downstream uses the library's own geometry, so the
    #  property predicate is still evaluated and can exhibit a failing input)
    if g["pad"] != pad_used or g["shape"] != [H, W]:
        ctx.disagree("geometry", case, {"pad": g["pad"], "shape": g["shape"]}, {"pad": pad_used, "shape": [H, W]}, "padding / object shape (model: multiple of 8)")
    mpos = np.array([[float(Fraction(a)), float(Fraction(b))] for a, b in g["positions"]])
    if not plain:
        pass
    elif cfg["dyadic"] and samp_lib == cfg["samp"]:
        ctx.count()
        if mpos.shape != pos32.shape or not np.array_equal(mpos.astype(np.float32), pos32):
            ctx.disagree("scan-positions-exact", case, mpos.tolist(), pos.tolist(), "dyadic geometry: positions must agree exactly")
    else:
        corr(ctx, "scan-positions", case, mpos, pos, 1e-5)
    # ---- 2. patch indices / fractional positions: exact integers on the library's own positions
    posq = [[cp.frac_str(a), cp.frac_str(b)] for a, b in pos32.tolist()]
    mi = ask(drv, {"op": "indices", "positions": posq, "R0": r0, "R1": r1, "H": H, "W": W})
    lib_idx = p0.dset.patch_indices.numpy().astype(np.int64)
    lib_frac = p0.dset.positions_px_fractional.detach().numpy().astype(np.float64)
    ctx.count(2)
    midx = np.array([m["idx"] for m in mi], dtype=np.int64)
    if midx.shape != lib_idx.shape or not np.array_equal(midx, lib_idx):
        bad = int(np.argmax((midx != lib_idx).reshape(n, -1).any(axis=1))) if midx.shape == lib_idx.shape else -1
        ctx.disagree("patch-indices", case, {"position": bad, "idx": midx[bad].tolist() if bad >= 0 else list(midx.shape)},
                     {"position": bad, "idx": lib_idx[bad].tolist() if bad >= 0 else list(lib_idx.shape)}, "flat patch indices (exact)")
    mfrac = np.array([[float(Fraction(m["frac"][0])), float(Fraction(m["frac"][1]))] for m in mi])
    if not np.array_equal(mfrac, lib_frac):
        ctx.disagree("fractional-positions", case, mfrac.tolist(), lib_frac.tolist(), "pos - round(pos) (exact)")
    tie_mask = np.abs(pos - np.floor(pos)) == 0.5
    ties = int(np.sum(tie_mask))
    ctx.dist[f"positions.with_half_ties={'yes' if ties else 'no'}"] += 1
    if ties:
        par = set((np.floor(pos[tie_mask]).astype(int) % 2).tolist())
        ctx.dist[f"positions.tie_integer_part={'even+odd' if par == {0, 1} else ('even' if par == {0} else 'odd')}"] += 1
    ctx.dist[f"positions.integer={'all' if np.all(pos == np.floor(pos)) else ('some' if np.any(pos == np.floor(pos)) else 'none')}"] += 1
    if cfg.get("ties"):
        ctx.count()
        if par != {0, 1} if ties else True:
            ctx.disagree("generator-ties", case, "exact x.5 positions with even and odd integer part", pos[:6].tolist(), "the tie configuration did not produce exact tie positions (harness generator)")

    # ---- 3. ground truth and the reference simulation (Spec.simulate at Float in the driver)
    phi = cp.object_phase(cfg, rng, H, W, pos, symmetric)                   # (S,H,W) float64, k/64
    if cfg["obj_type"] == "potential":
        gt_obj = {"kind": "re", "obj": [[f2b(v) for v in phi[s].reshape(-1).tolist()] for s in range(S)]}
    else:
        gt_obj = {"kind": "cx", "obj": [enc_flat(np.exp(1j * phi[s])) for s in range(S)]}
    common = {"H": H, "W": W, "R0": r0, "R1": r1, "dr": f2b(samp_lib[0]), "dc": f2b(samp_lib[1]), "energy": f2b(cfg["energy"]),
              "dz": [f2b(d) for d in cfg["dz"]], "positions": posq}
    sim = ask(drv, {"op": "simulate", **gt_obj, **common, "probes": [enc_img(probes_c[m]) for m in range(K)]})
    data = np.array([dec_rows(j) for j in sim])                              # (n, r0, r1) float64
    ctx.count()
    tot = float(np.sum(np.abs(probes_c) ** 2))
    # reference data sanity (independent of the library): every pattern carries the probe intensity
    if maxabs(data.sum(axis=(1, 2)) / tot - 1.0) > 1e-9:
        ctx.disagree("spec-normalisation", case, tot, data.sum(axis=(1, 2)).tolist(), "Spec.simulate: pattern sum != probe intensity (unit-modulus object)")
        return

    # ---- 4. the real preprocessing + pipeline on these data
    pd = cp.make_dataset(cfg, data.reshape(gr, gc, r0, r1))
    p = cp.make_ptycho(cfg, pd, probe_lib)
    mean_I = float(pd.mean_diffraction_intensity)
    pix = mean_I / (r0 * r1)
    if not np.array_equal(p.dset.scan_positions_px.detach().numpy(), pos32) or not np.array_equal(p.dset.patch_indices.numpy(), lib_idx):
        ctx.disagree("geometry-stable", case, "same geometry as the dummy run", "differs", "positions / indices depend on the intensities")
    # 4a. preprocessing correspondence
    data32 = data.astype(np.float32).astype(np.float64)
    # large scans (fixed block `large`): the model runs on a fixed subset of the positions (first, last, both sides of the library's
    # internal chunk boundary of 1000 patch-index rows, a few others) — the predicate and the exact index comparison use all of them
    sub = list(range(n)) if n <= 200 else sorted({0, 1, n - 1, n - 2, 998, 999, 1000, 1001, 1002, gc - 1, gc, n // 2} | {rng.below(n) for _ in range(8)})
    sub = [k for k in sub if 0 <= k < n]
    mp = ask(drv, {"op": "preprocess", "patterns": [enc_rows(data32[k]) for k in sub], "fit": cfg["com"], "R0": r0, "R1": r1})
    com_fit = np.array([pd.com_fit[0, 0, 0], pd.com_fit[1, 0, 0]], dtype=np.float64)
    centre = np.array([r0 // 2, r1 // 2], dtype=np.float64)
    corr(ctx, "com-measured", case, np.array([[b2f(a), b2f(b)] for a, b in mp["com_measured"]]),
         np.stack([pd.com_measured[0].reshape(-1), pd.com_measured[1].reshape(-1)], axis=1).astype(np.float64)[sub], 1e-4)
    corr(ctx, f"com-fit[{cfg['com']}]", case, np.array([b2f(v) for v in mp["com_fit"]]), com_fit, 1e-4)
    if not np.all(pd.com_fit == pd.com_fit[:, :1, :1]):
        ctx.disagree("com-fit-constant", case, "one value", "varies over the scan", "no_shift / constant must give a position-independent origin")
    corr(ctx, "descan-bookkeeping", case, np.array([b2f(v) for v in mp["descan"]]), pd.descan_shifts.detach().numpy()[0].astype(np.float64), 1e-4)
    corr(ctx, "mean-intensity", case, np.array([b2f(mp["mean_intensity"]) / mean_I]), np.array([1.0]), 1e-5)
    mamps = np.array([dec_rows(j) for j in mp["amplitudes"]])
    corr(ctx, f"centred-amplitudes[{cfg['com']}]", case, mamps / np.sqrt(pix), pd.centered_amplitudes.numpy().astype(np.float64)[sub] / np.sqrt(pix), TOL32)
    mints = np.array([dec_rows(j) for j in mp["intensities"]])
    corr(ctx, f"centred-intensities[{cfg['com']}]", case, mints / pix, pd.centered_intensities.numpy().astype(np.float64)[sub] / pix, TOL32)
    # normalisation clause: the library fixes the probe intensity to the mean pattern intensity
    # normalisation (theorem mean_intensity_eq_probe_intensity): mean pattern intensity = total probe intensity, and the
    # library rescales its initial probe to it (set_initial_probe/_apply_weights) — correspondence streams, not predicates
    corr(ctx, "mean-intensity=sum|probe|^2", case, np.array([1.0]), np.array([mean_I / tot]), 1e-5, note="library mean_diffraction_intensity / total ground-truth probe intensity")
    p_init = float(np.sum(np.abs(p.probe_model.probe.detach().numpy().astype(np.complex128)) ** 2))
    corr(ctx, "probe-rescaling", case, np.array([1.0]), np.array([p_init / mean_I]), 1e-4, note="total intensity of the library's initial probe / mean_diffraction_intensity")
    applicable = True
    if cfg["com"] == "constant":
        off = float(np.max(np.abs(com_fit - centre)))
        ctx.stat_max("constant.fit_offset_px[max over cases]", off)
        applicable = off <= CONSTANT_APPLICABLE
        ctx.dist[f"constant.{'applicable' if applicable else 'not-applicable(fit misses centre)'}:{psig(r0, r1)[:2]}"] += 1
        case["constant_fit_offset_px"] = off

    # 4b. install the ground truth, forward correspondence
    cp.install_truth(p, cfg, phi, probe_lib)
    lib_probe = p.probe_model.probe.detach().numpy().astype(np.complex128)
    ctx.count()
    # the hard constraint (Gram-Schmidt + sort by power) must return the orthogonal ground-truth modes unchanged up to
    # the strongest-first re-ordering; every later comparison uses the library's own order (the mode sum is order-free)
    gt_sorted = cp.sort_modes_by_power(probe_lib)
    powers_in = np.sum(np.abs(probe_lib) ** 2, axis=(-2, -1))
    ctx.dist[f"installed_power_order.sorted_descending={bool(np.all(np.diff(powers_in) < 0)) if K > 1 else 'single'}"] += 1
    dprobe = maxabs(lib_probe - gt_sorted) / np.sqrt(tot)
    ctx.stat_max("pred_reldist[probe hard constraint = identity on orthogonal modes]", dprobe)
    if dprobe > 1e-4:
        ctx.disagree("probe-constraint-identity", case, "installed probe", f"changed by {dprobe:.3g}", "Gram-Schmidt / power sort changed an orthogonal ground-truth probe (beyond re-ordering the modes)")
    lib_obj = p.obj_model.obj.detach().numpy()
    if cfg["obj_type"] == "potential":
        t_in = {"kind": "re", "obj": [[f2b(v) for v in lib_obj[s].astype(np.float64).reshape(-1).tolist()] for s in range(S)]}
    else:
        t_in = {"kind": "cx", "obj": [enc_flat(lib_obj[s].astype(np.complex128)) for s in range(S)]}
        amp_dev = maxabs(np.abs(lib_obj.astype(np.complex128)) - 1)
        ctx.stat_max("pred_reldist[|constrained object| = 1]", amp_dev)
    detail = sorted({0, n - 1, rng.below(n)}) if n <= 200 else [0, n - 1, 999, 1000]
    detail_sub = [sub.index(k) for k in detail]
    full = cp.run_pipeline(p, "l2_amplitude", n)[0]
    if not full["descan_none"]:
        ctx.disagree("descan-disabled", case, "descan None", "descan tensor", "dataset applies a descan ramp although descan learning is off")
    mf = ask(drv, {"op": "forward", **t_in, **{**common, "positions": [posq[k] for k in sub]}, "probes": [enc_img(lib_probe[m]) for m in range(K)], "detail": detail_sub})
    mpat = np.array([dec_rows(j) for j in mf["patterns"]])
    ok_int = corr(ctx, f"predicted-intensities:{psig(r0, r1)}", case, mpat / pix, full["pred"][sub] / pix, TOL32, note="model forward vs real pipeline")
    for dj in mf["detail"]:
        k = sub[dj["i"]]
        for m in range(K):
            corr(ctx, "shifted-probes", case, dec_img(dj["shifted"][m]) / np.sqrt(pix), full["shifted"][m, k] / np.sqrt(pix), TOL32, note=f"position {k} mode {m}")
        for s in range(S):
            corr(ctx, "object-patches", case, dec_img(dj["patches"][s]), full["patches"][s, k], 1e-6, note=f"position {k} slice {s}")
    # the data themselves: predicted intensities at the truth vs the reference simulation
    if not clipped:   # (clipped positions: the pipeline leaves the recorded positions — known finding, decided by the predicate)
        corr(ctx, f"prediction-vs-reference:{psig(r0, r1)}", case, data / pix, full["pred"] / pix, TOL32, note="real pipeline at the truth vs Spec.simulate")
    if not clipped:
        corr(ctx, "model-forward-vs-reference", case, data[sub] / pix, mpat / pix, 1e-5, note="Forward.forward (Float, library's float32 truth) vs Spec.simulate")

    # ---- 5. property predicate on the real code
    mask = p.dset.detector_mask.double().numpy()
    bsizes = sorted({n, 1, rng.choice([2, 3, 4, 5]), rng.randint(2, n - 1)}) if not light else [n, 3]
    if n > 1000:
        # more positions than the library's internal chunk of 1000 patch-index rows: batches that end exactly at, one before /
        # after the chunk boundary and a second batch shorter than the first (second repetition of the batch loop)
        bsizes = [n, 1000, 1001]
    ctx.dist[f"batch_sizes={bsizes}"] += 1
    key_base = f"{cfg['com']}:{psig(r0, r1)[:2]}"
    KEY_CLIP = "scan-exceeds-object-box:clip_scan_positions"

    def key(kind):
        # one input signature for the whole class: initial raster positions beyond obj_shape - 1 (clamped by dset.forward)
        return KEY_CLIP if clipped else f"{kind}:{key_base}"
    truth_epoch = {}
    for lt in cp.LOSS_TYPES:
        tol = TOL_L1 if "l1" in lt else TOL_L2
        for b in bsizes:
            recs = cp.run_pipeline(p, lt, b)
            worst = 0.0
            for r in recs:
                sc = loss_scale(p, lt, r["indices"], mask)
                # amplitude losses compare sqrt(I + 1e-9) with sqrt(I): their value at exact agreement is the residual of
                # theorem amplitude_loss_residual (<= mask^2 * 1e-9 per pixel for l2), evaluated here on the reference data
                res = amplitude_residual(lt, data[r["indices"]], mask, len(r["indices"]), n, mean_I)
                ctx.stat_max(f"eps_residual_rel[{lt}]", res / sc if sc > 0 else 0.0)
                rel = abs(r["loss"] - res) / sc if sc > 0 else float("inf")
                worst = max(worst, rel)
                ctx.count()
            truth_epoch[(lt, b)] = float(np.mean([r["loss"] for r in recs]))
            if applicable:
                ctx.stat_max(f"loss_at_truth_rel[{lt}]" + ("[scan exceeds object box]" if clipped else ""), worst)
                if not (worst <= tol):
                    ctx.pred_fail(key("loss-at-truth"), f"{lt} loss at the ground truth is not zero (batch size {b})", {**case, "loss_type": lt, "batch_size": b},
                                  observed=f"|loss - eps residual|/scale={worst:.4g}", required=f"<= {tol:g}")
            else:
                ctx.stat_max(f"not_applicable.loss_at_truth_rel[{lt}]", worst)
        # model loss correspondence at the truth (full batch)
        recs = cp.run_pipeline(p, lt, n)
        ml = b2f(ask(drv, {"op": "loss", "loss_type": lt, "preds": [enc_rows(x) for x in recs[0]["pred"]],
                           "targets": [enc_rows(x) for x in p.dset.targets.double().numpy()], "mask": enc_rows(mask), "num_gpts": n, "mean_intensity": f2b(mean_I)}))
        corr(ctx, f"loss-value[{lt}]", case, np.array([ml]), np.array([recs[0]["loss"]]), TOL32, note="at the truth")
    if light:
        return _light_tail(ctx, case, cfg, p, phi, probe_lib, bsizes, truth_epoch, applicable, clipped, key, n, ok_int)
    # alternative public entry points of every step must give the same problem
    entry_point_stream(ctx, case, cfg, p, pd, data, (phi, probe_lib), mask, mean_I, pix, applicable, clipped, key, rng, full["pred"])
    # histories of real reconstruct() calls on this one object (state left behind by earlier calls must not matter)
    # the untouched twin of the history streams: its own dataset and Ptychography object, ground truth installed, never given a
    # rejected call, preprocessed exactly once
    pd_f = cp.make_dataset(cfg, data.reshape(gr, gc, r0, r1))
    twin = cp.make_ptycho(cfg, pd_f, probe_lib)
    cp.install_truth(twin, cfg, phi, probe_lib)
    history_stream(ctx, case, cfg, p, pd, data, (phi, probe_lib), twin, mask, mean_I, pix, applicable, clipped, key, rng)
    rng2 = Rng(cfg["truth_seed"] ^ 0x5EED5)      # own stream: the choices above stay what they were
    # exception safety: rejected public calls inside a history must change nothing
    rejected_call_stream(ctx, case, cfg, pd, data, (phi, probe_lib), twin, mask, mean_I, pix, applicable, clipped, key, rng2)
    # re-preprocessing histories on one dataset object must equal a dataset preprocessed once
    d_re, q_re = repreprocess_stream(ctx, case, cfg, pd, data, (phi, probe_lib), twin, mask, mean_I, pix, applicable, clipped, key, rng2)
    # state machines of Model/ForwardState.lean vs the real objects, call by call (rejected calls included)
    targets_history_stream(ctx, drv, case, cfg, d_re, q_re, rng2)
    thickness_history_stream(ctx, drv, case, cfg, p0, samp_lib, rng2)
    index_history_stream(ctx, drv, case, cfg, p0, H, W, rng2)
    # perturbations: 3 of the object, 2 of the probe
    prng = np.random.default_rng(cfg["truth_seed"] % (2 ** 32))
    perts = []
    for j in range(3):
        sig = (0.05, 0.1, 0.2)[j]
        perts.append(("object", np.clip(phi + sig * prng.standard_normal(phi.shape), 0.0, None), probe_lib))
    for j in range(2):
        sig = (0.03, 0.1)[j]
        perts.append(("probe", phi, probe_lib * (1 + sig * (prng.standard_normal(probe_lib.shape) + 1j * prng.standard_normal(probe_lib.shape)))))
    for j, (what, phi_p, probe_p) in enumerate(perts):
        cp.install_truth(p, cfg, phi_p, probe_p)
        for lt in cp.LOSS_TYPES:
            for b in (bsizes if j == 0 else [n]):
                recs = cp.run_pipeline(p, lt, b)
                ctx.count(len(recs))
                lp = float(np.mean([r["loss"] for r in recs]))
                lt0 = truth_epoch[(lt, b)]
                if applicable:
                    ctx.stat_max(f"truth_over_perturbed[{lt}]" + ("[scan exceeds object box]" if clipped else ""), lt0 / lp if lp > 0 else float("inf"))
                    if not (lp > lt0):
                        ctx.pred_fail(key("perturbed-not-larger"), f"{lt} loss at a perturbed {what} is not larger than at the truth (batch size {b})",
                                      {**case, "loss_type": lt, "batch_size": b, "perturbation": j}, observed=f"perturbed={lp:.6g} truth={lt0:.6g}", required="perturbed > truth")
            if j in (0, 3):   # model loss correspondence away from the truth: full batch and one partial batch (batch-fraction scaling)
                for b in (n, bsizes[1] if len(bsizes) > 1 and bsizes[1] < n else max(1, n // 2)):
                    rec = cp.run_pipeline(p, lt, b)[-1]      # the last batch (possibly shorter than b)
                    bi = rec["indices"]
                    ml = b2f(ask(drv, {"op": "loss", "loss_type": lt, "preds": [enc_rows(x) for x in rec["pred"]],
                                       "targets": [enc_rows(x) for x in p.dset.targets[bi].double().numpy()], "mask": enc_rows(mask),
                                       "num_gpts": n, "mean_intensity": f2b(mean_I)}))
                    corr(ctx, f"loss-value[{lt}]", case, np.array([ml]), np.array([rec["loss"]]), TOL32, note=f"perturbed {what}, batch of {len(bi)} of {n}")
    ctx.sample({k: case[k] for k in ("stream", "rseed", "index", "roi", "scan", "step_px", "samp", "slices", "modes", "obj_type", "pad", "pad_used", "obj_shape", "com") if k in case}, limit=6)
    return ok_int


def _light_tail(ctx, case, cfg, p, phi, probe_lib, bsizes, truth_epoch, applicable, clipped, key, n, ok_int):
    """fixed-block configurations (large scans, sibling configurations, rotation quadrants): one object and one probe perturbation,
    full batch only; the history / entry-point / state-machine streams are left to the regular configurations"""
    prng = np.random.default_rng(cfg["truth_seed"] % (2 ** 32))
    perts = [("object", np.clip(phi + 0.1 * prng.standard_normal(phi.shape), 0.0, None), probe_lib),
             ("probe", phi, probe_lib * (1 + 0.1 * (prng.standard_normal(probe_lib.shape) + 1j * prng.standard_normal(probe_lib.shape))))]
    for j, (what, phi_p, probe_p) in enumerate(perts):
        cp.install_truth(p, cfg, phi_p, probe_p)
        for lt in cp.LOSS_TYPES:
            recs = cp.run_pipeline(p, lt, n)
            ctx.count(len(recs))
            lp = float(np.mean([r["loss"] for r in recs]))
            lt0 = truth_epoch[(lt, n)]
            if applicable:
                ctx.stat_max(f"truth_over_perturbed[{lt}]" + ("[scan exceeds object box]" if clipped else ""), lt0 / lp if lp > 0 else float("inf"))
                if not (lp > lt0):
                    ctx.pred_fail(key("perturbed-not-larger"), f"{lt} loss at a perturbed {what} is not larger than at the truth (batch size {n})",
                                  {**case, "loss_type": lt, "batch_size": n, "perturbation": j}, observed=f"perturbed={lp:.6g} truth={lt0:.6g}", required="perturbed > truth")
    return ok_int


def apply_override(cfg, ov):
    """fixed-block configurations: the seeded configuration with some fields replaced (JSON-able, part of the replay case)"""
    cfg = dict(cfg)
    cfg.update(ov)
    if "step_px" in ov or "samp" in ov:
        cfg["step"] = [float(np.float32(cfg["step_px"][0] * cfg["samp"][0])), float(np.float32(cfg["step_px"][1] * cfg["samp"][1]))]
        cfg["dyadic"] = all(float(v * 8).is_integer() for v in cfg["step_px"])
    if "slices" in ov and "dz" not in ov:
        cfg["dz"] = (list(cfg["dz"]) + [4.5, 7.25, 11.0])[: cfg["slices"] - 1]
    if cfg["modes"] == 1:
        cfg["mode_order"] = "single"
    elif cfg.get("mode_order") == "single":
        cfg["mode_order"] = "ascending"
    cfg["ties"] = False
    return cfg


# ----------------------------------------------------------------------------- pinned public signatures / defaults
PINNED_DEFAULTS = {
    "PtychographyDatasetRaster.preprocess": {"com_fit_function": "plane", "force_com_rotation": None, "force_com_transpose": None, "bilinear": False,
                                             "padded_diffraction_intensities_shape": None, "obj_padding_px": (0, 0), "vectorized": True, "probe_energy": None},
    "PtychographyDatasetRaster.from_dataset4dstem": {"detector_mask": None, "learn_descan": True, "learn_scan_positions": True},
    "Ptychography.preprocess": {"obj_padding_px": (0, 0), "val_ratio": 0.0, "val_mode": "grid", "vectorized": True, "batch_size": None,
                                "com_fit_function": "constant", "force_com_rotation": None, "force_com_transpose": None,
                                "padded_diffraction_intensities_shape": None},
    "Ptychography.reconstruct": {"num_iters": 0, "reset": False, "optimizer_params": None, "scheduler_params": None, "constraints": {},
                                 "batch_size": None, "device": None, "autograd": True, "loss_type": "l2_amplitude"},
    "Ptychography.error_estimate": {"loss_type": "l2_amplitude"},
    "Ptychography.forward_operator": {"descan": None},
    "ObjectPixelated.from_uniform": {"num_slices": 1, "slice_thicknesses": None, "obj_type": "complex"},
    "ObjectPixelated.from_array": {"slice_thicknesses": None, "obj_type": "complex"},
    "shift_array": {"bilinear": False},
}


def signature_stream(ctx):
    """the public entry points the pipeline is driven through keep the parameter names and DEFAULTS the model assumes (new
    optional parameters are fine: only the listed ones are pinned); the default dataset constraints (clip_scan_positions) too"""
    import inspect
    from quantem.diffractive_imaging.dataset_models import PtychographyDatasetRaster, DatasetConstraints
    from quantem.diffractive_imaging.object_models import ObjectPixelated
    from quantem.diffractive_imaging.ptychography import Ptychography
    from quantem.diffractive_imaging.ptycho_utils import shift_array
    objs = {"PtychographyDatasetRaster": PtychographyDatasetRaster, "Ptychography": Ptychography, "ObjectPixelated": ObjectPixelated}
    for name, pins in PINNED_DEFAULTS.items():
        fn = shift_array if name == "shift_array" else getattr(objs[name.split(".")[0]], name.split(".")[1])
        try:
            params = inspect.signature(fn).parameters
        except (TypeError, ValueError) as e:   # noqa: PERF203
            ctx.disagree("public-signature", {"stream": "signature", "function": name}, "inspectable", str(e), "signature")
            continue
        for k, dv in pins.items():
            ctx.count()
            if k not in params:
                ctx.disagree("public-signature", {"stream": "signature", "function": name, "parameter": k}, "present", "missing", "parameter of a public entry point")
                continue
            got = params[k].default
            same = (got is dv) or (type(got) is type(dv) and got == dv) or (isinstance(dv, tuple) and isinstance(got, (tuple, list)) and tuple(got) == dv)
            if not same:
                ctx.disagree("public-default", {"stream": "signature", "function": name, "parameter": k}, repr(dv), repr(got), "default value of a public entry point")
    ctx.count(2)
    dc = DatasetConstraints.DEFAULT_CONSTRAINTS
    if dc.get("clip_scan_positions") is not True or dc.get("center_scan_positions") is not False:
        ctx.disagree("public-default", {"stream": "signature", "function": "DatasetConstraints.DEFAULT_CONSTRAINTS"},
                     {"clip_scan_positions": True, "center_scan_positions": False}, {k: dc.get(k) for k in ("clip_scan_positions", "center_scan_positions")},
                     "default hard constraints executed by dset.forward")
    ctx.mark(("signature", "pinned-defaults"))


# ----------------------------------------------------------------------------- small exact streams
def round_stream(ctx, drv):
    """round-half-even of the model vs numpy / torch on exact dyadic inputs incl. ties and negatives"""
    import torch
    vals = []
    for _ in range(ctx.n(200, 3000)):
        k = ctx.rng.weighted([("tie", 3), ("dyadic", 4), ("float32", 3)])
        if k == "tie":
            v = ctx.rng.randint(-40, 40) + 0.5
        elif k == "dyadic":
            v = ctx.rng.randint(-40 * 64, 40 * 64) / 64.0
        else:
            v = float(np.float32(ctx.rng.uniform(-40, 40)))
        vals.append(v)
        ctx.dist[f"round.{k}"] += 1
    res = drv.ask_many([{"op": "round", "q": cp.frac_str(v)} for v in vals])
    tr = torch.round(torch.tensor(vals, dtype=torch.float32)).numpy()
    for v, r, t in zip(vals, res, tr):
        ctx.count()
        if r.get("ok") != int(np.round(v)) or int(t) != r.get("ok"):
            ctx.disagree("round-half-even", {"stream": "round", "value": v}, r, {"numpy": int(np.round(v)), "torch": int(t)}, "rounding mode")
    ctx.mark(("round", "ties+dyadic+float32"))


# ----------------------------------------------------------------------------- fixed blocks (independent of VERIF_SEED)
BLOCK_SEED = 0x6C02B10C
BLOCK_BASE = {"roi": [8, 6], "scan": [3, 4], "samp": [0.5, 0.5], "step_px": [1.625, 2.375], "slices": 3, "dz": [4.0, 9.5], "modes": 2,
              "obj_type": "complex", "pad": [4, 4], "rotation_deg": 0, "transpose": False, "energy": 300e3, "com": "no_shift",
              "mode_order": "ascending", "obj_kind": "rough", "counts": 4096.0}


def fixed_blocks(thorough=False):
    """configurations every run evaluates whatever the seed (light: predicate at the truth + 2 perturbations + all correspondences of
    the pipeline, no histories):
    siblings — ONE process runs configurations that differ from the base in exactly one of beam energy / object sampling / slice
      thicknesses (also the same thicknesses in the other order) / ROI orientation, >= 2 slices, and the base again at the end: state
      shared between objects (module-level propagator or coordinate caches keyed too coarsely) shows as a wrong loss at the truth;
    quadrants — scan rotation in every quadrant and beyond 180 deg, with and without exchanged axes, H > W and H < W scans;
    large — scans with more than 1000 positions whose count is not a multiple of 1000 (1073 = 37 x 29, 1023 = 31 x 33 stays below;
      2021 = 43 x 47 in the thorough tier), tiny ROI, fractional parts of the positions on both sides of 0.5"""
    B = BLOCK_BASE
    out = []
    sib = [("base", {}), ("energy", {"energy": 80e3}), ("sampling", {"samp": [0.25, 0.25]}), ("dz-swapped", {"dz": [9.5, 4.0]}),
           ("roi-swapped", {"roi": [6, 8]}), ("base-again", {})]
    if thorough:
        sib[-1:-1] = [("dz", {"dz": [4.0, 9.75]}), ("energy-again", {"energy": 80e3})]
    for name, ov in sib:
        out.append({"block": f"siblings:{name}", "override": {**B, **ov}})
    quad = [(135, False, [3, 4]), (-135, True, [5, 3]), (180, False, [4, 3]), (180, True, [3, 4]), (225, True, [5, 3]), (-45, False, [3, 4]),
            (45, True, [4, 3]), (270, False, [3, 5])]
    for k, (deg, tp, scan) in enumerate(quad if thorough else quad[:4]):
        out.append({"block": f"quadrants:{deg}:{'T' if tp else 'N'}", "override": {**B, "rotation_deg": deg, "transpose": tp, "scan": scan, "slices": 2, "dz": [6.5],
                    "pad": [8, 8], "step_px": [1.25, 1.75], "roi": [7, 10] if k % 2 else [10, 7], "modes": 1 + k % 2, "obj_type": ("pure_phase", "potential", "complex")[k % 3]}})
    out.append({"block": "large:1073", "override": {**B, "scan": [37, 29], "roi": [6, 5], "step_px": [0.375, 0.625], "slices": 2, "dz": [6.5], "modes": 1}})
    if thorough:
        out.append({"block": "large:1023T", "override": {**B, "scan": [31, 33], "roi": [5, 6], "step_px": [0.625, 0.375], "slices": 2, "dz": [3.25], "modes": 1,
                "transpose": True, "pad": [8, 8], "obj_type": "potential"}})
    if thorough:
        out.append({"block": "large:2021", "override": {**B, "scan": [43, 47], "roi": [5, 6], "step_px": [0.375, 0.375], "slices": 1, "dz": [], "modes": 1, "obj_type": "pure_phase"}})
    return out


def run(ctx):
    from qv.driver import Driver
    import torch
    torch.set_grad_enabled(False)
    nthreads = torch.get_num_threads()
    torch.set_num_threads(1)          # tiny tensors: thread hand-over costs more than it saves (and the machine is shared)
    drv = Driver("C02")
    try:
        round_stream(ctx, drv)
        signature_stream(ctx)
        import time
        secs = ctx.extra.setdefault("fixed_block_seconds", {})
        for blk in fixed_blocks(ctx.thorough()):
            t0 = time.time()
            pipeline_case(ctx, drv, {"stream": "pipeline", "rseed": BLOCK_SEED, "index": 0, "light": True, **blk})
            secs[blk["block"]] = round(time.time() - t0, 2)
            if os.environ.get("C02_ONLY_BLOCKS"):
                import sys
                print(f"[C02 dev] block {blk['block']}: {secs[blk['block']]} s; driver: { {k: round(v, 1) for k, v in _ASK_SECONDS.items()} }", file=sys.stderr)
                _ASK_SECONDS.clear()
        ncfg = min(ctx.n(16, 150), 48 if not ctx.thorough() else 200) if ctx.search_mode else ctx.n(16, 150)
        if os.environ.get("C02_ONLY_BLOCKS"):      # development switch: the fixed blocks alone
            ncfg = 0
        for i in range(ncfg):
            case = {"stream": "pipeline", "rseed": ctx.rng.next(), "index": i}
            pipeline_case(ctx, drv, case)
            if ctx.search_mode and ctx.pred_failures:
                break
    finally:
        drv.close()
        torch.set_grad_enabled(True)
        torch.set_num_threads(nthreads)


def replay(ctx, rep):
    from qv.driver import Driver
    import torch
    case = rep.get("case") or (rep.get("correspondence_disagreements") or rep.get("disagreements") or [{}])[0].get("case")
    if not case or case.get("stream") != "pipeline":
        return False
    torch.set_grad_enabled(False)
    drv = Driver("C02")
    try:
        if str(case.get("block", "")).startswith("siblings:") and case.get("block") != "siblings:base":
            # a sibling configuration is evaluated AFTER the base configuration in the same process (state shared between objects)
            pipeline_case(ctx, drv, {"stream": "pipeline", "rseed": case["rseed"], "index": case.get("index", 0), "light": True,
                                     "block": "siblings:base", "override": dict(BLOCK_BASE)})
        pipeline_case(ctx, drv, {"stream": "pipeline", "rseed": case["rseed"], "index": case.get("index", 0),
                                 **{k: case[k] for k in ("light", "override", "block") if k in case}})
    finally:
        drv.close()
        torch.set_grad_enabled(True)
    return True
