"""C05 growth 6 — FIXED blocks (independent of VERIF_SEED, never cut by a time guard) for the round-6 input classes:

  size / count thresholds   12 iterations with store_snapshots=True: checkpoints holding 10, 11 and 12 snapshots and loss / LR
                            histories (item-by-item containers whose keys need two digits must reload in order), zip and dir;
                            the iteration count crosses the end of a linear LR ramp (total_iters=10) and several plateau
                            reductions before and after the checkpoint
  orientation asymmetry     6x12 scans (more COLUMNS than rows) and 12x6 scans with learned scan positions, restored through
                            every reload path: raw data in the file, save_raw_data=False + from_file(path, dset=fresh dataset),
                            save_raw_data=False + automatic dataset reload from the raw-data file
  two objects alive         clone() taken while the dataset has NO optimizer (k = 0 / after a leg that optimised object and probe
                            only), then BOTH objects continued with a "dataset" entry in optimizer_params — on clone()'s
                            in-memory path (copy.deepcopy) and on its save / from_file fallback; the is-identity walk is repeated
                            AFTER the continuation (c05.run_case)
  more than one checkpoint  `double_case`: run → save(1) → run → save(2) → from_file(1) twice (two live objects of one file) →
                            continue both one after the other → save(3) / from_file(3) of a reloaded object (reload → continue →
                            save → reload) → from_file(2) → continue; every arm must end where the uninterrupted object ends,
                            every reloaded object must report what was saved, no two live objects may share training state
"""
import contextlib
import io
import os
import shutil
import warnings

ADAM = {"type": "adam", "lr": 0.0625}
SGDM = {"type": "sgd", "lr": 0.125, "momentum": 0.5}


def _lin(total):
    return {"type": "linear", "start_factor": 0.25, "total_iters": total}


PLATEAU = {"type": "plateau", "factor": 0.5, "patience": 0, "cooldown": 0, "threshold": 0.5}


def _base(scan, **kw):
    cfg = {"scan": list(scan), "roi": [8, 8], "seed": 1, "rng_seed": 5, "num_probes": 1, "obj_type": "complex", "num_slices": 1,
           "learn_tilt": False, "store": "zip", "raw": True}
    cfg.update(kw)
    return cfg


def fixed_cases():
    """[(name, cfg, [split, …])] — literal configurations"""
    out = []
    # --- >= 11 / 12 stored snapshots, histories of two-digit length, scheduler milestones crossed on both sides
    for store, opt, sched in (("zip", ADAM, _lin(10)), ("dir", SGDM, PLATEAU)):
        cfg = _base([3, 3], store=store, num_probes=2 if store == "dir" else 1)
        cfg["calls"] = [{"n": 12, "opt": {"object": dict(opt), "probe": dict(opt)}, "sched": {"object": dict(sched), "probe": dict(sched)},
                         "cons": None, "reset": True, "snap": 1}]
        out.append((f"snapshots12-{store}", cfg, [[0, 10], [0, 11], [0, 12]] if store == "zip" else [[0, 11], [0, 12]]))
    # … in a two-call history: the snapshot list of the first call is complete (11) when the second call starts
    cfg = _base([2, 3], store="dir", obj_type="pure_phase")
    cfg["calls"] = [{"n": 11, "opt": {"object": dict(ADAM)}, "sched": {"object": _lin(4)}, "cons": None, "reset": True, "snap": 1},
                    {"n": 2, "opt": {"object": dict(ADAM), "probe": dict(SGDM)}, "sched": {"probe": _lin(2)}}]
    out.append(("snapshots11-then-stage", cfg, [[0, 11], [1, 1]]))
    # --- wide / tall scans, learned positions through every reload path
    ds = {"type": "adam", "lr": 0.0625}
    for scan, route in (([6, 12], "dset-arg"), ([12, 6], "auto"), ([6, 12], "auto")):
        cfg = _base(scan, store="zip" if route == "auto" else "dir", raw=False, auto=(route == "auto"))
        cfg["calls"] = [{"n": 2, "opt": {"object": dict(SGDM), "dataset": dict(ds)}, "sched": None, "cons": None, "reset": True},
                        {"n": 2, "opt": {"dataset": {"type": "none"}}}]
        # [1, 0]: the dataset optimizer is removed → the checkpoint is written WITHOUT raw data, the learned positions
        # travel in _dataset_metadata; [0, 1]: positions still being learned (raw data in the file)
        out.append((f"wide-{scan[0]}x{scan[1]}-{route}", cfg, {"dset-arg": [[1, 0], [1, 1]], "auto": [[1, 0], [0, 1]] if scan[0] > scan[1] else [[1, 0]]}[route]))
    cfg = _base([6, 12], store="zip", num_probes=2)
    cfg["calls"] = [{"n": 3, "opt": {"object": dict(ADAM), "probe": dict(ADAM), "dataset": dict(ds)}, "sched": {"dataset": _lin(2)},
                     "cons": None, "reset": True}]
    out.append(("wide-6x12-raw", cfg, [[0, 2]]))
    # --- clone / reload while the dataset has no optimizer, then both objects get one
    for inmem in (True, False):
        cfg = _base([3, 2] if inmem else [2, 3], store="zip" if inmem else "dir")
        if inmem:
            cfg["learn_positions"] = False      # copy.deepcopy succeeds: clone()'s in-memory path
            cfg["learn_descan"] = True
        cfg["calls"] = [{"n": 1, "opt": {"object": dict(ADAM), "probe": dict(ADAM)}, "sched": None, "cons": None, "reset": True},
                        {"n": 2, "opt": {"object": dict(ADAM), "probe": dict(ADAM), "dataset": {"type": "adam", "lr": 0.03125}}}]
        out.append(("clone-then-dataset-optimizer-" + ("deepcopy" if inmem else "fallback"), cfg, [[0, 0], [0, 1], [1, 1]]))
    return out


def double_cases():
    a = _base([3, 3], store="zip", num_probes=2)
    a["double"] = {"pre": [{"n": 2, "opt": {"object": dict(ADAM), "probe": dict(ADAM), "dataset": {"type": "adam", "lr": 0.03125}},
                            "sched": {"object": dict(PLATEAU)}, "cons": None, "reset": True, "snap": 1}],
                   "mid": [{"n": 3}], "post": [{"n": 2}]}
    b = _base([2, 3], store="dir", obj_type="potential")
    b["double"] = {"pre": [{"n": 1, "opt": {"object": dict(SGDM)}, "sched": {"object": {"type": "exp", "gamma": 0.5}},
                            "cons": {"object": {"positivity": False}}, "reset": True, "snap": 1}],
                   "mid": [{"n": 1, "opt": {"probe": dict(SGDM)}}, {"n": 1}], "post": [{"n": 1, "opt": {"object": {"type": "none"}}}, {"n": 1}]}
    return [("double-zip", a), ("double-dir", b)]


def double_case(ctx, cfg, scratch, tol, observables):
    """two checkpoints in one history, two live objects of one file, a reloaded object saved and reloaded again"""
    from . import c05_problem as cp
    from quantem.diffractive_imaging.ptychography import Ptychography
    d = cfg["double"]
    case = {"cfg": cfg, "double": True}
    store = cfg["store"]
    paths = [os.path.join(scratch, f"c05_double{i}" + (".zip" if store == "zip" else "")) for i in (1, 2, 3)]

    def wipe():
        for p in paths:
            if os.path.isdir(p):
                shutil.rmtree(p)
            elif os.path.exists(p):
                os.remove(p)
    wipe()
    ctx.count()
    ctx.dist["stream:double-checkpoint"] += 1
    pin1, pin2 = 3001, 3002

    def save(p, path):
        with warnings.catch_warnings(), contextlib.redirect_stdout(io.StringIO()):
            warnings.simplefilter("ignore")
            p.save(path, mode="o", store=store, save_raw_data=True, verbose=0)

    def load(path):
        with warnings.catch_warnings(), contextlib.redirect_stdout(io.StringIO()):
            warnings.simplefilter("ignore")
            return Ptychography.from_file(path)
    try:
        U = cp.run_calls(cp.build(cfg), d["pre"])
        cp.run_calls(U, d["mid"], pin1)
        obs_U_mid = cp.observe(U)
        cp.run_calls(U, d["post"], pin2)
        obs_U = cp.observe(U)
        B = cp.run_calls(cp.build(cfg), d["pre"])
        save(B, paths[0])
        obs_B1 = cp.observe(B)
        cp.run_calls(B, d["mid"], pin1)
        save(B, paths[1])
        obs_B2 = cp.observe(B)
        R1a, R1b = load(paths[0]), load(paths[0])         # two live objects of the FIRST checkpoint (the second one exists already)
        reports = [("first-checkpoint:a", cp.observe(R1a), obs_B1), ("first-checkpoint:b", cp.observe(R1b), obs_B1)]
        shared = {"a/b": cp.shared_state(R1a, R1b), "a/source": cp.shared_state(R1a, B)}
        cp.run_calls(R1a, d["mid"], pin1)
        save(R1a, paths[2])                              # reload → continue → save → reload
        mids = [("first-checkpoint:a at the second split (after its own save)", cp.observe(R1a), obs_U_mid)]
        R3 = load(paths[2])
        reports.append(("third-checkpoint", cp.observe(R3), cp.observe(R1a)))
        cp.run_calls(R1a, d["post"], pin2)
        cp.run_calls(R1b, d["mid"], pin1)                # the second object of the same file, after the first one has finished
        cp.run_calls(R1b, d["post"], pin2)
        R2 = load(paths[1])
        reports.append(("second-checkpoint", cp.observe(R2), obs_B2))
        cp.run_calls(R2, d["post"], pin2)
        cp.run_calls(R3, d["post"], pin2)
        cp.run_calls(B, d["post"], pin2)
        shared["a/b after"] = cp.shared_state(R1a, R1b)
        ends = mids + [(n_, cp.observe(X), obs_U) for n_, X in (("first-checkpoint:a", R1a), ("first-checkpoint:b", R1b),
                                                                ("second-checkpoint", R2), ("third-checkpoint", R3), ("source", B))]
    except Exception:
        import traceback
        ctx.pred_fail("double-raises", "a history with two checkpoints (save, run, save, reload the first, run) raised", case,
                      observed=traceback.format_exc()[-1500:], required="no exception")
        return
    finally:
        wipe()
    ctx.mark(("double", store, cfg["obj_type"], cfg["num_probes"], len(d["mid"]), len(d["post"])))
    ctx.sample(case, limit=1)
    for name, names in shared.items():
        if names:
            ctx.pred_fail("double-shares-state", f"two live objects ({name}) hold the same training-state objects (is-identity)", case,
                          observed=names[:12], required="no shared Parameter / optimizer / scheduler / model object")
    for name, got, ref in reports:
        dev = cp.compare(got, ref)
        bad = {k: ("different" if v == float("inf") or v != v else v) for k, v in dev.items() if v != 0.0 and k != "snapshots"}
        if bad:
            ctx.pred_fail("double-reports-differently", f"{name}: the reloaded object does not report the saved state", case,
                          observed={"differs": bad, "got": cp.summary(got)}, required=cp.summary(ref))
    for name, o, ref in ends:
        dev = cp.compare(o, ref)
        dev.pop("snapshots_exact")
        for k in observables:
            if dev[k] != float("inf") and dev[k] == dev[k]:
                ctx.stat_max(f"double:{name.split(' ')[0]}:{k}", dev[k])
        bad = {k: ("different" if v == float("inf") or v != v else v) for k, v in dev.items() if not (v <= tol)}
        if bad:
            ctx.pred_fail("double-continue-differs", f"{name}: continuing differs from the uninterrupted run beyond {tol:g} (relative)", case,
                          observed={"differs": bad, "got": cp.summary(o)}, required=cp.summary(ref))
