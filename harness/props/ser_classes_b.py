"""A SECOND importable module whose AutoSerialize classes carry the SAME names as those of
`ser_classes` (C01, growth 6): load() resolves a class by module + qualname, so a graph that holds
`ser_classes.SA` and `ser_classes_b.SA` side by side must come back with each object in its own class
(a class-resolution memo keyed by the bare class name would confuse them)."""
from quantem.core.io.serialize import AutoSerialize


class SA(AutoSerialize):
    pass


class SB(AutoSerialize):
    pass


class Outer:
    class SA(AutoSerialize):        # qualname "Outer.SA": a dotted qualname next to the two plain "SA"s
        pass
