"""C13 — growth round 6 streams (imported by c13.py).  Everything here is a FIXED block: the cases do not depend on
VERIF_SEED (images come from `Rng(<constant>)`), they enumerate the input classes of the round-6 themes:

* unit shifts of exactly -1 px / +1 px on each axis separately (coarse peak on index 1 / on the LAST index of that axis),
  shifts at and beyond half the size, on H < W and H > W images, NumPy factors 1, 2, 3, 10, 16, 100, 128 and torch factors
  1, 2 (half-pixel branch), 3, 10, 100 (upsampled branch)  -> re-uses `case_upint` (predicates + float64 model);
* max_shift at its boundary (the true lag exactly ON the radius: masked, `>=`; one ulp / half a pixel outside it: visible) on
  non-square shapes with the lag along the COLUMN axis only / the row axis only -> re-uses `case_exact` (exact model);
* a caller that computes its FFTs once and re-uses them (`fft_input=True, return_shifted_image=True`, real and Fourier
  output) -> re-uses `case_history`;
* `altshape`: one module, calls alternating between image pairs of different shapes (H x W, W x H, same pixel count /
  same first axis / same second axis), `max_shift` set (a mask per shape), both estimators;
* `subrep`: one shape and factor, the SUB-PIXEL translation changes between calls and returns to an earlier value (bound 1/up per call
  + equality with a freshly loaded module);
* `phase`: the third estimator of the anchored files, tomography.utils.torch_phase_cross_correlation, against
  `Registration.phaseCorr` (driver op `phase`, exact) + the integer-shift predicate;
* `users2`: the users of the estimators with sign-asymmetric inputs: direct_ptycho_utils.align_vbf_stack_multiscale
  (reference mode and pairwise mode with graph synchronisation: the returned shifts AND the aligned stack),
  _compute_pairwise_shifts with pairs in both orders, tomography.utils.cross_correlation_align_stack with +-1 px on one axis;
* drift: `align_translation` on H < W and H > W canvases with single-axis negative shifts -> re-uses `case_drift`.
"""
import contextlib
import io

import numpy as np


def _B():
    from props import c13
    return c13


def _img(seed, M, N):
    """a fixed non-negative integer image with a unique autocorrelation peak (independent of VERIF_SEED)"""
    from qv.prng import Rng
    B = _B()
    for k in range(50):
        img = B.gen_int_image(Rng(7919 * seed + 104729 * k + 13 * M + N), M, N)
        a = np.array(img, dtype=float)
        if B.unique_peak(B.cc_int(a, a))[0]:
            return img
    raise RuntimeError("no image with a unique autocorrelation peak")


SHAPES = [(5, 8), (8, 5), (6, 9), (9, 6), (7, 7)]
UNIT = [[1, 0], [-1, 0], [0, 1], [0, -1]]


def fixed_cases():
    """the fixed block (list of case dicts of the streams exact / upint / history / drift / g6-*)"""
    out = []
    # ---- unit shifts, half, beyond half x factors (both estimators run at the same factor)
    k = 0
    for si, (M, N) in enumerate(SHAPES):
        img = _img(si, M, N)
        shifts = UNIT + [[M // 2, 0], [0, N // 2], [M // 2 + 1, -(N // 2 + 1)], [M - 1, N - 1]]
        for ti, t in enumerate(shifts):
            ups = [1, 2, 3] if ti < 4 else [2, 3]
            ups = ups + [[10, 16, 100, 128][(k // 1) % 4]]
            for up in ups:
                out.append({"stream": "upint", "img": img, "t": t, "up": up, "drv": up <= 3 or (up == 10 and ti < 2),
                            "swap": True, "positional": (k % 3 == 0), "g6": "unit" if ti < 4 else "far"})
            k += 1
    # ---- max_shift at its boundary, lag along one axis only, non-square both ways
    for si, (M, N) in enumerate([(5, 8), (8, 5), (7, 10)]):
        img = _img(10 + si, M, N)
        for t in ([0, -2], [2, 0], [0, 3], [-1, 0], [0, 1]):
            r = float(max(abs(t[0]), abs(t[1])))
            for ms in (r, float(np.nextafter(r, 10.0)), r + 0.5, r - 0.5 if r > 1 else 0.5):
                out.append({"stream": "exact", "img": img, "kind": "copy", "t": t, "tup": 1 + (len(out) % 2), "positional": False,
                            "opts": {"max_shift": ms, "fft_input": bool(len(out) % 2), "ret": True, "fft_output": bool(len(out) % 4 == 0)},
                            "g6": "ms-boundary"})
    # ---- a caller re-using its FFT arrays: first call returns the aligned image, then again, then swapped
    for si, (M, N) in enumerate([(5, 8), (8, 5), (6, 6)]):
        img = _img(20 + si, M, N)
        for t, up in (([0, -1], 1), ([1, 0], 2), ([0, N // 2 + 1], 4), ([M - 1, 1], 10)):
            for fo in (False, True):
                out.append({"stream": "history", "img": img, "t": t, "up": up, "tup": [1, 2, 4][len(out) % 3], "fft_input": True,
                            "max_shift": None if len(out) % 2 else 32,
                            "calls": [{"ret": True, "fft_output": fo, "swap": False}, {"ret": True, "fft_output": not fo, "swap": False},
                                      {"ret": False, "fft_output": False, "swap": True}, {"ret": True, "fft_output": fo, "swap": False}],
                            "g6": "fft-reuse"})
    # ---- alternating shapes
    for i, shapes in enumerate([[(5, 8), (8, 5)], [(4, 10), (5, 8), (10, 4)], [(6, 7), (6, 9), (8, 7)], [(7, 7), (7, 5), (5, 7)]]):
        for fam, up, ms in (("np", 1, 3.5), ("np", 4, 3.5), ("np", 3, None), ("torch", 2, None), ("torch", 4, None)):
            out.append({"stream": "g6-altshape", "shapes": [list(s) for s in shapes], "fam": fam, "up": up, "max_shift": ms,
                        "seed": 30 + i, "order": [0, 1, 0, 2 % len(shapes), 1, 0, 0, 1]})
    # ---- same shape, same factor, the sub-pixel translation changes between calls (and comes back): anything remembered from the
    #      previous call (kernels, ramps, peak positions) must not leak into the next one
    for i, (M, N) in enumerate([(9, 12), (12, 9), (10, 10)]):
        for fam, up in (("np", 4), ("np", 8), ("np", 16), ("torch", 4), ("torch", 8)):
            out.append({"stream": "g6-subrep", "M": M, "N": N, "sub": 600 + i, "fam": fam, "up": up,
                        "ts": [[0.2, -0.3], [0.45, -0.05], [-0.3, 0.2], [0.2, -0.3], [1.2, -0.3], [0.0, 0.0], [0.45, -0.05]]})
    # ---- torch_phase_cross_correlation
    for si, (M, N) in enumerate(SHAPES + [(4, 6), (3, 3)]):
        img = _img(40 + si, M, N)
        for t in UNIT + [[0, 0], [M // 2, N // 2], [M // 2 + 1, 0], [0, N // 2 + 1], [M - 1, N - 1], [-2, 2]]:
            out.append({"stream": "g6-phase", "img": img, "t": t, "tdtype": "float64" if (len(out) % 2) else "float32"})
    # ---- users
    for si, (M, N) in enumerate([(8, 11), (11, 8), (9, 9)]):
        img = _img(50 + si, M, N)
        for ts in ([[0, 0], [0, -1], [1, 0], [-2, 2]], [[1, 1], [0, 2], [-1, 0], [0, -1]]):
            for up in (2, 4):
                out.append({"stream": "g6-users", "img": img, "ts": ts, "up": up, "mask": [2, 2] if up == 2 else [1, 4]})
    # ---- drift align_translation: H < W and H > W, single-axis negative shifts
    for i, (H, W) in enumerate([(5, 9), (9, 5), (7, 7)]):
        for up, ts in ((1, [[0, 0], [0, -1], [1, 0]]), (2, [[0, 0], [-1, 0], [0, 2]]), (8, [[0, 0], [0, 1], [0, -2], [-2, 0]])):
            out.append({"stream": "drift", "H": H, "W": W, "pad": 0.25, "deg": 0, "nk": 1, "n": len(ts), "up": up, "ts": ts,
                        "max_shift": 32, "sub": 1000 + 17 * i + up})
    return out


# ---------------------------------------------------------------------------------------

def case_altshape(ctx, case):
    """one module, pairs of different shapes called alternately: every call must return the translation of ITS pair"""
    import torch
    B = _B()
    iu = B._iu()
    pairs = []
    for k, (M, N) in enumerate(case["shapes"]):
        img = np.array(_img(case["seed"] * 10 + k, M, N), dtype=float)
        t = [[1, -2], [-1, 0], [0, N // 2 + 1]][k % 3]
        pairs.append((img, np.roll(img, (t[0], t[1]), (0, 1)), t, M, N))
    fam, up, ms = case["fam"], case["up"], case["max_shift"]
    ctx.count()
    ctx.dist[f"g6-altshape:{fam},up={up},max_shift={'set' if ms is not None else 'none'}"] += 1
    for step, pi in enumerate(case["order"]):
        ref, im, t, M, N = pairs[pi]
        c = dict(case, failing_call=step)
        swapped = step % 3 == 2
        a, b, tt = (im, ref, [-t[0], -t[1]]) if swapped else (ref, im, t)
        if fam == "np":
            ct = (B.centred(-tt[0], M), B.centred(-tt[1], N))
            if ms is not None and not (ct[0] ** 2 + ct[1] ** 2 < ms ** 2):
                continue
            with np.errstate(all="ignore"):
                r = iu.cross_correlation_shift(a.copy(), b.copy(), upsample_factor=up, max_shift=ms, return_shifted_image=True)
            sh = np.asarray(r[0], dtype=float)
            B.pred_integer_shift(ctx, c, "np-altshape", sh, M, N, tt, up, B.TOL64)
            okA, dA = B.close(np.asarray(r[1]), a, 1e-7)
            if not okA:
                ctx.pred_fail(f"np-altshape-aligned-image-{B.up_key(up)}", "aligned image does not reproduce the reference (calls alternating between shapes)",
                              c, observed=float(dA), required="== reference")
        else:
            r = iu.cross_correlation_shift_torch(torch.tensor(a), torch.tensor(b), upsample_factor=up)
            B.pred_integer_shift(ctx, c, "torch-altshape", np.asarray(r.numpy(), dtype=float), M, N, tt, up, B.TOL64 if up <= 2 else B.TOL32)
    ctx.mark(("g6-altshape", fam, up, ms is not None, tuple(tuple(s) for s in case["shapes"])))
    ctx.sample(case, limit=2)


def case_subrep(ctx, case):
    """one band-limited image, one shape, one factor; a sequence of calls whose sub-pixel translation changes: each call is held to
    the property's bound (1/upsample_factor) and to the result of a freshly loaded module on the same inputs"""
    import torch
    from qv.prng import Rng
    from props import c13_ext as X
    B = _B()
    iu = B._iu()
    M, N, up, fam = case["M"], case["N"], case["up"], case["fam"]
    coefs = B.gen_coefs(Rng(case["sub"]), M, N)
    ref = B.synth(coefs, M, N)
    ctx.count()
    ctx.dist[f"g6-subrep:{fam},up={up}"] += 1
    for step, t in enumerate(case["ts"]):
        fresh = X.fresh_iu()      # a new copy per call: no state of its own either
        im = B.synth(coefs, M, N, t)
        c = dict(case, failing_call=step)
        if fam == "np":
            with np.errstate(all="ignore"):
                o = np.asarray(iu.cross_correlation_shift(ref.copy(), im.copy(), upsample_factor=up), dtype=float)
                f = np.asarray(fresh.cross_correlation_shift(ref.copy(), im.copy(), upsample_factor=up), dtype=float)
            tol = B.TOL64
        else:
            o = np.asarray(iu.cross_correlation_shift_torch(torch.tensor(ref), torch.tensor(im), upsample_factor=up).numpy(), dtype=float)
            f = np.asarray(fresh.cross_correlation_shift_torch(torch.tensor(ref), torch.tensor(im), upsample_factor=up).numpy(), dtype=float)
            tol = B.TOL32
        B.pred_subpixel(ctx, c, f"{fam}-subrep" if fam != "np" else "np", o, M, N, t, up)
        okF, dF = B.cmp_shift(o, f, M, N, tol)
        if not okF:
            ctx.disagree(f"g6-subrep-{fam}-vs-fresh-module", c, {"shift": [float(v) for v in f]}, {"shift": [float(v) for v in o]},
                         note="a call differs from the same call on a freshly loaded copy of imaging_utils.py (state carried between calls)")
    ctx.mark(("g6-subrep", fam, up, B.shape_sig(M, N)))
    ctx.sample(case, limit=1)


def _tomo_utils():
    from quantem.tomography import utils as tu
    return tu


def case_phase(ctx, drv, case):
    """tomography.utils.torch_phase_cross_correlation vs Registration.phaseCorr (exact) + integer-shift predicate"""
    import torch
    B = _B()
    fn = getattr(_tomo_utils(), "torch_phase_cross_correlation", None)
    if fn is None:
        ctx.extra["g6-phase: skipped"] = "tomography.utils.torch_phase_cross_correlation not found"
        return
    img = case["img"]
    M, N = len(img), len(img[0])
    ref = np.array(img, dtype=float)
    t = case["t"]
    im = np.roll(ref, (t[0], t[1]), (0, 1))
    dt = torch.float64 if case["tdtype"] == "float64" else torch.float32
    ctx.count()
    ctx.dist[f"g6-phase:{case['tdtype']}"] += 1
    ctx.dist[f"g6-phase:shift={B.shift_class(t, M, N)}"] += 1
    ta, tb = torch.tensor(ref, dtype=dt), torch.tensor(im, dtype=dt)
    ta0, tb0 = ta.clone(), tb.clone()
    r = fn(ta, tb)
    obs = np.asarray(r.detach().cpu().numpy(), dtype=float).ravel()
    if not (torch.equal(ta, ta0) and torch.equal(tb, tb0)):
        ctx.pred_fail("torch-phase-input-modified", "torch_phase_cross_correlation modified an input tensor in place", case,
                      observed="changed", required="inputs bit-identical after the call")
    m = B.ask(drv, {"op": "phase", "ref": [[int(v) for v in row] for row in ref], "im": [[int(v) for v in row] for row in im]})
    if B.rat(m["gap"]) == 0:
        ctx.dist["g6-phase:rejected(non-unique peak)"] += 1
        return
    ms = [float(m["shift"][0]), float(m["shift"][1])]
    if obs.size != 2 or not (obs[0] == ms[0] and obs[1] == ms[1]):
        ctx.disagree("g6-phase", case, {"shift": ms}, {"shift": [float(v) for v in obs]},
                     note="torch_phase_cross_correlation vs Registration.phaseCorr (first maximum of |cc|, per-axis centring `> dim // 2`)")
    # property: the applied translation, negated, modulo the cell, in the window (-dim/2, dim/2]
    exp = (B.centred(-t[0], M), B.centred(-t[1], N))
    ok = obs.size == 2 and B.mod_dist(obs[0], exp[0], M) == 0 and B.mod_dist(obs[1], exp[1], N) == 0 \
        and -M / 2.0 < obs[0] <= M / 2.0 and -N / 2.0 < obs[1] <= N / 2.0
    if not ok:
        ident = (t[0] % M == 0 and t[1] % N == 0)
        ctx.pred_fail("torch-phase-identical" if ident else "torch-phase-integer-shift",
                      "torch_phase_cross_correlation does not return the applied integer translation (negated: shift that maps the second image onto the first)",
                      case, observed=[float(v) for v in obs], required=[exp[0], exp[1]])
    # swapping the two images negates the result (modulo the cell: the tie dim/2 is its own negative)
    rs = np.asarray(fn(tb, ta).detach().cpu().numpy(), dtype=float).ravel()
    if obs.size == 2 and not (rs.size == 2 and B.mod_dist(rs[0], -obs[0], M) == 0 and B.mod_dist(rs[1], -obs[1], N) == 0):
        ctx.pred_fail("torch-phase-swap", "swapping the two images does not negate the result of torch_phase_cross_correlation", case,
                      observed={"ab": [float(v) for v in obs], "ba": [float(v) for v in rs]}, required="ab == -ba (mod shape)")
    ctx.mark(("g6-phase", B.shape_sig(M, N), B.shift_class(t, M, N), case["tdtype"]))
    ctx.sample(case, limit=2)


def case_users(ctx, case):
    """users of the estimators, sign-asymmetric stacks: the returned shifts and the aligned stack"""
    import torch
    from quantem.diffractive_imaging import direct_ptycho_utils as dpu
    B = _B()
    img = case["img"]
    M, N = len(img), len(img[0])
    ref = np.array(img, dtype=float)
    ts, up = case["ts"], case["up"]
    ctx.count()
    ctx.dist[f"g6-users:up={up}"] += 1
    stack = np.stack([np.roll(ref, (t[0], t[1]), (0, 1)) for t in ts])
    tstack = torch.tensor(stack, dtype=torch.float32)
    tol_img = 5e-4 * max(1.0, float(np.max(np.abs(ref))))
    n = len(ts)
    # -- pairwise shifts with pairs in both orders
    pw = getattr(dpu, "_compute_pairwise_shifts", None)
    if pw is None:
        ctx.extra["g6-users: pairwise skipped"] = "_compute_pairwise_shifts not found"
    else:
        pairs = torch.tensor([[i, j] for i in range(n) for j in range(n) if i != j and (i + 2 * j) % 3 != 0])
        for (i, j, s) in pw(tstack, pairs, upsample_factor=up):
            tt = [ts[j][0] - ts[i][0], ts[j][1] - ts[i][1]]
            B.pred_integer_shift(ctx, dict(case, pair=[int(i), int(j)]), "torch-user-pairwise", np.asarray(s.numpy(), dtype=float), M, N, tt, up, B.TOL32)
    # -- multiscale alignment at full resolution: reference mode, then pairwise mode (graph synchronisation)
    ms_fn = getattr(dpu, "align_vbf_stack_multiscale", None)
    if ms_fn is None:
        ctx.extra["g6-users: multiscale skipped"] = "align_vbf_stack_multiscale not found"
    else:
        Q, R = case["mask"]
        mask = torch.ones((Q, R), dtype=torch.bool)
        ii, jj = torch.where(mask)
        with contextlib.redirect_stderr(io.StringIO()):
            g, al = ms_fn(tstack.clone(), mask, ii, jj, bin_factors=(1,), upsample_factor=up, reference=torch.tensor(ref, dtype=torch.float32), verbose=False)
        g = np.asarray(g.numpy(), dtype=float)
        for k, t in enumerate(ts):
            B.pred_integer_shift(ctx, dict(case, member=k), "torch-user-multiscale-reference", g[k], M, N, t, up, B.TOL32)
        d = float(np.max(np.abs(np.asarray(al.numpy(), dtype=float) - ref[None])))
        ctx.stat_max("g6-users: aligned stack vs reference (reference mode)", d)
        if not d <= tol_img:
            ctx.pred_fail(f"torch-user-multiscale-aligned-{B.up_key(up)}", "align_vbf_stack_multiscale(reference=...): the aligned stack does not reproduce the reference "
                          "(translating each image by its returned shift)", case, observed=d, required=f"<= {tol_img}")
        with contextlib.redirect_stderr(io.StringIO()):
            g2, al2 = ms_fn(tstack.clone(), mask, ii, jj, bin_factors=(1,), pair_connectivity=4, upsample_factor=up, verbose=False)
        g2 = np.asarray(g2.numpy(), dtype=float)
        # gauge: node 0 is anchored, so image k is brought onto image 0: shift = -(t_k - t_0)
        for k, t in enumerate(ts):
            tt = [t[0] - ts[0][0], t[1] - ts[0][1]]
            B.pred_integer_shift(ctx, dict(case, member=k), "torch-user-multiscale-pairwise", g2[k], M, N, tt, up, 5e-3)
        d2 = float(np.max(np.abs(np.asarray(al2.numpy(), dtype=float) - stack[0][None])))
        ctx.stat_max("g6-users: aligned stack vs image 0 (pairwise mode)", d2)
        if not d2 <= 20 * tol_img:
            ctx.pred_fail(f"torch-user-multiscale-pairwise-aligned-{B.up_key(up)}", "align_vbf_stack_multiscale (pairwise): the aligned stack does not reproduce image 0",
                          case, observed=d2, required=f"<= {20 * tol_img}")
    # -- tomography: the first prediction is against an exactly periodic copy
    cas = getattr(_tomo_utils(), "cross_correlation_align_stack", None)
    if cas is not None:
        for t in ts[1:3]:
            with contextlib.redirect_stderr(io.StringIO()):
                _, pred = cas(ref, np.roll(ref, (t[0], t[1]), (0, 1))[None])
            B.pred_integer_shift(ctx, dict(case, tomo_t=t), "np-user-tomography", np.asarray(pred[0], dtype=float), M, N, t, 1, B.TOL64)
    ctx.mark(("g6-users", B.shape_sig(M, N), up, tuple(case["mask"])))
    ctx.sample(case, limit=1)


def run_case(ctx, drv, case):
    s = case["stream"]
    if s == "g6-altshape":
        case_altshape(ctx, case)
    elif s == "g6-subrep":
        case_subrep(ctx, case)
    elif s == "g6-phase":
        case_phase(ctx, drv, case)
    elif s == "g6-users":
        case_users(ctx, case)
    else:
        raise ValueError(s)
