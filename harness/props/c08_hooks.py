"""Fault injection for C08 at LIBRARY-level primitives (zarr group / attribute / array / data
writes, zipfile.ZipFile open / write / close, os.replace / rename / remove / unlink / rmdir /
makedirs / mkdir, shutil.rmtree / move, dill.dumps / torch.save).

Nothing here depends on a private name of quantem: the counting hooks sit on the libraries the
serializer calls, so renaming or inlining `AutoSerialize._write_ndarray/_write_bytes`, importing
`os.replace` by name, or going through pathlib does not change what is counted.  The two private
helpers are used ONLY to LABEL a created array as "array" or "bytes" for the write-order
comparison with `traceSave`; they are resolved defensively — if one is gone the label is
"data" for both, the comparison collapses the two classes, and the evidence says so
(`private_label_hooks_missing`)."""
import contextlib
import os
import threading


class Injected(Exception):
    pass


class InjectedInterrupt(KeyboardInterrupt):
    """'fails part-way for any reason' includes interruptions that are not `Exception`s"""


class InjectedExit(SystemExit):
    """... and `SystemExit` raised by a signal handler / a callee"""


class InjectedOSError(OSError):
    """... and the errors a full or failing disk produces (ENOSPC / EIO)"""


EXC_CLASSES = (Injected, InjectedInterrupt, InjectedExit, InjectedOSError)


class Recorder:
    """records the primitive calls made by save(); raises at the k-th one.

    kinds: w:group-root w:group w:attr w:array w:bytes w:data (store writes), ser:dill ser:torch
    (value -> bytes conversions), stage:mkdir, zip:open zip:write zip:close, install:remove
    install:replace"""

    def __init__(self, target, fault=None, exc_cls=None, chunk_level=False):
        # chunk_level: ALSO count (kind "w:chunk") every store-level write (zarr LocalStore.set) made below an
        # array-data write — the chunk files of a large array are then fault positions of their own.  A store
        # write that failed keeps failing for the rest of that save (a full disk stays full): zarr issues the
        # chunk writes of one assignment as concurrent tasks and does not cancel the others when one raises
        # (with chunk_level the array-data writes are counted on ANY thread: a library or the serializer may hand
        # the slabs of a large array to worker threads — an error raised there is an error of the save)
        self.chunk_level = chunk_level
        self.data_any_thread = chunk_level
        self._tl = threading.local()
        self._lock = threading.Lock()
        self.in_data = 0
        self.struck = False
        self.persistent = True
        self.target = os.path.abspath(target)
        self.base = os.path.dirname(self.target)
        self.fault = fault
        self.exc_cls = exc_cls or Injected
        self.trace = []
        self.active = False
        self.thread = None
        self.labels = []
        self.notes = set()

    def start(self):
        self.thread = threading.get_ident()
        self.active = True

    def stop(self):
        self.active = False

    @property
    def depth(self):
        return getattr(self._tl, "depth", 0)

    @depth.setter
    def depth(self, v):
        self._tl.depth = v

    def mine(self):
        return self.active and self.depth == 0 and threading.get_ident() == self.thread

    def mine_data(self):
        """an array-data write: the calling thread, or (chunk_level) any thread"""
        return self.active and self.depth == 0 and (self.data_any_thread or threading.get_ident() == self.thread)

    def hit(self, kind, in_event_loop=False):
        """in_event_loop: the caller runs inside a library's asyncio loop — asyncio re-raises KeyboardInterrupt /
        SystemExit in the loop thread itself (the loop dies, every later call hangs), so only `Exception`s are raised there"""
        if not self.active:
            return
        with self._lock:
            idx = len(self.trace)
            self.trace.append(kind)
        if self.fault is not None and idx == self.fault:
            cls = self.exc_cls
            if in_event_loop and not issubclass(cls, Exception):
                cls = InjectedOSError
            if issubclass(cls, OSError):
                raise cls(28, f"injected at #{idx} ({kind}): No space left on device")
            raise cls(f"injected at #{idx} ({kind})")

    @contextlib.contextmanager
    def inside(self):
        self.depth += 1
        try:
            yield
        finally:
            self.depth -= 1


def _abs(p):
    try:
        return os.path.abspath(os.fspath(p))
    except TypeError:
        return None


@contextlib.contextmanager
def instrumented(rec):
    import zipfile

    import dill
    import torch
    import zarr
    import zarr.core.array
    import zarr.core.attributes
    import zarr.core.group
    import shutil
    from quantem.core.io import serialize

    patches = []          # (owner, name, original)
    replaced = {}         # id(original) -> wrapper, for names imported into the serializer's namespace

    def patch(owner, name, make, static=False):
        if not hasattr(owner, name):
            return
        orig = getattr(owner, name)
        raw = owner.__dict__.get(name, orig) if isinstance(owner, type) else orig
        wrapper = make(orig)
        patches.append((owner, name, raw))
        setattr(owner, name, staticmethod(wrapper) if static else wrapper)
        replaced[id(orig)] = wrapper

    # ---------------------------------------------------------------- counted primitives
    def counted(kind_of, mine=None):
        """wrap f: when called by save() (outermost, calling thread) record kind_of(args) first"""
        mine = mine or rec.mine

        def make(orig):
            def w(*a, **k):
                if not mine():
                    return orig(*a, **k)
                kind = kind_of(*a, **k)
                if kind is not None:
                    rec.hit(kind)
                with rec.inside():
                    return orig(*a, **k)
            w.__name__ = getattr(orig, "__name__", "wrapped")
            return w
        return make

    def const(kind):
        return lambda *a, **k: kind

    def array_kind(*a, **k):
        return "w:" + (rec.labels[-1] if rec.labels else "data?")

    # zarr: root group, groups, attributes, arrays, data
    for nm in ("group", "open_group", "create_group", "open"):
        patch(zarr, nm, counted(const("w:group-root")))
    G, A, AR = zarr.core.group.Group, zarr.core.attributes.Attributes, zarr.core.array.Array
    for nm in ("require_group", "create_group", "require_groups", "create_hierarchy"):
        patch(G, nm, counted(const("w:group")))
    for nm in ("create_array", "create", "require_array", "array", "empty", "zeros", "ones", "full", "__setitem__",
               "create_dataset", "require_dataset"):
        patch(G, nm, counted(array_kind))
    for nm in ("__setitem__", "put", "__delitem__"):
        patch(A, nm, counted(const("w:attr")))
    for nm in ("update_attributes",):
        patch(G, nm, counted(const("w:attr")))
        patch(AR, nm, counted(const("w:attr")))
    def counted_data(orig):
        inner = counted(const("w:data"), rec.mine_data)(orig)

        def w(*a, **k):
            with rec._lock:
                rec.in_data += 1
            try:
                return inner(*a, **k)
            finally:
                with rec._lock:
                    rec.in_data -= 1
        w.__name__ = getattr(orig, "__name__", "wrapped")
        return w

    for nm in ("__setitem__", "set_basic_selection", "set_orthogonal_selection", "set_mask_selection",
               "set_coordinate_selection", "set_block_selection", "append", "resize"):
        patch(AR, nm, counted_data)

    # store-level writes below an array-data write (only when the recorder asks for them)
    if rec.chunk_level:
        try:
            from zarr.storage import LocalStore as _LS
        except Exception:  # noqa
            _LS = None
            rec.notes.add("chunk_level_hook_missing:zarr.storage.LocalStore")

        def chunk_make(orig):
            async def w(self, *a, **k):
                key = a[0] if a else k.get("key")
                if rec.struck and rec.persistent and isinstance(key, str) and key.startswith(rec.struck):
                    # (also after the assignment has raised: its other chunk tasks are still running; only the
                    # chunk files of the SAME array keep failing — later metadata writes are not touched)
                    raise InjectedOSError(28, "injected: No space left on device (still)")
                if rec.active and rec.in_data > 0:
                    try:
                        rec.hit("w:chunk", in_event_loop=True)
                    except BaseException:
                        if isinstance(key, str) and "/c/" in key:
                            rec.struck = key[: key.find("/c/") + 3]        # "<array>/c/": the chunk files of this array
                        elif isinstance(key, str) and "/" in key:
                            rec.struck = key.rsplit("/", 1)[0] + "/"
                        else:
                            rec.struck = str(key) or "?"
                        raise
                return await orig(self, *a, **k)
            return w
        if _LS is not None:
            for nm in ("set", "set_if_not_exists"):
                if nm in _LS.__dict__:
                    patches.append((_LS, nm, _LS.__dict__[nm]))
                    setattr(_LS, nm, chunk_make(_LS.__dict__[nm]))

    # value -> bytes conversions (an exception from a callee, part-way through the object graph)
    patch(dill, "dumps", counted(const("ser:dill")))
    patch(dill, "dump", counted(const("ser:dill")))
    patch(torch, "save", counted(const("ser:torch")))

    # filesystem entries next to the target
    def mk_kind(p, *a, **k):
        ap = _abs(p)
        return "stage:mkdir" if ap is not None and os.path.dirname(ap) == rec.base else None

    def rm_kind(p, *a, **k):
        return "install:remove" if _abs(p) == rec.target else None

    def mv_kind(src, dst, *a, **k):
        if _abs(dst) == rec.target:
            return "install:replace"
        if _abs(src) == rec.target:
            return "install:remove"     # the old target is moved out of the way
        return None

    for nm in ("makedirs", "mkdir"):
        patch(os, nm, counted(mk_kind))
    for nm in ("remove", "unlink", "rmdir"):
        patch(os, nm, counted(rm_kind))
    for nm in ("replace", "rename"):
        patch(os, nm, counted(mv_kind))
    patch(shutil, "rmtree", counted(rm_kind))
    patch(shutil, "move", counted(mv_kind))

    # zip assembly: every archive opened for writing below the sandbox
    Z = zipfile.ZipFile
    z_init, z_write, z_writestr, z_close = Z.__init__, Z.write, Z.writestr, Z.close

    def zinit(self, file, mode="r", *a, **k):
        ap = _abs(file) if isinstance(file, (str, os.PathLike)) else None
        self._qv = bool(rec.mine() and mode in ("w", "x", "a") and ap is not None and ap.startswith(rec.base + os.sep))
        if self._qv:
            rec.hit("zip:open")
        with rec.inside():
            return z_init(self, file, mode, *a, **k)

    def zwrite(self, *a, **k):
        if getattr(self, "_qv", False) and rec.mine():
            rec.hit("zip:write")
        with rec.inside():
            return z_write(self, *a, **k)

    def zwritestr(self, *a, **k):
        if getattr(self, "_qv", False) and rec.mine():
            rec.hit("zip:write")
        with rec.inside():
            return z_writestr(self, *a, **k)

    def zclose(self):
        if getattr(self, "_qv", False) and self.fp is not None and not getattr(self, "_qv_closed", False) and rec.mine():
            self._qv_closed = True
            try:
                rec.hit("zip:close")
            except BaseException:
                with rec.inside():
                    z_close(self)   # the OS handle is released; the archive stays where it was being written
                raise
        with rec.inside():
            return z_close(self)

    for nm, w in (("__init__", zinit), ("write", zwrite), ("writestr", zwritestr), ("close", zclose)):
        patches.append((Z, nm, Z.__dict__[nm]))
        setattr(Z, nm, w)

    # ---------------------------------------------------------------- names imported into the serializer module
    # (`from os import replace`, `from shutil import rmtree`, `from zarr import group` ... keep the
    # original function object in the module's namespace: swap those too, by identity)
    for name, val in list(vars(serialize).items()):
        wpr = replaced.get(id(val))
        if wpr is not None and not name.startswith("__"):
            patches.append((serialize, name, val))
            setattr(serialize, name, wpr)

    # ---------------------------------------------------------------- private helpers: LABELS only
    def labelled(label):
        def make(orig):
            def w(*a, **k):
                rec.labels.append(label)
                try:
                    return orig(*a, **k)
                finally:
                    rec.labels.pop()
            return w
        return make

    AS = getattr(serialize, "AutoSerialize", None)
    for nm, label in (("_write_ndarray", "array"), ("_write_bytes", "bytes")):
        raw = AS.__dict__.get(nm) if AS is not None else None
        if raw is None:
            rec.notes.add(f"private_label_hook_missing:{nm}")
            continue
        fn = raw.__func__ if isinstance(raw, (staticmethod, classmethod)) else raw
        patches.append((AS, nm, raw))
        if isinstance(raw, staticmethod):
            setattr(AS, nm, staticmethod(labelled(label)(fn)))
        elif isinstance(raw, classmethod):
            setattr(AS, nm, classmethod(labelled(label)(fn)))
        else:
            setattr(AS, nm, labelled(label)(fn))
    try:
        yield
    finally:
        for owner, name, raw in reversed(patches):
            setattr(owner, name, raw)


W_CLASS = {"w:group-root": "group", "w:group": "group", "w:attr": "attr", "w:array": "array", "w:bytes": "bytes",
           "w:data?": "data"}


def write_classes(trace):
    """the store writes of a recorded trace as the classes of `traceSave` (group / attr / array /
    bytes); the chunk-data write that follows an array creation (`w:data`) belongs to the same
    logical write and is left out.  Second result: True when arrays and byte blobs could not be told
    apart (private label hooks missing) — the caller then compares with both collapsed to "data"."""
    out = [W_CLASS[t] for t in trace if t in W_CLASS]
    return out, ("data" in out)


def collapse(ws):
    return ["data" if w in ("array", "bytes", "data") else w for w in ws]


def to_steps(trace, zip_store):
    """map recorded primitives to the steps of Model/SaveFs.lean"""
    out = []
    for t in trace:
        if t == "stage:mkdir" or t == "zip:open":
            out.append("stageOpen")
        elif t.startswith("w:") or t.startswith("ser:"):
            out.append("tmpWrite" if zip_store else "stageWrite")
        elif t == "zip:write":
            out.append("stageWrite")
        elif t == "zip:close":
            out.append("stageFinish")
        elif t == "install:remove":
            out.append("removeOld")
        elif t == "install:replace":
            out.append("replace")
    if not zip_store:
        # the last staging write (second attribute of write_skip_metadata) completes the object
        idx = max((i for i, s in enumerate(out) if s == "stageWrite"), default=None)
        if idx is not None and "replace" in out:
            out[idx] = "stageFinish"
    return out
