"""C02 problem factory: real quantem objects (PtychographyDatasetRaster, ObjectPixelated, ProbePixelated,
DetectorPixelated, Ptychography) for a multislice / mixed-state / padded / fractional-step configuration,
ground-truth generators in the conventions of the reference specification (centred arrays), and the
real forward pipeline called method by method in the order of ``Ptychography.reconstruct``.

Extends props/ptycho_tiny.py (single slice, integer steps) — nothing there is modified.
Depends only on numpy, torch, quantem."""
import warnings
from fractions import Fraction

import numpy as np

from props import ptycho_tiny as pt

LOSS_TYPES = ("l2_amplitude", "l1_amplitude", "l2_intensity", "l1_intensity")


def _q():
    import torch
    from quantem.core.datastructures.dataset4dstem import Dataset4dstem
    from quantem.diffractive_imaging.dataset_models import PtychographyDatasetRaster
    from quantem.diffractive_imaging.detector_models import DetectorPixelated
    from quantem.diffractive_imaging.object_models import ObjectPixelated
    from quantem.diffractive_imaging.probe_models import ProbePixelated
    from quantem.diffractive_imaging.ptychography import Ptychography
    import types
    return types.SimpleNamespace(torch=torch, Dataset4dstem=Dataset4dstem, Raster=PtychographyDatasetRaster,
                                 Det=DetectorPixelated, Obj=ObjectPixelated, Probe=ProbePixelated, Pty=Ptychography)


# ----------------------------------------------------------------------------- real objects
def make_dataset(cfg, intensities4d):
    """preprocessed PtychographyDatasetRaster; rotation forced to 0 / no transpose (public arguments);
    descan learning off (the property: descan correction disabled)."""
    Q = _q()
    r0, r1 = cfg["roi"]
    sr, sc = cfg["samp"]            # requested object sampling in A (the library derives it from the reciprocal sampling)
    st_r, st_c = cfg["step"]        # scan step in A
    ds = Q.Dataset4dstem.from_array(array=np.asarray(intensities4d, dtype=np.float32),
                                    sampling=(st_r, st_c, 1.0 / (r0 * sr), 1.0 / (r1 * sc)),
                                    units=("A", "A", "A^-1", "A^-1"))
    pd = Q.Raster.from_dataset4dstem(ds, verbose=0, learn_descan=False, learn_scan_positions=False)
    pd.preprocess(com_fit_function=cfg["com"], plot_rotation=False, plot_com=False, probe_energy=cfg["energy"],
                  force_com_rotation=cfg.get("rotation_deg", 0), force_com_transpose=bool(cfg.get("transpose", False)), vectorized=True)
    return pd


def make_ptycho(cfg, pd, probe_lib):
    """Ptychography.from_models + preprocess on a preprocessed dataset; probe_lib: (K, r0, r1) corner-centred"""
    Q = _q()
    S = cfg["slices"]
    with warnings.catch_warnings():
        warnings.simplefilter("ignore")
        om = Q.Obj.from_uniform(num_slices=S, obj_type=cfg["obj_type"], slice_thicknesses=(list(cfg["dz"]) if S > 1 else None), rng=1)
        pm = Q.Probe.from_array(probe_array=np.asarray(probe_lib, dtype=np.complex64),
                                probe_params={"energy": cfg["energy"], "semiangle_cutoff": 20.0}, rng=1)
        p = Q.Pty.from_models(dset=pd, obj_model=om, probe_model=pm, detector_model=Q.Det(), rng=1, verbose=0)
        p.preprocess(obj_padding_px=tuple(cfg["pad"]), plot_rotation=False, plot_com=False)
    return p


def install_truth(p, cfg, phi, probe_lib):
    """install object and probe: the object through the parameter the optimiser owns (ObjectPixelated has no
    public setter; `obj` applies the hard constraints on top), the probe through the public `probe` setter"""
    torch = _q().torch
    with torch.no_grad():
        if cfg["obj_type"] == "potential":
            p.obj_model._obj.data = torch.tensor(np.asarray(phi), dtype=torch.float32)
        else:
            p.obj_model._obj.data = torch.tensor(np.exp(1j * np.asarray(phi)), dtype=torch.complex64)
    p.probe_model.probe = np.asarray(probe_lib, dtype=np.complex64)


def run_pipeline(p, loss_type, batch_size, order=None):
    """the forward pass of Ptychography.reconstruct, batch by batch, no optimiser step.
    Returns list of dict(indices, loss, pred) (numpy, float64 copies)."""
    torch = _q().torch
    p.dset._set_targets(loss_type)
    n = p.dset.num_gpts
    order = np.arange(n) if order is None else np.asarray(order)
    out = []
    with torch.no_grad():
        for st in range(0, n, batch_size):
            bi = order[st:st + batch_size]
            patch_indices, _pos, frac, descan = p.dset.forward(bi, p.obj_padding_px)
            shifted = p.probe_model.forward(frac)
            patches = p.obj_model.forward(patch_indices)
            _pp, overlap = p.forward_operator(patches, shifted, descan)
            pred = p.detector_model.forward(overlap)
            loss, _t = p.error_estimate(pred, bi, loss_type=loss_type)
            out.append({"indices": [int(i) for i in bi], "loss": float(loss.double().item()),
                        "pred": pred.double().numpy(), "descan_none": descan is None,
                        "shifted": shifted.to(torch.complex128).numpy(), "patches": patches.to(torch.complex128).numpy()})
    return out


# ----------------------------------------------------------------------------- ground truths (spec conventions)
def dy(rng, lo, hi, den):
    return rng.randint(int(round(lo * den)), int(round(hi * den))) / den


def centred_probe(cfg, rng, symmetric):
    """K orthogonal probe modes as CENTRED arrays (origin at pixel N//2): aperture + aberrations in centred
    Fourier coordinates, Gram-Schmidt, strictly decreasing weights, total intensity cfg['counts'].
    symmetric=True: only even aberrations / even mode modulations → psi(-r) = psi(r)."""
    r0, r1 = cfg["roi"]
    K = cfg["modes"]
    kr = (np.arange(r0) - r0 // 2) / r0
    kc = (np.arange(r1) - r1 // 2) / r1
    KR, KC = np.meshgrid(kr, kc, indexing="ij")
    q2 = KR ** 2 + KC ** 2
    cut = cfg["aperture"]
    ap = (np.sqrt(q2) < cut).astype(float)
    if cfg.get("soft_aperture"):
        ap = np.clip((cut - np.sqrt(q2)) * max(r0, r1) / 2 + 0.5, 0, 1)
    c10, c12, phi12, c21 = cfg["aberrations"]
    ang = np.arctan2(KC, KR)
    chi = c10 * q2 + c12 * q2 * np.cos(2 * (ang - phi12))
    if not symmetric:
        chi = chi + c21 * q2 * np.sqrt(q2) * np.cos(ang - 0.3)
    modes = []
    for m in range(K):
        if m == 0:
            mod = np.ones_like(q2)
        elif symmetric:
            mod = np.cos(2 * np.pi * m * (KR * 1.5 + KC * 0.5)) + 0.3 * m * q2
        else:
            mod = np.exp(2j * np.pi * m * (0.8 * KR - 0.6 * KC)) * (1 + m * KR)
        F = ap * np.exp(-1j * chi) * mod
        modes.append(np.fft.fftshift(np.fft.ifft2(np.fft.ifftshift(F))))
    out = []
    for m in range(K):
        v = modes[m].copy()
        for u in out:
            v = v - np.vdot(u, v) * u
        nv = np.linalg.norm(v)
        if nv < 1e-6:
            raise ValueError("degenerate probe modes")
        out.append(v / nv)
    w = mode_powers(cfg, rng)
    return np.array([np.sqrt(w[m]) * out[m] for m in range(K)])


def mode_powers(cfg, rng):
    """distinct powers of the K modes in the ORDER they are installed (the quantifier fixes no order; the library's
    hard constraint re-sorts them strongest-first): cfg['mode_order'] in descending / ascending / mixed / near-equal"""
    K = cfg["modes"]
    order = cfg.get("mode_order", "descending")
    if order == "near-equal":
        w = np.array([1.0 + 0.03 * j for j in range(K)])       # 3 % apart: distinct in float32, almost degenerate
        w = np.array(rng.shuffle(list(w)))
    else:
        w = np.sort(np.array([0.45 ** m for m in range(K)]))[::-1].copy()   # descending
        if order == "ascending":
            w = w[::-1].copy()
        elif order == "mixed" and K >= 3:
            perms = [pm for pm in ([1, 0, 2], [1, 2, 0], [0, 2, 1], [2, 0, 1]) ]
            w = w[np.array(rng.choice(perms))]
        elif order == "mixed":
            w = w[::-1].copy()                                   # K = 2: the only non-descending order
    return w / w.sum() * cfg["counts"]


def sort_modes_by_power(probes):
    """the order the library's probe hard constraint reports: strongest mode first (powers are distinct)"""
    pw = np.sum(np.abs(probes) ** 2, axis=(-2, -1))
    return probes[np.argsort(-pw, kind="stable")]


def object_phase(cfg, rng, H, W, positions, symmetric):
    """unit-amplitude ground truth as phases / potentials, shape (S,H,W), values k/64 in [1/8, 11/8]
    (exact in float32; positive for the potential type).  symmetric=True: point symmetric about the scan centre."""
    S = cfg["slices"]
    kind = cfg["obj_kind"]
    if kind == "rough":
        phi = np.array([dy(rng, 0.125, 1.375, 64) for _ in range(S * H * W)]).reshape(S, H, W)
    else:  # smooth: a few low harmonics of the periodic object box
        yy, xx = np.meshgrid(np.arange(H) / H, np.arange(W) / W, indexing="ij")
        phi = np.zeros((S, H, W))
        for s in range(S):
            a = 0.75 + 0
            for _ in range(3):
                fy, fx = rng.randint(0, 2), rng.randint(0, 2)
                a = a + dy(rng, -0.2, 0.2, 64) * np.cos(2 * np.pi * (fy * yy + fx * xx) + rng.uniform(0, 6.28))
            phi[s] = a
        phi = np.round(np.clip(phi, 0.125, 1.375) * 64) / 64
    if symmetric:
        cen2 = positions.min(0) + positions.max(0)       # 2 * scan centre
        c2 = np.round(cen2).astype(int)
        yy, xx = np.meshgrid(np.arange(H), np.arange(W), indexing="ij")
        y2, x2 = (c2[0] - yy) % H, (c2[1] - xx) % W
        phi = np.round(0.5 * (phi + phi[:, y2, x2]) * 64) / 64
        assert np.array_equal(phi, phi[:, y2, x2])
    return phi


def frac_str(x):
    """exact rational of a float (every float is a dyadic rational) as 'num/den'"""
    f = Fraction(float(x))
    return f"{f.numerator}/{f.denominator}"


# ----------------------------------------------------------------------------- histories of real reconstruct() calls
def reconstruct_call(p, cfg, truth, loss_type, batch_size, reset, autograd=True, pass_optimizer=True):
    """ONE real ``Ptychography.reconstruct(num_iters=1, ...)`` call on the object ``p`` (which carries whatever state earlier
    calls left behind).  Instance-level wrappers only (nothing in /repo is changed):
    * ``error_estimate`` is recorded (batch indices, loss, predicted intensities, the targets it used) — the loss is read before
      any update;
    * ``step_optimizers`` is a no-op, so the parameters stay at the ground truth;
    * ``reset_recon`` (run by ``reset=True``) is followed by re-installing the ground truth: a restarted reconstruction starts
      from the ground truth again (the library resets object and probe to their initial values).
    Returns the list of batch records (numpy float64 copies)."""
    torch = _q().torch
    rec = []
    real_err, real_reset = p.error_estimate, p.reset_recon

    def err(pred, batch_indices, loss_type="l2_amplitude"):
        loss, targets = real_err(pred, batch_indices, loss_type=loss_type)
        rec.append({"indices": [int(i) for i in np.asarray(batch_indices)], "loss": float(loss.detach().double().item()),
                    "pred": pred.detach().double().numpy(), "targets": targets.detach().double().numpy()})
        return loss, targets

    def reset_recon():
        real_reset()
        install_truth(p, cfg, *truth)

    p.error_estimate = err
    p.step_optimizers = lambda: None
    p.reset_recon = reset_recon
    try:
        with pt.no_gc(), torch.enable_grad(), warnings.catch_warnings():
            warnings.simplefilter("ignore")
            p.reconstruct(num_iters=1, reset=reset, batch_size=batch_size, loss_type=loss_type, autograd=autograd,
                          optimizer_params=(pt.sgd_params(0.0, 0.0) if pass_optimizer else None), constraints={})
    finally:
        del p.error_estimate
        del p.step_optimizers
        del p.reset_recon
    return rec


# ----------------------------------------------------------------------------- alternative entry points
def make_ptycho_alternative(cfg, intensities4d, probe_lib, phi, route):
    """the same problem set up through the OTHER public entry points (route: dict of booleans):
    * delegated      the raw (un-preprocessed) dataset model is handed to Ptychography.from_models and ALL dataset preprocessing
                     runs inside ptycho.preprocess(com_fit_function=..., force_com_rotation=..., force_com_transpose=...,
                     obj_padding_px=..., vectorized=..., plot_*=False) — every forwarded argument is passed there
    * vectorized     False: looped centre-of-mass path
    * obj_from_array ground-truth object handed to ObjectPixelated.from_array (public factory) instead of being written later
    * probe_setter   False (single mode only): the probe stays what ProbePixelated.from_array + set_initial_probe make of it
                     (rescaled to the mean pattern intensity, which IS the ground truth's intensity for unit-amplitude objects)
    * dz_attribute   slice thicknesses given through the ptycho.slice_thicknesses attribute after construction (constructor
                     gets a different value) — propagators must be recomputed
    phi may be None when obj_from_array is False and the caller installs the truth.  Returns the Ptychography object."""
    Q = _q()
    torch = Q.torch
    r0, r1 = cfg["roi"]
    sr, sc = cfg["samp"]
    st_r, st_c = cfg["step"]
    S = cfg["slices"]
    kw = dict(com_fit_function=cfg["com"], force_com_rotation=cfg.get("rotation_deg", 0), force_com_transpose=bool(cfg.get("transpose", False)),
              plot_rotation=False, plot_com=False, vectorized=bool(route.get("vectorized", True)))
    with warnings.catch_warnings():
        warnings.simplefilter("ignore")
        ds = Q.Dataset4dstem.from_array(array=np.asarray(intensities4d, dtype=np.float32),
                                        sampling=(st_r, st_c, 1.0 / (r0 * sr), 1.0 / (r1 * sc)), units=("A", "A", "A^-1", "A^-1"))
        pd = Q.Raster.from_dataset4dstem(ds, verbose=0, learn_descan=False, learn_scan_positions=False)
        if not route.get("delegated", True):
            pd.preprocess(probe_energy=cfg["energy"], **kw)
        dz0 = (list(cfg["dz"]) if S > 1 else None)
        if S > 1 and route.get("dz_attribute"):
            dz0 = [d + 3.0 for d in cfg["dz"]]
        if route.get("obj_from_array"):
            arr = np.asarray(phi, dtype=np.float32) if cfg["obj_type"] == "potential" else np.exp(1j * np.asarray(phi)).astype(np.complex64)
            om = Q.Obj.from_array(initial_obj=arr, slice_thicknesses=dz0, obj_type=cfg["obj_type"], rng=1)
        else:
            om = Q.Obj.from_uniform(num_slices=S, obj_type=cfg["obj_type"], slice_thicknesses=dz0, rng=1)
        pm = Q.Probe.from_array(probe_array=np.asarray(probe_lib, dtype=np.complex64),
                                probe_params={"energy": cfg["energy"], "semiangle_cutoff": 20.0}, rng=1)
        p = Q.Pty.from_models(dset=pd, obj_model=om, probe_model=pm, detector_model=Q.Det(), rng=1, verbose=0)
        if route.get("delegated", True):
            p.preprocess(obj_padding_px=tuple(cfg["pad"]), **kw)
        else:
            p.preprocess(obj_padding_px=tuple(cfg["pad"]), plot_rotation=False, plot_com=False)
        if S > 1 and route.get("dz_attribute"):
            p.slice_thicknesses = list(cfg["dz"])
    if not route.get("obj_from_array"):
        with torch.no_grad():
            if cfg["obj_type"] == "potential":
                p.obj_model._obj.data = torch.tensor(np.asarray(phi), dtype=torch.float32)
            else:
                p.obj_model._obj.data = torch.tensor(np.exp(1j * np.asarray(phi)), dtype=torch.complex64)
    if route.get("probe_setter", True):
        p.probe_model.probe = np.asarray(probe_lib, dtype=np.complex64)
    return p


def reconstruct_via_attributes(p, loss_type, batch_size):
    """one real reconstruct(num_iters=1) call whose options are given through ATTRIBUTES (ptycho.batch_size,
    ptycho.optimizer_params + set_optimizers(), ptycho.constraints) instead of call arguments; optimiser steps are no-ops.
    Returns the batch records."""
    torch = _q().torch
    rec = []
    real_err = p.error_estimate

    def err(pred, batch_indices, loss_type="l2_amplitude"):
        loss, targets = real_err(pred, batch_indices, loss_type=loss_type)
        rec.append({"indices": [int(i) for i in np.asarray(batch_indices)], "loss": float(loss.detach().double().item()),
                    "pred": pred.detach().double().numpy()})
        return loss, targets

    p.batch_size = batch_size
    p.optimizer_params = pt.sgd_params(0.0, 0.0)
    p.set_optimizers()
    p.constraints = {}
    p.error_estimate = err
    p.step_optimizers = lambda: None
    try:
        with pt.no_gc(), torch.enable_grad(), warnings.catch_warnings():
            warnings.simplefilter("ignore")
            p.reconstruct(num_iters=1, loss_type=loss_type)
    finally:
        del p.error_estimate
        del p.step_optimizers
    return rec


# ----------------------------------------------------------------------------- rejected calls (exception safety)
def rejected_menu(cfg, rng):
    """public calls with an INVALID argument that the library rejects (raises) — a rejected call must leave the object as it
    was.  Every item is a small JSON dict {"name", "on", ...}; `apply_call` performs it.  The refused values are 'tempting':
    had they been stored they would change the forward model (other thicknesses, other positions, ...)."""
    S, K = cfg["slices"], cfg["modes"]
    r0, r1 = cfg["roi"]
    n = cfg["scan"][0] * cfg["scan"][1]
    bad = lambda: rng.choice([-13.0, 0.0, -0.0, -0.5, 0, -2])
    items = []
    on = lambda: rng.choice(["ptycho", "obj_model"])
    if S >= 3:
        # per-slice sequence of the CORRECT length with a non-positive entry (the other entries differ from the ones in use)
        for _ in range(3):
            v = [float(d) + rng.randint(1, 9) for d in cfg["dz"]]
            v[rng.below(S - 1)] = bad()
            items.append({"name": "dz:per-slice-nonpositive", "on": on(), "value": v, "form": rng.choice(["list", "tuple", "ndarray", "tensor"])})
        items.append({"name": "dz:wrong-length", "on": on(), "value": [float(d) + 2 for d in cfg["dz"]] + [4.0], "form": "list"})
        items.append({"name": "dz:wrong-length", "on": on(), "value": [float(d) + 2 for d in cfg["dz"]][:-1] + [3.0, 4.0, 5.0], "form": "list"})
    if S >= 2:
        items.append({"name": "dz:scalar-nonpositive", "on": on(), "value": bad(), "form": "scalar"})
        items.append({"name": "dz:scalar-nonpositive", "on": on(), "value": [bad()], "form": "list"})
        items.append({"name": "dz:none", "on": on(), "value": None, "form": "scalar"})
        items.append({"name": "dz:empty", "on": on(), "value": [], "form": rng.choice(["list", "tuple"])})
    else:
        items.append({"name": "dz:sequence-on-single-slice", "on": on(), "value": [3.0, 4.0], "form": "list"})
    items += [
        {"name": "probe:wrong-mode-count", "on": "probe_model", "shape": [K + 1, r0, r1]},
        {"name": "probe:wrong-roi", "on": "probe_model", "shape": [K, r0 + 1, r1]},
        {"name": "scan_positions:wrong-shape", "on": "dset", "shape": [n + 1, 2]},
        {"name": "scan_positions:wrong-shape", "on": "dset", "shape": [n, 3]},
        {"name": "detector_mask:wrong-shape", "on": "dset", "shape": [r0 + 1, r1]},
        {"name": "descan_shifts:wrong-shape", "on": "dset", "shape": [n + 1, 2]},
        {"name": "centered_amplitudes:wrong-shape", "on": "dset", "shape": [n, r0, r1 + 1]},
        {"name": "centered_intensities:wrong-shape", "on": "dset", "shape": [n + 1, r0, r1]},
        {"name": "mean_diffraction_intensity:nonpositive", "on": "dset", "value": rng.choice([0, -1.0, -0.0])},
        {"name": "dset.preprocess:unknown-fit", "on": "dset", "value": rng.choice(["bogus", "Plane", ""])},
        {"name": "obj_padding_px:bad-length", "on": "ptycho", "value": [1, 2, 3]},
        {"name": "obj_padding_px:bad-type", "on": "ptycho", "value": "ab"},
        {"name": "preprocess:bad-padding", "on": "ptycho", "value": [5, 6, 7]},
        {"name": "batch_size:nonpositive", "on": "ptycho", "value": rng.choice([0, -1])},
        {"name": "val_ratio:out-of-range", "on": "ptycho", "value": rng.choice([2.0, -0.5])},
        {"name": "constraints:unknown", "on": "ptycho", "value": rng.choice([{"bogus": {"x": 1}}, {"object": {"bogus": 1}}, {"dataset": {"clip": False}}])},
        {"name": "set_obj_type:unknown", "on": "ptycho", "value": "bogus"},
        {"name": "reconstruct:unknown-loss", "on": "ptycho", "value": rng.choice(["l2_bogus", "l3_amplitude", "amplitude", ""])},
        {"name": "reconstruct:bad-batch-size", "on": "ptycho", "value": 0},
        {"name": "reconstruct:unknown-device", "on": "ptycho", "value": "tpu"},
    ]
    return items


def _as_form(value, form):
    torch = _q().torch
    if form == "tuple":
        return tuple(value)
    if form == "ndarray":
        return np.asarray(value, dtype=np.float64)
    if form == "tensor":
        return torch.tensor(value, dtype=torch.float32)
    return value


def apply_call(q, cfg, item):
    """perform one (expected to be rejected) public call; returns the exception class name or None when it was accepted"""
    torch = _q().torch
    name, on = item["name"], item["on"]
    fill = lambda shape, dt: (np.arange(int(np.prod(shape))).reshape(shape) % 7 + 1).astype(dt)
    try:
        with warnings.catch_warnings(), torch.enable_grad(), pt.no_gc():
            warnings.simplefilter("ignore")
            if name.startswith("dz:"):
                tgt = q if on == "ptycho" else q.obj_model
                tgt.slice_thicknesses = _as_form(item["value"], item["form"]) if isinstance(item["value"], list) else item["value"]
            elif name.startswith("probe:"):
                q.probe_model.probe = fill(item["shape"], np.complex64)
            elif name.startswith("scan_positions:"):
                q.dset.scan_positions_px = fill(item["shape"], np.float32)
            elif name.startswith("detector_mask:"):
                q.dset.detector_mask = np.zeros(item["shape"], np.float32)
            elif name.startswith("descan_shifts:"):
                q.dset.descan_shifts = fill(item["shape"], np.float32)
            elif name.startswith("centered_amplitudes:"):
                q.dset.centered_amplitudes = fill(item["shape"], np.float32)
            elif name.startswith("centered_intensities:"):
                q.dset.centered_intensities = fill(item["shape"], np.float32)
            elif name.startswith("mean_diffraction_intensity:"):
                q.dset.mean_diffraction_intensity = item["value"]
            elif name.startswith("dset.preprocess:"):
                q.dset.preprocess(com_fit_function=item["value"], plot_rotation=False, plot_com=False, probe_energy=cfg["energy"],
                                  force_com_rotation=cfg.get("rotation_deg", 0), force_com_transpose=bool(cfg.get("transpose", False)))
            elif name.startswith("obj_padding_px:"):
                q.obj_padding_px = item["value"] if isinstance(item["value"], str) else tuple(item["value"])
            elif name.startswith("preprocess:"):
                q.preprocess(obj_padding_px=tuple(item["value"]), plot_rotation=False, plot_com=False)
            elif name.startswith("batch_size:"):
                q.batch_size = item["value"]
            elif name.startswith("val_ratio:"):
                q.val_ratio = item["value"]
            elif name.startswith("constraints:"):
                q.constraints = item["value"]
            elif name.startswith("set_obj_type:"):
                q.set_obj_type(item["value"])
            elif name == "reconstruct:unknown-loss":
                q.reconstruct(num_iters=1, loss_type=item["value"], constraints={})
            elif name == "reconstruct:bad-batch-size":
                q.reconstruct(num_iters=1, batch_size=item["value"], constraints={})
            elif name == "reconstruct:unknown-device":
                q.reconstruct(num_iters=1, device=item["value"], constraints={})
            else:
                raise RuntimeError(f"harness: unknown rejected-call item {name}")
    except RuntimeError as e:
        if str(e).startswith("harness:"):
            raise
        return type(e).__name__
    except Exception as e:   # noqa: BLE001
        return type(e).__name__
    return None


def valid_rebuild(q, cfg, truth, what):
    """a VALID public call that rebuilds derived state (propagators, positions, indices, object), followed by re-installing
    the ground truth where the call re-initialises object / probe"""
    with warnings.catch_warnings():
        warnings.simplefilter("ignore")
        if what == "reset_recon":
            q.reset_recon()
            install_truth(q, cfg, *truth)
        elif what == "preprocess":
            q.preprocess(obj_padding_px=tuple(cfg["pad"]), plot_rotation=False, plot_com=False)
            install_truth(q, cfg, *truth)
        elif what == "to_cpu":
            q.to("cpu")
        elif what == "compute_propagator_arrays":
            q.compute_propagator_arrays()
        elif what == "none":
            pass
        else:
            raise RuntimeError(f"harness: unknown rebuild {what}")


# ----------------------------------------------------------------------------- re-preprocessing histories
def make_raw_dataset(cfg, intensities4d):
    """the un-preprocessed dataset model"""
    Q = _q()
    r0, r1 = cfg["roi"]
    sr, sc = cfg["samp"]
    st_r, st_c = cfg["step"]
    ds = Q.Dataset4dstem.from_array(array=np.asarray(intensities4d, dtype=np.float32),
                                    sampling=(st_r, st_c, 1.0 / (r0 * sr), 1.0 / (r1 * sc)), units=("A", "A", "A^-1", "A^-1"))
    return Q.Raster.from_dataset4dstem(ds, verbose=0, learn_descan=False, learn_scan_positions=False)


def dataset_preprocess(pd, cfg, **override):
    """PtychographyDatasetRaster.preprocess with the configuration's settings, `override` replacing some of them"""
    kw = dict(com_fit_function=cfg["com"], plot_rotation=False, plot_com=False, probe_energy=cfg["energy"],
              force_com_rotation=cfg.get("rotation_deg", 0), force_com_transpose=bool(cfg.get("transpose", False)), vectorized=True)
    kw.update(override)
    with warnings.catch_warnings(), np.errstate(all="ignore"):
        warnings.simplefilter("ignore")
        pd.preprocess(**kw)
    return pd
