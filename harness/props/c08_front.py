"""C08, front end of save(): every spelling of the arguments (path names with and without
extensions, leading dots, sub-directories; mode strings other than 'w'/'o'; store names known and
unknown; compression levels inside and outside 0..9) x what already exists at the path as given and
at the path with '.zip' appended.  The real save() is compared with `front` of
Model/SaveFront.lean (which exception class, or which path is written as which kind), and the
property's clauses are evaluated on a snapshot of the whole sandbox: a call that raises alters
nothing; mode 'w' never alters anything that exists; a call that returns alters exactly one path,
which then loads to the complete object."""
import contextlib
import inspect
import io
import os
import pathlib
import shutil

from . import ser_common as sc

NAMES = ["obj", "obj.zip", "obj.ZIP", "a.b", "a.b.zip", ".hidden", "..dots", ".hidden.zip", "obj.", "sub.d/obj", "sub.d/o.x",
         "sub.d/o.zip", "obj.zip.zip", "run.tmp-1", "o b", ".zip", "x.zipx", "...", "zip"]
MODES = ["w", "o", "x", "a", "W", "O", "", "ow", None]
STORES = ["auto", "zip", "dir", "ZIP", "hdf5", "", "Dir", None]
LEVELS = [4, None, 0, 9, -1, 10, 100, 1]
PRE = ["absent", "absent", "file", "dir", "emptyfile", "emptydir", "earlier"]

EXPECTED_SAVE_DEFAULTS = {"mode": "w", "store": "auto", "skip": (), "compression_level": 4}


def _hash(path):
    from .c08 import tree_hash
    return tree_hash(path)


def snapshot(base):
    """every entry of the sandbox (top level and inside sub.d), by content"""
    out = {}
    for n in sorted(os.listdir(base)):
        if n == "sub.d":
            for m in sorted(os.listdir(os.path.join(base, n))):
                out[f"sub.d/{m}"] = _hash(os.path.join(base, n, m))
        else:
            out[n] = _hash(os.path.join(base, n))
    return out


def make_entry(path, kind, old_obj, tpl):
    if kind == "absent":
        return
    if kind == "file":
        open(path, "w").write("something else\n")
    elif kind == "emptyfile":
        open(path, "w").close()
    elif kind == "dir":
        os.makedirs(os.path.join(path, "junk"))
        open(os.path.join(path, "junk", "f"), "w").write("x")
    elif kind == "emptydir":
        os.makedirs(path)
    elif kind == "earlier":
        src = tpl["zip" if path.endswith(".zip") else "dir"]
        (shutil.copytree if os.path.isdir(src) else shutil.copy2)(src, path)


def check_signature(ctx):
    """the public signature of save()/load(): the documented parameters exist with the documented defaults
    (write-once is the DEFAULT mode) — additional parameters are not an error"""
    from quantem.core.io import serialize
    sig = inspect.signature(serialize.AutoSerialize.save)
    got = {k: (p.default if p.default is not inspect.Parameter.empty else "<required>") for k, p in sig.parameters.items()}
    want = dict(EXPECTED_SAVE_DEFAULTS, self="<required>", path="<required>")
    bad = {k: [want[k], got.get(k, "<missing>")] for k in want if got.get(k, "<missing>") != want[k]}
    ctx.count()
    if bad:
        ctx.disagree("save-signature", {"signature": str(sig)}, {k: v[0] for k, v in bad.items()}, {k: v[1] for k, v in bad.items()},
                     note="parameters / defaults of AutoSerialize.save")
    lsig = inspect.signature(serialize.load)
    if list(lsig.parameters)[:1] != ["path"]:
        ctx.disagree("load-signature", {"signature": str(lsig)}, ["path", "..."], list(lsig.parameters), note="parameters of load()")


def front_case(ctx, drv, case, idx):
    from quantem.core.io import serialize
    scratch = os.path.join(os.environ.get("QVERIF_SCRATCH", "/tmp"), "c08")
    base = os.path.join(scratch, f"f{idx}")
    builder = sc.Builder(None)
    obj = builder.build(case["recipe"])
    old_obj = builder.build(case["old_recipe"])
    spec_new = sc.observe(obj)
    shutil.rmtree(base, ignore_errors=True)
    os.makedirs(os.path.join(base, "sibdir"))
    os.makedirs(os.path.join(base, "sub.d"))
    open(os.path.join(base, "sib.txt"), "w").write("sibling\n")
    open(os.path.join(base, "sub.d", "keep.txt"), "w").write("keep\n")
    tpl = {"zip": os.path.join(scratch, f"f{idx}-tpl.zip"), "dir": os.path.join(scratch, f"f{idx}-tpl")}
    if "earlier" in (case["pre_given"], case["pre_zip"]):
        with contextlib.redirect_stdout(io.StringIO()):
            for st, p in tpl.items():
                if os.path.lexists(p):
                    (shutil.rmtree if os.path.isdir(p) else os.remove)(p)
                old_obj.save(p, store=st)
    given = os.path.join(base, case["name"])
    make_entry(given, case["pre_given"], old_obj, tpl)
    make_entry(given + ".zip", case["pre_zip"], old_obj, tpl)
    before = snapshot(base)
    mode, store, level = case["mode"], case["store"], case["level"]
    path_arg = pathlib.Path(given) if case.get("pathlib") else given
    raised = None
    ctx.count()
    try:
        with contextlib.redirect_stdout(io.StringIO()):
            obj.save(path_arg, mode=mode, store=store, compression_level=level)
    except Exception as e:  # noqa
        raised = type(e).__name__
    after = snapshot(base)
    changed = sorted(k for k in set(before) | set(after) if before.get(k) != after.get(k))
    existing = [os.path.join(base, k) for k in before]
    # ---- model
    req = {"op": "front", "path": str(path_arg), "mode": str(mode), "store": str(store), "exists": existing}
    if level is not None:
        req["level"] = level
    m = drv.ask(req).get("ok") or {}
    if "raises" in m:
        model_view = {"raises": m["raises"], "changed": []}
    else:
        rel = os.path.relpath(m.get("target", "?"), base)
        model_view = {"raises": None, "changed": [rel], "kind": "file" if m.get("zip") else "dir"}
    impl_view = {"raises": raised, "changed": changed}
    if raised is None and len(changed) == 1:
        p = os.path.join(base, changed[0])
        impl_view["kind"] = "dir" if os.path.isdir(p) else "file"
    if model_view != impl_view:
        ctx.disagree("front-end", case, model_view, impl_view, note=f"branch={m.get('branch')}")
    # ---- property clauses, independent of the model
    if raised is not None and changed:
        ctx.pred_fail("rejected-call-altered", "a save() that raised (argument validation / write-once refusal) altered the filesystem", case,
                      observed={"raised": raised, "changed": changed}, required="nothing changes")
    if mode == "w":
        touched = [k for k in before if before[k] != after.get(k)]
        if touched:
            ctx.pred_fail("write-once", "write-once mode altered a path that existed before the call", case, observed=touched, required=[])
    if raised is None:
        if len(changed) > 1:
            ctx.pred_fail("sibling-altered", "a save altered more than one path", case, observed=changed, required="exactly the target")
        elif len(changed) == 1:
            try:
                with contextlib.redirect_stdout(io.StringIO()):
                    ob = sc.canon_order(sc.observe(serialize.load(os.path.join(base, changed[0]))))
                diff = sc.prop_equal(spec_new, ob)
            except Exception as e:  # noqa
                diff = ("$", "loadable", type(e).__name__)
            if diff is not None:
                ctx.pred_fail("success-incomplete", "save returned normally but the path it wrote does not load to the saved object", case,
                              observed=sc.short(diff, 300), required="complete object")
        else:
            ctx.pred_fail("success-incomplete", "save returned normally but wrote nothing", case, observed=changed, required="the target")
    ctx.mark(("front", m.get("branch") or ("ok-zip" if m.get("zip") else "ok-dir"), mode if mode in ("w", "o") else "other",
              case["pre_given"] != "absent", case["pre_zip"] != "absent"))
    ctx.dist[f"front:{(m.get('branch') or 'ok').rsplit('.', 1)[-1]}"] += 1
    shutil.rmtree(base, ignore_errors=True)
    for p in tpl.values():
        if os.path.lexists(p):
            (shutil.rmtree if os.path.isdir(p) else os.remove)(p)


def gen_case(rng, i):
    g = sc.Gen(rng.fork(7), {})
    recipe = g.root(1)
    old_recipe = ["obj", "SB", [["old", ["scalar", sc.S(rng.randint(0, 99))]]]]
    # mostly valid calls; every list is also walked in a fixed rotation so that each value occurs whatever the seed
    name = NAMES[i % len(NAMES)] if rng.chance(0.5) else rng.choice(NAMES)
    mode = rng.weighted([("w", 4), ("o", 4), (MODES[i % len(MODES)], 3)])
    store = rng.weighted([("auto", 3), ("zip", 3), ("dir", 3), (STORES[(i // 2) % len(STORES)], 3)])
    level = rng.weighted([(4, 6), (LEVELS[(i // 3) % len(LEVELS)], 3)])
    return {"front": True, "recipe": recipe, "old_recipe": old_recipe, "name": name, "mode": mode, "store": store, "level": level,
            "pre_given": rng.choice(PRE), "pre_zip": rng.choice(PRE), "pathlib": rng.chance(0.25)}


def front_stream(ctx, drv, n):
    check_signature(ctx)
    rng0 = ctx.rng.fork(660066)
    for i in range(n):
        case = gen_case(rng0.fork(i), i)
        front_case(ctx, drv, case, i)


# ---------------------------------------------------------------------------------------------------
# filesystem primitives on every KIND of directory entry vs Model/SaveInstall.lean
KINDS = [None, "file", "dir:empty", "dir:nonempty", "link:dir", "link:file", "link:dangling"]
PRE_KIND = {"absent": None, "file": "file", "emptyfile": "file", "dir": "dir:nonempty", "placeholderdir": "dir:nonempty",
            "emptydir": "dir:empty", "linkfile": "link:file", "linkdir": "link:dir", "dangling": "link:dangling"}


def make_kind(path, kind):
    """create an entry of the given kind at `path`; links point at `<path>.ref`"""
    ref = path + ".ref"
    if kind is None:
        return
    if kind == "file":
        open(path, "w").write("x")
    elif kind == "dir:empty":
        os.makedirs(path)
    elif kind == "dir:nonempty":
        os.makedirs(os.path.join(path, "in"))
        open(os.path.join(path, "in", "f"), "w").write("y")
    elif kind == "link:dir":
        os.makedirs(os.path.join(ref, "deep"))
        open(os.path.join(ref, "deep", "g"), "w").write("z")
        os.symlink(ref, path)
    elif kind == "link:file":
        open(ref, "w").write("referent")
        os.symlink(ref, path)
    elif kind == "link:dangling":
        os.symlink(path + ".missing", path)


def kind_of(path):
    if not os.path.lexists(path):
        return None
    if os.path.islink(path):
        return "link:dangling" if not os.path.exists(path) else ("link:dir" if os.path.isdir(path) else "link:file")
    if os.path.isdir(path):
        return "dir:empty" if not os.listdir(path) else "dir:nonempty"
    return "file"


def primitives_stream(ctx, drv):
    """os.remove / shutil.rmtree / rmtree(ignore_errors) / os.replace / os.path.* on every kind (pair of kinds):
    result kinds, exception classes and the referents of links, real filesystem vs model (exhaustive, 7 + 3*7 + 49 cases)"""
    scratch = os.path.join(os.environ.get("QVERIF_SCRATCH", "/tmp"), "c08", "prims")

    def fresh():
        shutil.rmtree(scratch, ignore_errors=True)
        os.makedirs(scratch)
        return os.path.join(scratch, "a"), os.path.join(scratch, "b")

    def attempt(f):
        try:
            f()
            return None
        except Exception as e:  # noqa
            return type(e).__name__

    for ka in KINDS:
        a, b = fresh()
        make_kind(a, ka)
        ctx.count()
        impl = {"isdir": os.path.isdir(a), "islink": os.path.islink(a), "lexists": os.path.lexists(a), "exists": os.path.exists(a)}
        model = drv.ask({"op": "kinds", "fn": "preds", "a": ka}).get("ok")
        if model != impl:
            ctx.disagree("fs-primitives", {"prim": "os.path.*", "a": ka}, model, impl)
        for fn, call in (("remove", lambda p: os.remove(p)), ("rmtree", lambda p: shutil.rmtree(p)),
                         ("rmtreeIgnore", lambda p: shutil.rmtree(p, ignore_errors=True))):
            a, b = fresh()
            make_kind(a, ka)
            ref_before = _hash(a + ".ref")
            ctx.count()
            err = attempt(lambda: call(a))
            impl = {"raises": err} if err else {"a": kind_of(a)}
            if _hash(a + ".ref") != ref_before:
                impl["referent"] = "altered"
            model = drv.ask({"op": "kinds", "fn": fn, "a": ka}).get("ok")
            if model != impl:
                ctx.disagree("fs-primitives", {"prim": fn, "a": ka}, model, impl)
            ctx.mark(("prim", fn, ka))
        for kb in KINDS:
            a, b = fresh()
            make_kind(a, ka)
            make_kind(b, kb)
            refs = (_hash(a + ".ref"), _hash(b + ".ref"))
            ctx.count()
            err = attempt(lambda: os.replace(a, b))
            impl = {"raises": err} if err else {"a": kind_of(a), "b": kind_of(b)}
            if (_hash(a + ".ref"), _hash(b + ".ref")) != refs:
                impl["referent"] = "altered"
            model = drv.ask({"op": "kinds", "fn": "replace", "a": ka, "b": kb}).get("ok")
            if model != impl:
                ctx.disagree("fs-primitives", {"prim": "replace", "a": ka, "b": kb}, model, impl)
            ctx.mark(("prim", "replace", ka, kb))
    ctx.dist["fs_primitive_cases"] += len(KINDS) * (4 + len(KINDS))
    shutil.rmtree(scratch, ignore_errors=True)
