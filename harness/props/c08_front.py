"""C08, front end of save(): every spelling of the arguments (path names with and without
extensions, leading dots, sub-directories; mode strings other than 'w'/'o'; store names known and
unknown; compression levels inside and outside 0..9) x what already exists at the path as given and
at the path with '.zip' appended.  The real save() is compared with `front` of
Model/SaveFront.lean (which exception class, or which path is written as which kind), and the
property's clauses are evaluated on a snapshot of the whole sandbox: a call that raises alters
nothing; mode 'w' never alters anything that exists; a call that returns alters exactly one path,
which then loads to the complete object."""
import contextlib
import inspect
import io
import os
import pathlib
import shutil

from . import ser_common as sc

NAMES = ["obj", "obj.zip", "obj.ZIP", "a.b", "a.b.zip", ".hidden", "..dots", ".hidden.zip", "obj.", "sub.d/obj", "sub.d/o.x",
         "sub.d/o.zip", "obj.zip.zip", "run.tmp-1", "o b", ".zip", "x.zipx", "...", "zip"]
MODES = ["w", "o", "x", "a", "W", "O", "", "ow", None]
STORES = ["auto", "zip", "dir", "ZIP", "hdf5", "", "Dir", None]
LEVELS = [4, None, 0, 9, -1, 10, 100, 1]
PRE = ["absent", "absent", "file", "dir", "emptyfile", "emptydir", "earlier"]

EXPECTED_SAVE_DEFAULTS = {"mode": "w", "store": "auto", "skip": (), "compression_level": 4}


def _hash(path):
    from .c08 import tree_hash
    return tree_hash(path)


def snapshot(base):
    """every entry of the sandbox (top level and inside sub.d), by content"""
    out = {}
    for n in sorted(os.listdir(base)):
        if n == "sub.d":
            for m in sorted(os.listdir(os.path.join(base, n))):
                out[f"sub.d/{m}"] = _hash(os.path.join(base, n, m))
        else:
            out[n] = _hash(os.path.join(base, n))
    return out


def make_entry(path, kind, old_obj, tpl):
    if kind == "absent":
        return
    if kind == "file":
        open(path, "w").write("something else\n")
    elif kind == "emptyfile":
        open(path, "w").close()
    elif kind == "dir":
        os.makedirs(os.path.join(path, "junk"))
        open(os.path.join(path, "junk", "f"), "w").write("x")
    elif kind == "emptydir":
        os.makedirs(path)
    elif kind == "earlier":
        src = tpl["zip" if path.endswith(".zip") else "dir"]
        (shutil.copytree if os.path.isdir(src) else shutil.copy2)(src, path)


def check_signature(ctx):
    """the public signature of save()/load(): the documented parameters exist with the documented defaults
    (write-once is the DEFAULT mode) — additional parameters are not an error"""
    from quantem.core.io import serialize
    sig = inspect.signature(serialize.AutoSerialize.save)
    got = {k: (p.default if p.default is not inspect.Parameter.empty else "<required>") for k, p in sig.parameters.items()}
    want = dict(EXPECTED_SAVE_DEFAULTS, self="<required>", path="<required>")
    bad = {k: [want[k], got.get(k, "<missing>")] for k in want if got.get(k, "<missing>") != want[k]}
    ctx.count()
    if bad:
        ctx.disagree("save-signature", {"signature": str(sig)}, {k: v[0] for k, v in bad.items()}, {k: v[1] for k, v in bad.items()},
                     note="parameters / defaults of AutoSerialize.save")
    lsig = inspect.signature(serialize.load)
    if list(lsig.parameters)[:1] != ["path"]:
        ctx.disagree("load-signature", {"signature": str(lsig)}, ["path", "..."], list(lsig.parameters), note="parameters of load()")


def front_case(ctx, drv, case, idx):
    from quantem.core.io import serialize
    scratch = os.path.join(os.environ.get("QVERIF_SCRATCH", "/tmp"), "c08")
    base = os.path.join(scratch, f"f{idx}")
    builder = sc.Builder(None)
    obj = builder.build(case["recipe"])
    old_obj = builder.build(case["old_recipe"])
    spec_new = sc.observe(obj)
    shutil.rmtree(base, ignore_errors=True)
    os.makedirs(os.path.join(base, "sibdir"))
    os.makedirs(os.path.join(base, "sub.d"))
    open(os.path.join(base, "sib.txt"), "w").write("sibling\n")
    open(os.path.join(base, "sub.d", "keep.txt"), "w").write("keep\n")
    tpl = {"zip": os.path.join(scratch, f"f{idx}-tpl.zip"), "dir": os.path.join(scratch, f"f{idx}-tpl")}
    if "earlier" in (case["pre_given"], case["pre_zip"]):
        with contextlib.redirect_stdout(io.StringIO()):
            for st, p in tpl.items():
                if os.path.lexists(p):
                    (shutil.rmtree if os.path.isdir(p) else os.remove)(p)
                old_obj.save(p, store=st)
    given = os.path.join(base, case["name"])
    make_entry(given, case["pre_given"], old_obj, tpl)
    make_entry(given + ".zip", case["pre_zip"], old_obj, tpl)
    before = snapshot(base)
    mode, store, level = case["mode"], case["store"], case["level"]
    path_arg = pathlib.Path(given) if case.get("pathlib") else given
    raised = None
    ctx.count()
    try:
        with contextlib.redirect_stdout(io.StringIO()):
            obj.save(path_arg, mode=mode, store=store, compression_level=level)
    except Exception as e:  # noqa
        raised = type(e).__name__
    after = snapshot(base)
    changed = sorted(k for k in set(before) | set(after) if before.get(k) != after.get(k))
    existing = [os.path.join(base, k) for k in before]
    # ---- model
    req = {"op": "front", "path": str(path_arg), "mode": str(mode), "store": str(store), "exists": existing}
    if level is not None:
        req["level"] = level
    m = drv.ask(req).get("ok") or {}
    if "raises" in m:
        model_view = {"raises": m["raises"], "changed": []}
    else:
        rel = os.path.relpath(m.get("target", "?"), base)
        model_view = {"raises": None, "changed": [rel], "kind": "file" if m.get("zip") else "dir"}
    impl_view = {"raises": raised, "changed": changed}
    if raised is None and len(changed) == 1:
        p = os.path.join(base, changed[0])
        impl_view["kind"] = "dir" if os.path.isdir(p) else "file"
    if model_view != impl_view:
        ctx.disagree("front-end", case, model_view, impl_view, note=f"branch={m.get('branch')}")
    # ---- property clauses, independent of the model
    if raised is not None and changed:
        ctx.pred_fail("rejected-call-altered", "a save() that raised (argument validation / write-once refusal) altered the filesystem", case,
                      observed={"raised": raised, "changed": changed}, required="nothing changes")
    if mode == "w":
        touched = [k for k in before if before[k] != after.get(k)]
        if touched:
            ctx.pred_fail("write-once", "write-once mode altered a path that existed before the call", case, observed=touched, required=[])
    if raised is None:
        if len(changed) > 1:
            ctx.pred_fail("sibling-altered", "a save altered more than one path", case, observed=changed, required="exactly the target")
        elif len(changed) == 1:
            try:
                with contextlib.redirect_stdout(io.StringIO()):
                    ob = sc.canon_order(sc.observe(serialize.load(os.path.join(base, changed[0]))))
                diff = sc.prop_equal(spec_new, ob)
            except Exception as e:  # noqa
                diff = ("$", "loadable", type(e).__name__)
            if diff is not None:
                ctx.pred_fail("success-incomplete", "save returned normally but the path it wrote does not load to the saved object", case,
                              observed=sc.short(diff, 300), required="complete object")
        else:
            ctx.pred_fail("success-incomplete", "save returned normally but wrote nothing", case, observed=changed, required="the target")
    ctx.mark(("front", m.get("branch") or ("ok-zip" if m.get("zip") else "ok-dir"), mode if mode in ("w", "o") else "other",
              case["pre_given"] != "absent", case["pre_zip"] != "absent"))
    ctx.dist[f"front:{(m.get('branch') or 'ok').rsplit('.', 1)[-1]}"] += 1
    shutil.rmtree(base, ignore_errors=True)
    for p in tpl.values():
        if os.path.lexists(p):
            (shutil.rmtree if os.path.isdir(p) else os.remove)(p)


def gen_case(rng, i):
    g = sc.Gen(rng.fork(7), {})
    recipe = g.root(1)
    old_recipe = ["obj", "SB", [["old", ["scalar", sc.S(rng.randint(0, 99))]]]]
    # mostly valid calls; every list is also walked in a fixed rotation so that each value occurs whatever the seed
    name = NAMES[i % len(NAMES)] if rng.chance(0.5) else rng.choice(NAMES)
    mode = rng.weighted([("w", 4), ("o", 4), (MODES[i % len(MODES)], 3)])
    store = rng.weighted([("auto", 3), ("zip", 3), ("dir", 3), (STORES[(i // 2) % len(STORES)], 3)])
    level = rng.weighted([(4, 6), (LEVELS[(i // 3) % len(LEVELS)], 3)])
    return {"front": True, "recipe": recipe, "old_recipe": old_recipe, "name": name, "mode": mode, "store": store, "level": level,
            "pre_given": rng.choice(PRE), "pre_zip": rng.choice(PRE), "pathlib": rng.chance(0.25)}


def front_stream(ctx, drv, n):
    check_signature(ctx)
    rng0 = ctx.rng.fork(660066)
    for i in range(n):
        case = gen_case(rng0.fork(i), i)
        front_case(ctx, drv, case, i)
