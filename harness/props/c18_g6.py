"""C18 — growth round 6 streams.

  fixed   FIXED blocks (independent of VERIF_SEED) through the existing judges:
          * com: 15 patterns (3x5 / 5x3 scan) on H<W and H>W detectors, every max_batch_size 1..15 (2, 4, 6 … 14 do not divide:
            last batch shorter), None, 18; 130 patterns (> 127) with 1, 7, 64, 127, 128, 129, 130, 131; 272 patterns (> 255)
            with 16, 17, 255, 256, 257
          * shift: 15 patterns, 3x5 and 5x3 detectors, integer origins of every sign combination (negative row, negative
            column, both, beyond either edge) x targets (0, 0), (h-1, w-1), (h+1, w+2) (target larger than the origin: negative
            shift) x every max_batch_size 1..16, None
          * omhist: ONE origin model whose data are replaced (`model.tensor = …`) by the SAME number of patterns in another
            scan shape (4x6 -> 6x4 -> 3x8) with a plane fit on the inferred scan grid after each; ONE origin model shifted
            repeatedly with changing target / batch size / origins / data
  prep    what PtychographyDatasetRaster.preprocess() does AFTER the centre-of-mass stage (_normalize_diffraction_intensities,
          ptycho_utils.shift_array, fftshift): with an integer-valued com_fit the centred amplitudes / intensities are the
          circular roll that moves pixel com_fit to (h//2, w//2) (exact for bilinear=True on perfect-square intensities,
          1e-5*max for the Fourier shift), descan_shifts = (h//2, w//2) - com_fit exactly; vs np.roll and vs
          Model/OriginPrep.lean `centreAll` / `descanShift` at Rat.  Two routes: com_fit handed in through the public setter
          (any sign, beyond the edges), and the whole public preprocess() on strictly positive patterns whose centre of mass is
          an exact integer (outer products), both numpy COM paths.
"""
from fractions import Fraction


class HarnessError(RuntimeError):
    pass


def _c18():
    from . import c18
    return c18


def _hist():
    from . import c18_hist
    return c18_hist


# ---------------------------------------------------------------------------------------
# fixed blocks

def fixed_dataset(rng, sr, sc, h, w, mask_kind="none"):
    data = [[[rng.randint(1, 60) + (40 if (r, c) == ((a + b) % h, (2 * a + b) % w) else 0) for c in range(w)] for r in range(h)]
            for a in range(sr) for b in range(sc)]
    mask = None
    if mask_kind == "binary":
        mask = [[2 * int((r * w + c) % 3 != 1) for c in range(w)] for r in range(h)]
    elif mask_kind == "half":
        mask = [[(r + 2 * c) % 4 for c in range(w)] for r in range(h)]
        mask[0][0] = 1
    return {"sr": sr, "sc": sc, "h": h, "w": w, "kind": "fixed", "mask_kind": mask_kind, "data": data, "mask_halves": mask}


def sign_origins(h, w):
    """15 integer origins: every sign combination, on / beyond every edge"""
    return [[-1, -2], [-h, -w], [-h - 1, 2], [2, -w - 1], [0, -1], [-1, 0], [h, w], [2 * h - 1, -1], [-2, 2 * w], [1, 1],
            [0, 0], [-h + 1, -w + 1], [h - 1, w - 1], [-3, -4], [-7, 9]]


def _set(which, vals, shape, plane=None, container="tensor"):
    return {"k": "set", "which": which, "vals": [float(v) for v in vals], "shape": shape, "container": container, "bad": None, "plane": plane, "valid": True}


def plane_vals(sr, sc, pr, pc):
    return [v for a in range(sr) for b in range(sc) for v in (pr[0] * a + pr[1] * b + pr[2], pc[0] * a + pc[1] * b + pc[2])]


def fixed_histories(rng):
    out = []
    # --- (1) same number of patterns, another scan shape, plane fit on the inferred grid after each replacement
    for (h, w) in ((2, 3), (3, 2)):
        n = 24
        ops = []
        for step, (sr, sc) in enumerate(((4, 6), (6, 4), (3, 8), (8, 3), (4, 6))):
            if step:
                ops.append({"k": "set_tensor", "shape": [sr, sc, h, w], "data": [rng.randint(1, 60) for _ in range(n * h * w)], "valid": True})
            pr = [(-1) ** step * 0.5, 0.25 * (step + 1), 3.0 + step]
            pc = [-0.375, (-1) ** (step + 1) * 0.75, 5.5 - step]
            ops.append(_set("measured", plane_vals(sr, sc, pr, pc), [sr, sc, 2] if step % 2 else [n, 2], plane=[pr, pc], container=("tensor", "ndarray", "list")[step % 3]))
            ops.append({"k": "fit", "method": "plane", "pos": None, "valid": True})
            if step == 2:
                ops.append({"k": "calc", "b": 5, "valid": True})
                ops.append({"k": "fit", "method": "constant", "pos": None, "valid": True})
        out.append({"sr": 4, "sc": 6, "h": h, "w": w, "three_d": False, "data": [rng.randint(1, 60) for _ in range(n * h * w)], "ops": ops})
    # --- (1b) the same with MEASURED origins: strictly positive patterns (outer products) whose centre of mass is the exact
    # integer (1 + a, 1 + b) at scan position (a, b): calculate_origin -> plane fit on the inferred grid, after every replacement
    h = w = 10

    def planar_data(sr, sc):
        d = []
        for a in range(sr):
            for b in range(sc):
                ra, cb = int_com_vector(rng, h, 1 + a), int_com_vector(rng, w, 1 + b)
                d += [x * y for x in ra for y in cb]
        return d
    ops = []
    for step, (sr, sc) in enumerate(((4, 6), (6, 4), (3, 8), (8, 3))):
        if step:
            ops.append({"k": "set_tensor", "shape": [sr, sc, h, w], "data": planar_data(sr, sc), "valid": True})
        ops.append({"k": "calc", "b": (None, 5, 24, 7)[step], "valid": True})
        ops.append({"k": "fit", "method": "plane", "pos": None, "valid": True})
    out.append({"sr": 4, "sc": 6, "h": h, "w": w, "three_d": False, "data": planar_data(4, 6), "ops": ops})
    # --- (2) one object shifted again and again: target / batch size / origins / data / scan shape change between the calls
    for (sr, sc, h, w) in ((3, 5, 3, 5), (5, 3, 5, 3)):
        n = 15
        o1 = sign_origins(h, w)
        o2 = list(reversed(o1))
        ops = [_set("fitted", [v for p in o1 for v in p], [n, 2]),
               {"k": "shift", "coord": [0, 0], "b": 4, "mode": "bilinear", "valid": True},
               {"k": "shift", "coord": [h - 1, w - 1], "b": None, "mode": "bilinear", "valid": True},
               {"k": "shift", "coord": [h + 1, w + 2], "b": 14, "mode": "bilinear", "valid": True},
               {"k": "shift", "coord": [0, 0], "b": 7, "mode": "nearest", "valid": True},
               {"k": "shift", "coord": [0, 0], "b": 4, "mode": "bilinear", "valid": True},
               _set("fitted", [v for p in o2 for v in p], [sr, sc, 2], container="ndarray"),
               {"k": "shift", "coord": [0, 0], "b": 2, "mode": "bilinear", "valid": True},
               {"k": "set_tensor", "shape": [sr, sc, h, w], "data": [rng.randint(1, 60) for _ in range(n * h * w)], "valid": True},
               {"k": "shift", "coord": [0, 0], "b": 15, "mode": "bilinear", "valid": True},
               {"k": "shift", "coord": [1, 2], "b": 6, "mode": "bilinear", "valid": True},
               {"k": "set_tensor", "shape": [sc, sr, h, w], "data": [rng.randint(1, 60) for _ in range(n * h * w)], "valid": True},
               {"k": "shift", "coord": [1, 2], "b": 6, "mode": "bilinear", "valid": True},
               {"k": "calc", "b": 4, "valid": True},
               {"k": "calc", "b": 15, "valid": True},
               {"k": "calc", "b": 1, "valid": True},
               {"k": "fit", "method": "constant", "pos": None, "valid": True}]
        out.append({"sr": sr, "sc": sc, "h": h, "w": w, "three_d": False, "data": [rng.randint(1, 60) for _ in range(n * h * w)], "ops": ops})
    return out


def fixed_blocks(ctx, drv, guarded):
    """the exposing input classes of the round-6 themes, generated independently of VERIF_SEED"""
    from qv.prng import Rng
    c18, hist = _c18(), _hist()
    rng = Rng(18062026)
    # com: counts that are not multiples of the batch size / exceed 127 / 255
    for (sr, sc, h, w, mk, bs) in ((3, 5, 3, 7, "none", None), (5, 3, 7, 3, "binary", None), (3, 5, 4, 2, "half", None),
                                   (10, 13, 2, 3, "none", [1, 7, 64, 127, 128, 129, 130, None, 131]),
                                   (17, 16, 3, 2, "none", [16, 17, 255, 256, 257, None])):
        ds = fixed_dataset(rng, sr, sc, h, w, mk)
        ctx.dist["fixed:com"] += 1
        guarded(ctx, c18.com_case, {"stream": "com", "ds": ds}, ctx, drv, ds, bs)
    # shift: every sign combination of the origin, targets smaller and larger than the origin, every batch size
    for (sr, sc, h, w) in ((3, 5, 3, 5), (5, 3, 5, 3)):
        data = [[[rng.randint(1, 200) for _ in range(w)] for _ in range(h)] for _ in range(sr * sc)]
        for coord in ([0, 0], [h - 1, w - 1], [h + 1, w + 2]):
            sh = {"sr": sr, "sc": sc, "h": h, "w": w, "data": data, "origins": sign_origins(h, w), "coord": coord, "mode": "bilinear", "sub": False}
            ctx.dist["fixed:shift"] += 1
            guarded(ctx, c18.shift_case, {"stream": "shift", "sh": sh}, ctx, drv, sh, list(range(1, 17)) + [None])
        for mode in ("nearest", "bicubic"):
            sh = {"sr": sr, "sc": sc, "h": h, "w": w, "data": data, "origins": sign_origins(h, w), "coord": [h - 1, w - 1], "mode": mode, "sub": False}
            guarded(ctx, c18.shift_case, {"stream": "shift", "sh": sh}, ctx, drv, sh, [2, 4, 14, None])
    for hs in fixed_histories(rng):
        ctx.dist["fixed:omhist"] += 1
        guarded(ctx, hist.omhist_case, {"stream": "omhist", "hist": hs}, ctx, drv, hs)
    for pc in fixed_prep(rng):
        ctx.dist["fixed:prep"] += 1
        guarded(ctx, prep_case, {"stream": "prep", "pc": pc}, ctx, drv, pc)


# ---------------------------------------------------------------------------------------
# stream: prep — the dataset model after its centre-of-mass stage

PRE_KW = dict(plot_rotation=False, plot_com=False, force_com_rotation=0, force_com_transpose=False)


def int_com_vector(rng, size, o):
    """positive integers a[0..size) with  sum(r * a[r]) = o * sum(a)  exactly (1 <= o <= size - 2)"""
    a = [1] * size
    for _ in range(rng.randint(0, 2)):
        d = rng.randint(1, min(o, size - 1 - o))
        k = rng.randint(1, 4)
        a[o - d] += k
        a[o + d] += k
    a[o] += rng.randint(0, 5)
    dd = sum((r - o) * v for r, v in enumerate(a))
    if dd > 0:
        a[o - 1] += dd
    elif dd < 0:
        a[o + 1] += -dd
    assert sum((r - o) * v for r, v in enumerate(a)) == 0 and min(a) >= 1
    return a


def gen_prep(rng, shape=None, route=None):
    c18 = _c18()
    sr, sc = shape[:2] if shape else c18.pick_scan(rng, 1, 4)
    route = route or rng.weighted([("handset", 3), ("public", 2)])
    if shape:
        h, w = shape[2:]
    else:
        lo = 3 if route == "public" else 1 if rng.chance(0.1) else 2
        h, w = rng.randint(lo, 7), rng.randint(lo, 7)
        if h == w and rng.chance(0.7):
            w += 1
    n = sr * sc
    if route == "handset":
        amps = [[[rng.randint(1, 30) for _ in range(w)] for _ in range(h)] for _ in range(n)]          # intensities = amps ** 2
        fits = [[rng.randint(-h - 1, 2 * h), rng.randint(-w - 1, 2 * w)] for _ in range(n)]
        if rng.chance(0.25):
            fits = [fits[0]] * n
        return {"route": route, "sr": sr, "sc": sc, "h": h, "w": w, "amps": amps, "fits": fits}
    same = rng.chance(0.3)
    fits, rows, cols = [], [], []
    for i in range(n):
        if i and same:
            fits.append(fits[0]); rows.append(rows[0]); cols.append(cols[0])
            continue
        oy, ox = rng.randint(1, h - 2), rng.randint(1, w - 2)
        fits.append([oy, ox]); rows.append(int_com_vector(rng, h, oy)); cols.append(int_com_vector(rng, w, ox))
    return {"route": route, "sr": sr, "sc": sc, "h": h, "w": w, "rows": rows, "cols": cols, "fits": fits,
            "fit": "constant" if same and rng.chance(0.5) else "none", "vec": rng.chance(0.5)}


def fixed_prep(rng):
    out = []
    for shape in ((3, 5, 3, 5), (5, 3, 5, 3), (2, 2, 4, 7)):
        pc = gen_prep(rng, shape, "handset")
        if shape[0] * shape[1] == 15:
            from_signs = sign_origins(shape[2], shape[3])
            pc["fits"] = from_signs
        out.append(pc)
        out.append(gen_prep(rng, shape, "public"))
    return out


def prep_case(ctx, drv, pc):
    import numpy as np
    c18 = _c18()
    sr, sc, h, w, route = pc["sr"], pc["sc"], pc["h"], pc["w"], pc["route"]
    n = sr * sc
    case = {"stream": "prep", "pc": pc}
    fits = np.array(pc["fits"], dtype=np.int64).reshape(n, 2)
    if route == "handset":
        amp = np.array(pc["amps"], dtype=np.float64).reshape(n, h, w)
        inten = amp * amp
    else:
        inten = np.stack([np.outer(np.array(pc["rows"][i], dtype=np.float64), np.array(pc["cols"][i], dtype=np.float64)) for i in range(n)])
        amp = np.sqrt(inten)
    arr = inten.astype(np.float32).reshape(sr, sc, h, w)
    ctx.dist[f"prep:route={route}"] += 1
    ctx.dist["prep:detector=" + ("axis of length 1" if min(h, w) == 1 else "square" if h == w else "H<W" if h < w else "H>W")] += 1
    pd = c18.make_raster(arr)
    want_amp = np.stack([np.roll(amp[i], (h // 2 - int(fits[i, 0]), w // 2 - int(fits[i, 1])), axis=(0, 1)) for i in range(n)])
    want_int = np.stack([np.roll(inten[i], (h // 2 - int(fits[i, 0]), w // 2 - int(fits[i, 1])), axis=(0, 1)) for i in range(n)])
    want_descan = np.stack([h // 2 - fits[:, 0], w // 2 - fits[:, 1]], 1).astype(np.float64)
    runs = []
    if route == "handset":
        pd.preprocess(com_fit_function="none", vectorized=True, **PRE_KW)
        pd.com_fit = np.stack([fits[:, 0].reshape(sr, sc), fits[:, 1].reshape(sr, sc)]).astype(np.float32)
        norm = getattr(pd, "_normalize_diffraction_intensities", None)
        if norm is None:
            ctx.extra["prep:handset-route"] = "skipped: PtychographyDatasetRaster._normalize_diffraction_intensities not found (private name); the public route decides"
            return
        for bil in (True, False):
            runs.append((bil, (lambda b=bil: norm(bilinear=b))))
    else:
        for bil in (True, False):
            runs.append((bil, (lambda b=bil: pd.preprocess(com_fit_function=pc["fit"], vectorized=pc["vec"], bilinear=b, **PRE_KW))))
    for bil, go in runs:
        ctx.count()
        ctx.mark(("prep", route, sr, sc, h, w, bil))
        ctx.dist[f"prep:shift={'bilinear' if bil else 'fourier'}"] += 1
        rcase = dict(case, bilinear=bil)
        go()
        if route == "public":
            cf = np.asarray(pd.com_fit, dtype=np.float64).reshape(2, n).T
            if not np.allclose(cf, fits, rtol=0, atol=5e-4 * max(h, w)):
                i = int(np.argmax(np.abs(cf - fits).max(1)))
                ctx.pred_fail("prep-com-fit-wrong", f"preprocess(com_fit_function='{pc['fit']}', vectorized={pc['vec']}): com_fit is not the intensity-weighted mean (row, column) of patterns whose "
                              "centre of mass is an exact integer", rcase, observed={"pattern": i, "com_fit": cf[i].tolist()}, required={"(row,col)": fits[i].tolist()})
                return
        ca = np.asarray(pd.centered_amplitudes.detach().cpu().numpy(), dtype=np.float64).reshape(n, h, w)
        ci = np.asarray(pd.centered_intensities.detach().cpu().numpy(), dtype=np.float64).reshape(n, h, w)
        dsc = np.asarray(pd.descan_shifts.detach().cpu().numpy(), dtype=np.float64).reshape(n, 2)
        exact = bil and route == "handset"
        da = float(np.abs(np.nan_to_num(ca - want_amp, nan=np.inf)).max()) / float(amp.max())
        di = float(np.abs(np.nan_to_num(ci - want_int, nan=np.inf)).max()) / float(inten.max())
        ctx.stat_max(f"prep_{'bilinear' if bil else 'fourier'}_{route}_vs_roll_rel_dev", max(da, di) if np.isfinite(max(da, di)) else 1e30)
        if (exact and (da != 0.0 or di != 0.0)) or not (da <= 1e-5 and di <= 1e-5):
            i = int(np.argmax(np.abs(np.nan_to_num(ci - want_int, nan=np.inf)).reshape(n, -1).max(1)))
            ctx.pred_fail("prep-int-not-roll", f"preprocess stage after the centre of mass (shift_array bilinear={bil} + fftshift): with the integer-valued fitted origin "
                          f"{fits[i].tolist()} the centred pattern is not the circular roll that moves this pixel to (h//2, w//2) = ({h // 2}, {w // 2})", rcase,
                          observed={"pattern": i, "centered_intensities": ci[i].tolist()}, required={"roll": want_int[i].tolist(), "tolerance": "exact" if exact else "1e-5*max"})
            return
        dd = float(np.abs(dsc - want_descan).max()) if dsc.shape == want_descan.shape else float("inf")
        if not dd <= (0.0 if route == "handset" else 5e-4 * max(h, w)):
            i = 0 if not np.isfinite(dd) else int(np.argmax(np.abs(dsc - want_descan).max(1)))
            ctx.pred_fail("prep-descan-shift", "descan_shifts stored by preprocess() are not (h//2, w//2) - com_fit, the amount each pattern was rolled by", rcase,
                          observed={"pattern": i, "descan_shift": dsc[i].tolist() if np.isfinite(dd) else list(dsc.shape)}, required=want_descan[i].tolist())
            return
        # model tie (exact carrier): bilinear route with integer amplitudes
        if exact:
            m = drv.ask({"op": "centre", "h": h, "w": w, "data": [int(v) for v in np.array(pc["amps"]).reshape(-1)], "fits": [[int(a), int(b)] for a, b in fits.tolist()]})
            if "ok" not in m:
                raise HarnessError(f"driver error {m}")
            mod = np.array([[float(Fraction(v)) for v in p] for p in m["ok"]["centred"]]).reshape(n, h, w)
            mds = np.array([[float(Fraction(a)), float(Fraction(b))] for a, b in m["ok"]["descan"]])
            if not np.array_equal(mod, ca):
                ctx.disagree("prep-centred", rcase, mod.reshape(-1)[:12].tolist(), ca.reshape(-1)[:12].tolist(), note="centreAll at Rat vs centered_amplitudes (integer amplitudes, bilinear shift)")
            if not np.array_equal(mds, dsc):
                ctx.disagree("prep-descan", rcase, mds.tolist()[:6], dsc.tolist()[:6], note="descanShift at Rat vs descan_shifts")
    # quarter-pixel fitted origins (exact in float32), bilinear route: model tie only (the property speaks of integer origins)
    if route == "handset" and (sr + sc + h) % 2 == 0:
        q = np.array([[((3 * i + 1) % (4 * h + 9) - 2 * h) / 4.0, ((5 * i + 2) % (4 * w + 7) - 2 * w) / 4.0] for i in range(n)])
        pd.com_fit = np.stack([q[:, 0].reshape(sr, sc), q[:, 1].reshape(sr, sc)]).astype(np.float32)
        norm(bilinear=True)
        ctx.count()
        ctx.dist["prep:quarter-pixel (model tie only)"] += 1
        ca = np.asarray(pd.centered_amplitudes.detach().cpu().numpy(), dtype=np.float64).reshape(n, h, w)
        m = drv.ask({"op": "centre", "h": h, "w": w, "data": [int(v) for v in np.array(pc["amps"]).reshape(-1)],
                     "fits": [[_hist().rat(float(a)), _hist().rat(float(b))] for a, b in q.tolist()]})
        if "ok" not in m:
            raise HarnessError(f"driver error {m}")
        mod = np.array([[float(Fraction(v)) for v in p] for p in m["ok"]["centred"]]).reshape(n, h, w)
        d = float(np.abs(mod - ca).max()) / float(amp.max())
        ctx.stat_max("prep_quarter_pixel_model_vs_impl_rel_dev", d)
        if not d <= 1e-5:
            ctx.disagree("prep-centred", dict(case, quarter=True), mod.reshape(-1)[:12].tolist(), ca.reshape(-1)[:12].tolist(), note="centreAll at Rat vs centered_amplitudes, quarter-pixel fitted origins")
    ctx.sample({"stream": "prep", "route": route, "shape": [sr, sc, h, w], "fits": pc["fits"][:3]}, limit=4)
