"""C12 growth round 5 — the alias code as it is USED.

Three streams on top of harness/props/c12.py:

* `pphist`  : HISTORIES of assignments to `ProbeBase.probe_params` on one object (attribute stub and real
              ProbePixelated), including assignments that are REJECTED at the key check or part-way through the
              `float()` conversions; the whole `_probe_params` (top-level entries and `aberration_coefs`) after every
              step against the Lean state machine `PState.run`; predicates: an accepted assignment stores every
              alias under its symbol (`defocus = d` → C10 = −d), a rejected one leaves the object as it was.
* `hstate`  : HISTORIES on `direct_ptychography.HyperparameterState` (create / current_aberrations / clear /
              the write-back of `grid_search_hyperparameters` and `optimize_hyperparameters`, the real methods run on
              an attribute stub whose `reconstruct` only resolves the coefficients) against `HState.run`; predicate:
              the 25 symbols the surface code READS from the returned dict are the ones the layered input denotes.
* `entry`   : every DirectPtychography entry point that accepts a coefficient dict, on a real tiny instance, called
              once with alias keys and once with the canonical form of the same coefficients: results must agree
              (reads of `.aberration_coefs`, `corrected_stack`, the return value of `_return_lateral_shifts`, fit).
* `mergehist`: the same tensor-valued prior used in two merges (build, merge, merge again / read the first result).
"""
import math
import types
import warnings

from . import c12 as base

SYMS, ALIASES, LABELS = base.SYMS, base.ALIASES, base.LABELS
DEFAULT_KEYS = ["energy", "defocus", "semiangle_cutoff", "soft_edges", "aberration_coefs"]


def f2b(x):
    return base.f2b(x)


def b2f(x):
    return base.b2f(x)


# ----------------------------------------------------------------------------------------
# values: [kind, payload]
#   ["none"] | ["num", form, x] (a number in a Python/NumPy/torch/str form) | ["bad", name] (float() rejects it)

NUM_FORMS = ["float", "int", "np.float64", "np.float32", "np.int32", "arr.float64", "t.float32", "t.float64", "str", "bool"]
BAD_FORMS = ["word", "empty", "list", "tuple", "complex", "object", "arr2", "mixed"]


def bad_obj(name):
    import numpy as np
    return {"word": "strong", "empty": "", "list": [1.0, 2.0], "tuple": (3.0, 4.0), "complex": 1j, "object": object(),
            "arr2": np.array([1.0, 2.0]), "mixed": "12abc"}[name]


_BAD_ERR = {}


def bad_err(name):
    """the exception class `float(value)` raises for that value (probed, not assumed)"""
    if name not in _BAD_ERR:
        try:
            float(bad_obj(name))
            _BAD_ERR[name] = None
        except Exception as e:  # noqa
            _BAD_ERR[name] = base.err_name(e)
    return _BAD_ERR[name]


def num_obj(form, x):
    import numpy as np
    import torch
    if form == "float":
        return float(x)
    if form == "int":
        return int(x)
    if form == "bool":
        return bool(x)
    if form == "str":
        return repr(float(x))
    lib, ty = form.split(".")
    if lib == "np":
        return getattr(np, ty)(x)
    if lib == "arr":
        return np.array(x, dtype=getattr(np, ty))
    return torch.tensor(x, dtype=getattr(torch, ty))


def vobj(v):
    if v[0] == "none":
        return None
    if v[0] == "num":
        return num_obj(v[1], v[2])
    return bad_obj(v[1])


def vreal(v):
    return float(v[2]) if v[0] == "num" else None


def venc(v):
    if v[0] == "none":
        return None
    if v[0] == "num":
        return {"n": f2b(float(v[2]))}
    return {"b": bad_err(v[1]) or "TypeError"}


def gen_value(rng, p_none=0.1, p_bad=0.0, p_zero=0.15):
    if rng.chance(p_bad):
        return ["bad", rng.choice(BAD_FORMS)]
    if rng.chance(p_none):
        return ["none"]
    form = rng.choice(NUM_FORMS)
    if form == "bool":
        return ["num", form, float(rng.below(2))]
    if rng.chance(p_zero):
        x = rng.choice([0.0, -0.0]) if form in ("float", "np.float64", "np.float32", "arr.float64", "t.float32", "t.float64", "str") else 0.0
        return ["num", form, x]
    x = rng.randint(-512, 512) if form in ("int", "np.int32") else base.dy(rng)
    return ["num", form, float(x)]


def canon_write(k, x):
    """(symbol, value) an accepted entry `k = x` denotes, or None when `k` is no coefficient key"""
    if k in SYMS:
        return k, x
    if k == "defocus":
        return "C10", -x
    if k in ALIASES:
        return ALIASES[k], x
    return None


def layer(expected, items):
    """layer raw (key, value) items onto {symbol: set of admissible values}: a later dict replaces what earlier dicts
    said about a symbol; None entries are 'unset'; when ONE dict names a symbol twice (alias and symbol, with different
    meanings) the property does not say which entry wins, so both are admissible"""
    here = {}
    for k, v in items:
        if v[0] != "num":
            continue
        w = canon_write(k, vreal(v))
        if w is not None:
            here.setdefault(w[0], set()).add(w[1] + 0.0)
    expected.update(here)
    return expected


def same_num(a, b):
    """equal as numbers, signed zeros distinguished only by value (−0.0 == 0.0), NaN never generated"""
    return a == b


def reads(d):
    """what the surface code reads from a coefficient dict: the 25 symbols, a missing one is 0"""
    return {s: float(d.get(s, 0.0)) for s in SYMS}


def check_reads(ctx, key, what, case, got, expected):
    r = reads(got)
    e = {s: expected.get(s, {0.0}) for s in SYMS}
    bad = {s: r[s] for s in SYMS if not any(same_num(r[s], x) for x in e[s])}
    if bad:
        ctx.pred_fail(key, what, case, observed={"read_by_surface_code": bad, "dict": {k: float(v) for k, v in got.items()}},
                      required={s: sorted(e[s]) for s in bad})
        return False
    return True


# ----------------------------------------------------------------------------------------
# stream pphist: histories of probe_params assignments

def gen_assignment(rng, allow_bad=True):
    pool = SYMS + list(ALIASES)
    n = rng.weighted([(0, 1), (1, 3), (2, 3), (3, 2), (5, 1)])
    keys = rng.sample(pool, n) if n else []
    if rng.chance(0.5) and "defocus" not in keys:
        keys.append("defocus")
    keys = rng.shuffle(list(dict.fromkeys(keys)))
    kind = rng.weighted([("ok", 6), ("bad_value", 3 if allow_bad else 0), ("bad_key", 1 if allow_bad else 0)])
    items = [[k, gen_value(rng)] for k in keys]
    if kind == "bad_value" and items:
        # the value that float() rejects sits anywhere: before or after 'defocus' / plain settings
        items[rng.below(len(items))][1] = ["bad", rng.choice(BAD_FORMS)]
    top, nested = [], []
    for it in items:
        (nested if rng.chance(0.35) else top).append(it)
    for k, v in (("energy", ["num", "float", 300e3]), ("semiangle_cutoff", ["num", "float", 20.0]), ("soft_edges", ["num", "bool", 1.0])):
        if rng.chance(0.4):
            top.append([k, v if rng.chance(0.8) else ["num", "float", float(rng.randint(1, 99))]])
    if "defocus" not in [k for k, _ in top] and rng.chance(0.1):
        top.append(["defocus", ["none"]])
    top = rng.shuffle(top)
    if kind == "bad_key":
        top.insert(rng.randint(0, len(top)), [rng.choice(["C11", "defocuss", "Defocus", "phi10", "C12_a", "foo"]), gen_value(rng)])
    if nested or rng.chance(0.2):
        if rng.chance(0.1):
            nested.append([rng.choice(["foo", "energy", "C99"]), gen_value(rng, p_bad=0.3)])     # nested keys are not checked
        top.insert(rng.randint(0, len(top)), ["aberration_coefs", {"d": nested}])
    return top


def gen_pphist_case(rng):
    real = rng.chance(0.3)
    n = rng.weighted([(2, 3), (3, 4), (4, 2), (6, 1)])
    hist = []
    for i in range(n):
        hist.append(gen_assignment(rng, allow_bad=not (real and i == 0)))
    if not any(_is_rejectable(a) for a in hist) and rng.chance(0.6):
        j = rng.randint(1 if real else 0, len(hist) - 1) if len(hist) > 1 else 0
        if not (real and j == 0):
            a = hist[j]
            flat = [it for it in a if not isinstance(it[1], dict)]
            if flat:
                flat[rng.below(len(flat))][1] = ["bad", rng.choice(BAD_FORMS)]
                if "defocus" not in [k for k, _ in a]:
                    a.insert(0, ["defocus", ["num", "float", float(rng.randint(1, 400))]])
    return {"stream": "pphist", "real": real, "max_order": rng.choice([None, None, 0, 1, 2, 3, 5]), "history": hist}


def _is_rejectable(a):
    for k, v in a:
        if isinstance(v, dict):
            if any(x[0] == "bad" for _, x in v["d"]):
                return True
        elif v[0] == "bad" or (k not in DEFAULT_KEYS and k not in SYMS and k not in ALIASES):
            return True
    return False


def enc_assignment(a):
    return [[k, ({"d": [[a2, venc(b2)] for a2, b2 in v["d"]]} if isinstance(v, dict) else venc(v))] for k, v in a]


def obj_assignment(a):
    return {k: ({a2: vobj(b2) for a2, b2 in v["d"]} if isinstance(v, dict) else vobj(v)) for k, v in a}


def enc_stored(v):
    """a value found in the real `_probe_params`, in the model's encoding"""
    if v is None:
        return None
    if isinstance(v, dict):
        return {"d": [[k, enc_stored(x)] for k, x in v.items()]}
    try:
        return {"n": f2b(float(v))}
    except Exception as e:  # noqa
        return {"b": base.err_name(e)}


def snapshot(pp):
    top = sorted(([k, enc_stored(v)] for k, v in pp.items() if k != "aberration_coefs"), key=lambda kv: kv[0])
    ab = pp.get("aberration_coefs", {})
    def num(v):
        try:
            return float(v)
        except Exception as e:  # noqa  (only on a broken tree: a value float() rejects got stored)
            return "<" + base.err_name(e) + ">"
    return {"top": top, "aber": [[k, num(v)] for k, v in ab.items()] if isinstance(ab, dict) else "<no dict>"}


def pretty(snap):
    """a snapshot with the bit patterns decoded (for the report only)"""
    def dv(v):
        if isinstance(v, dict) and "n" in v:
            return b2f(v["n"])
        if isinstance(v, dict) and "b" in v:
            return "<value float() rejects: " + v["b"] + ">"
        if isinstance(v, dict) and "d" in v:
            return {k: dv(x) for k, x in v["d"]}
        return v
    return {"probe_params": {k: dv(v) for k, v in snap["top"]}, "aberration_coefs": snap["aber"] if isinstance(snap["aber"], str) else dict(snap["aber"])}


def flat_items(a):
    out = []
    for k, v in a:
        if isinstance(v, dict):
            out += [[k2, v2] for k2, v2 in v["d"]]
        else:
            out.append([k, v])
    return out


def eval_pphist_case(ctx, drv, case):
    from quantem.diffractive_imaging.probe_models import ProbeBase, ProbePixelated
    warnings.simplefilter("ignore")
    hist = case["history"]
    mo = case.get("max_order")
    init_top = [[k, enc_stored(v)] for k, v in ProbeBase.DEFAULT_PROBE_PARAMS.items() if k != "aberration_coefs"]
    req = {"op": "pp_history", "init_top": init_top, "init_aber": [], "history": [enc_assignment(a) for a in hist]}
    if mo is not None:
        req["max_order"] = mo
    m = drv.ask(req)
    if "ok" not in m:
        raise RuntimeError(f"driver error {m}")
    model_steps = m["ok"]
    obj = None
    steps = []
    before = snapshot(dict(ProbeBase.DEFAULT_PROBE_PARAMS))
    for i, a in enumerate(hist):
        params = obj_assignment(a)
        err = None
        try:
            if obj is None:
                if case["real"]:
                    # the real constructor takes max_aberrations_order = 5 (its default); the first assignment happens inside it
                    obj = ProbePixelated.from_params(params, rng=0)
                    obj._max_aberrations_order = mo
                    if mo != 5:
                        obj.probe_params = obj_assignment(a)
                else:
                    obj = types.SimpleNamespace(DEFAULT_PROBE_PARAMS=dict(ProbeBase.DEFAULT_PROBE_PARAMS),
                                                _probe_params=dict(ProbeBase.DEFAULT_PROBE_PARAMS), _max_aberrations_order=mo)
                    ProbeBase.probe_params.fset(obj, params)
            elif case["real"]:
                obj.probe_params = params
            else:
                ProbeBase.probe_params.fset(obj, params)
        except Exception as e:  # noqa
            err = base.err_name(e)
            if obj is None and case["real"]:
                ctx.dist["pphist:real_constructor_rejected"] += 1
                return
        after = snapshot(obj._probe_params)
        steps.append({"err": err, **after})
        ms = model_steps[i]
        mstate = {"err": ms["err"], "top": sorted(ms["top"], key=lambda kv: kv[0]), "aber": [[k, b2f(v)] for k, v in ms["aber"]]}
        if mstate != steps[-1]:
            ctx.disagree("pphist", case, {"step": i, **mstate}, {"step": i, **steps[-1]}, note="probe_params state after step")
        ctx.dist[f"pphist:step:{err or 'ok'}"] += 1
        if err is None:
            # accepted: every coefficient entry is stored under its symbol, 'defocus' with the sign flipped
            expected = layer({}, flat_items(a))
            got = dict(after["aber"])
            wrong = {s: got.get(s) for s, xs in expected.items() if not any(same_num(got.get(s, 0.0), x) for x in xs)}
            if wrong:
                key = "defocus-alias-probe_params" if ("C10" in wrong and "defocus" in [k for k, _ in flat_items(a)]) else "pp-accepted-coefs"
                ctx.pred_fail(key, "probe_params: an accepted assignment did not store its coefficients under their symbols "
                              "('defocus' = d as C10 = -d)", {**case, "history": hist[:i + 1]}, observed=wrong,
                              required={s: sorted(expected[s]) for s in wrong})
        else:
            # rejected: the object is as it was — the reported settings and the stored coefficients still belong together
            if after != before:
                ctx.pred_fail("pp-rejected-call-left-state", "probe_params: a REJECTED assignment changed the object "
                              "(reported settings and stored coefficients no longer describe one surface)",
                              {**case, "history": hist[:i + 1]}, observed=pretty(after), required=pretty(before))
        before = after
    ctx.count()
    nrej = sum(1 for s in steps if s["err"])
    ctx.mark(("pphist", case["real"], mo, min(len(hist), 5), min(nrej, 2), tuple(sorted({s["err"] for s in steps if s["err"]})),
              any(isinstance(v, dict) for a in hist for _, v in a)))
    ctx.sample({"stream": "pphist", "real": case["real"], "max_order": mo, "outcomes": [s["err"] or "ok" for s in steps]}, limit=3)


# ----------------------------------------------------------------------------------------
# stream hstate: HyperparameterState histories

def gen_items(rng, p_bad=0.0, nmax=4, force_defocus=0.5):
    pool = SYMS + list(ALIASES)
    n = rng.randint(0, nmax)
    keys = rng.sample(pool, n) if n else []
    if rng.chance(force_defocus) and "defocus" not in keys:
        keys.append("defocus")
    keys = rng.shuffle(list(dict.fromkeys(keys)))
    items = [[k, gen_value(rng, p_none=0.08)] for k in keys]
    if items and rng.chance(p_bad):
        items[rng.below(len(items))][1] = ["bad", rng.choice(BAD_FORMS)]
    if rng.chance(p_bad / 2):
        items.insert(rng.randint(0, len(items)), [rng.choice(["C11", "foo", "Defocus", "C12_a"]), gen_value(rng)])
    return items


def gen_hstate_case(rng):
    ops = []
    for _ in range(rng.randint(2, 6)):
        t = rng.weighted([("current", 4), ("search_grid", 3), ("search_optuna", 1), ("clear_optimized", 1), ("clear_all", 1)])
        if t == "current":
            ops.append({"t": "current", "o": None if rng.chance(0.25) else gen_items(rng, p_bad=0.15)})
        elif t.startswith("search"):
            # optimisable entries: (key, low, high, n_points); the stub's loss picks the grid point
            pool = rng.shuffle(SYMS + list(ALIASES))
            nopt = rng.weighted([(0, 1), (1, 5), (2, 3)])
            opt = []
            for k in pool[:nopt]:
                lo = base.dy(rng)
                opt.append([k, lo, lo + rng.randint(1, 64) / 4.0, rng.randint(1, 3)])
            if rng.chance(0.5) and "defocus" not in [o[0] for o in opt]:
                lo = float(rng.randint(-300, 300))
                opt.append(["defocus", lo, lo + rng.randint(1, 200), rng.randint(1, 3)])
            fixed = [it for it in gen_items(rng, p_bad=0.1, nmax=2, force_defocus=0.2) if it[0] not in [o[0] for o in opt]]
            ops.append({"t": t, "opt": opt, "fixed": fixed, "pick": rng.below(1 << 20), "rot": rng.choice([None, 0.25])})
        else:
            ops.append({"t": t})
    return {"stream": "hstate", "initial": gen_items(rng, p_bad=0.08, nmax=3, force_defocus=0.3), "ops": ops}


def enc_items(items):
    return [[k, venc(v)] for k, v in items]


def obj_items(items):
    return {k: vobj(v) for k, v in items}


class _Stub:
    """stands for a DirectPtychography object: the real search methods run on it; `reconstruct` only resolves the
    coefficients exactly as the real one does (`state.current_aberrations(override)`) and records what it resolved"""

    def __init__(self, state, pick):
        self.hyperparameter_state = state
        self.verbose = False
        self.resolved = []
        self._pick = pick
        self._n = 0

    def reconstruct(self, override_aberration_coefs=None, override_rotation_angle=None, verbose=None, **kw):
        self.resolved.append(self.hyperparameter_state.current_aberrations(override_aberration_coefs))
        return self

    def variance_loss(self):
        self._n += 1
        return float((self._pick * 2654435761 * self._n) % 1000003)       # a fixed pseudo-random loss per trial


def eval_hstate_case(ctx, drv, case):
    import numpy as np
    from quantem.diffractive_imaging import direct_ptychography as dpm
    warnings.simplefilter("ignore")
    try:
        import optuna
        optuna.logging.set_verbosity(optuna.logging.CRITICAL)
    except Exception:  # noqa
        optuna = None
    # ---- the real objects
    steps = []
    create_err = None
    try:
        state = dpm.HyperparameterState(initial_aberrations=obj_items(case["initial"]))
    except Exception as e:  # noqa
        create_err = base.err_name(e)
        state = None
    mops = []
    expected_layers = []       # oracle: what each step's returned dict must denote
    if state is not None:
        ini = layer({}, case["initial"])
        opt_exp = {}
        for op in case["ops"]:
            t = op["t"]
            out, exp = None, None
            try:
                if t == "current":
                    mops.append({"t": "current", "o": None if op["o"] is None else enc_items(op["o"])})
                    out = state.current_aberrations(None if op["o"] is None else obj_items(op["o"]))
                    exp = layer({**ini, **opt_exp}, op["o"] or [])
                elif t == "clear_optimized":
                    state.clear_optimized()
                    opt_exp = {}
                    out = {}
                    mops.append({"t": t})
                elif t == "clear_all":
                    state.clear_all()
                    ini, opt_exp = {}, {}
                    out = {}
                    mops.append({"t": t})
                else:
                    stub = _Stub(state, op["pick"])
                    coefs = {k: dpm.OptimizationParameter(lo, hi, n_points=n) for k, lo, hi, n in op["opt"]}
                    coefs.update(obj_items(op["fixed"]))
                    best = None
                    opt_exp = {}
                    try:
                        if t == "search_grid" or optuna is None:
                            dpm.DirectPtychography.grid_search_hyperparameters(stub, aberration_coefs=coefs, rotation_angle=op["rot"], verbose=False)
                            res = stub._grid_search_results
                            bl = min(l for _, l in res)
                            best = dict(next(p for p, l in res if l == bl))
                        else:
                            dpm.DirectPtychography.optimize_hyperparameters(
                                stub, aberration_coefs=coefs, rotation_angle=op["rot"], n_trials=2,
                                sampler=optuna.samplers.RandomSampler(seed=op["pick"]), verbose=False)
                            best = dict(state.study.best_params)
                    finally:
                        raw_best = [[k, ["num", "np.float64", float(v)]] for k, v in (best or {}).items() if k != "rotation_angle"]
                        # what the model is told: the best raw parameter dict the search found (or, when the first
                        # trial is rejected, any trial dict: the same keys decide the rejection)
                        if best is None:
                            raw_best = [[k, ["num", "float", float(lo)]] for k, lo, hi, n in op["opt"]]
                        mops.append({"t": "search", "best": enc_items(raw_best), "fixed": enc_items(op["fixed"])})
                    out = stub.resolved[-1]                        # the coefficients of the final reconstruct()
                    exp = layer(layer(dict(ini), raw_best), op["fixed"])
                    opt_exp = dict(exp)
                steps.append({"out": {"ok": [[k, float(v)] for k, v in out.items()]},
                              "initial": [[k, float(v)] for k, v in state.initial_aberrations.items()],
                              "optimized": [[k, float(v)] for k, v in state.optimized_aberrations.items()]})
                if exp is not None:
                    key = "hstate-current" if t == "current" else "search-writeback-alias"
                    check_reads(ctx, key, f"{t}: the coefficient dict handed to the surface code does not denote the layered input "
                                "(initial ⊕ optimised ⊕ override, every alias under its symbol, defocus = d as C10 = -d)",
                                {**case, "ops": case["ops"][:len(steps)]}, out, exp)
            except Exception as e:  # noqa
                steps.append({"out": {"err": base.err_name(e)},
                              "initial": [[k, float(v)] for k, v in state.initial_aberrations.items()],
                              "optimized": [[k, float(v)] for k, v in state.optimized_aberrations.items()]})
                if t.startswith("search"):
                    opt_exp = {}
            ctx.dist[f"hstate:{t}:{'ok' if 'ok' in steps[-1]['out'] else steps[-1]['out']['err']}"] += 1
    # ---- the model
    m = drv.ask({"op": "h_history", "initial": enc_items(case["initial"]), "ops": mops})
    if "ok" not in m:
        raise RuntimeError(f"driver error {m}")
    mo = m["ok"]
    ctx.count()
    if mo["create"] != create_err:
        ctx.disagree("hstate", case, {"create": mo["create"]}, {"create": create_err}, note="HyperparameterState(...) outcome")
        return
    dec = lambda d: [[k, b2f(v)] for k, v in d]  # noqa
    for i, (ms, st) in enumerate(zip(mo["steps"], steps)):
        mm = {"out": ({"ok": dec(ms["out"]["ok"])} if "ok" in ms["out"] else ms["out"]), "initial": dec(ms["initial"]),
              "optimized": dec(ms["optimized"])}
        if case["ops"][i]["t"] in ("clear_optimized", "clear_all"):
            mm["out"] = st["out"]
        if mm != st:
            ctx.disagree("hstate", case, {"step": i, **mm}, {"step": i, **st}, note=f"HyperparameterState after op {case['ops'][i]['t']}")
            break
    ctx.mark(("hstate", create_err, tuple(sorted({o["t"] for o in case["ops"]})),
              tuple(sorted({s["out"].get("err", "ok") for s in steps})), "defocus" in [k for k, _ in case["initial"]]))
    ctx.sample({"stream": "hstate", "initial": case["initial"], "ops": [o["t"] for o in case["ops"]]}, limit=2)


# ----------------------------------------------------------------------------------------
# stream entry: the DirectPtychography entry points on a real tiny instance, alias form vs canonical form

ENTRIES = ["init", "reconstruct", "cross_correlation", "grid", "optuna", "least_squares"]


def gen_entry_case(rng, idx):
    entry = ENTRIES[idx % len(ENTRIES)]
    g = rng.choice([8, 9, 10])
    rs = rng.choice([0.04, 0.05, 0.0625])
    items = [["defocus", float(rng.randint(100, 900) * rng.choice([1, -1]))]]
    if rng.chance(0.5):
        items.append(["astigmatism", float(rng.randint(20, 200))])
        items.append(["astigmatism_angle", rng.randint(-12, 12) / 8.0])
    if rng.chance(0.25):
        items.append(["Cs", float(rng.randint(1, 9) * 1000)])
    if rng.chance(0.25):
        items.insert(0, ["coma", float(rng.randint(100, 3000))])
    items = rng.shuffle(items)
    init = []
    if rng.chance(0.4):
        init = [[rng.choice(["C12", "astigmatism"]), float(rng.randint(5, 50))], ["phi12", 0.25]]
        items = [it for it in items if not it[0].startswith("astigmatism")]
    return {"stream": "entry", "entry": entry, "g": g, "rs": rs, "scan": rng.choice([10, 12]), "items": items, "init": init,
            "seed": rng.below(1 << 30), "kernel": rng.choice(["parallax", "ssb"]), "n_points": rng.randint(2, 3),
            "span": float(rng.randint(50, 300)), "rot": rng.choice([0.0, 0.3, -0.2])}


def canon_items(items):
    out = {}
    for k, x in items:
        s, v = canon_write(k, x)
        out[s] = v
    return out


def make_dp(case, ab):
    import numpy as np
    from quantem.core.datastructures import Dataset2d, Dataset3d
    from quantem.diffractive_imaging.direct_ptychography import DirectPtychography
    g, rs = case["g"], case["rs"]
    kx = np.fft.fftfreq(g, 1 / (g * rs))
    KX, KY = np.meshgrid(kx, kx, indexing="ij")
    mask = np.sqrt(KX ** 2 + KY ** 2) <= 2.2 * rs
    n = int(mask.sum())
    r = np.random.default_rng(case["seed"])
    stack = r.random((n, case["scan"], case["scan"])).astype(np.float32)
    vbf = Dataset3d.from_array(stack, name="vbf", units=("index", "A", "A"), sampling=(1, 1.0, 1.0))
    md = Dataset2d.from_array(mask, name="mask", units=("A^-1", "A^-1"), sampling=(rs, rs))
    return DirectPtychography.from_virtual_bfs(vbf, md, energy=300e3, rotation_angle=case["rot"], aberration_coefs=dict(ab),
                                               semiangle_cutoff=2.2 * rs * 0.0197 * 1e3, soft_edges=False, crop_bf_mask=False,
                                               bf_mask_padding_px=1, verbose=False, rng=0)


def tensors_differ(a, b, rel=1e-5):
    import torch
    if a.shape != b.shape:
        return True, float("inf")
    d = float((a - b).abs().max())
    s = max(1.0, float(b.abs().max()))
    return (not d <= rel * s), d


def eval_entry_case(ctx, drv, case):
    import torch
    from quantem.diffractive_imaging import direct_ptychography as dpm
    warnings.simplefilter("ignore")
    try:
        import optuna
        optuna.logging.set_verbosity(optuna.logging.CRITICAL)
    except Exception:  # noqa
        optuna = None
    entry = case["entry"]
    items = [list(it) for it in case["items"]]
    alias_form = {k: v for k, v in items}
    canon_form = canon_items(items)
    init_alias = {k: v for k, v in case["init"]}
    init_exp = layer({}, [[k, ["num", "float", v]] for k, v in case["init"]])
    ctx.count()
    ctx.dist[f"entry:{entry}"] += 1
    small = dict(case)

    def fail(key, what, observed, required):
        ctx.pred_fail(key, what, small, observed=observed, required=required)

    if entry == "init":
        dp = make_dp(case, {**init_alias, **alias_form})
        # layering inside ONE dict is by dict order: init entries first, then the items
        exp = layer({}, [[k, ["num", "float", v]] for k, v in {**init_alias, **alias_form}.items()])
        check_reads(ctx, "entry-init-alias", "DirectPtychography(aberration_coefs=…): .aberration_coefs does not denote the given coefficients",
                    small, dp.aberration_coefs, exp)
    elif entry == "reconstruct":
        out = []
        for form in (alias_form, canon_form):
            dp = make_dp(case, init_alias)
            dp.reconstruct(override_aberration_coefs=form, deconvolution_kernel=case["kernel"], verbose=False)
            out.append(dp.corrected_stack.clone())
        bad, d = tensors_differ(out[0], out[1])
        if bad:
            fail("entry-reconstruct-alias", "reconstruct(override_aberration_coefs=…): alias form and canonical form of the same "
                 "coefficients give different corrected stacks", {"max_abs_diff": d}, {"max_abs_diff": 0.0})
    elif entry == "cross_correlation":
        res = []
        for form in (alias_form, canon_form):
            dp = make_dp(case, init_alias)
            rec = {}
            orig = dp._return_lateral_shifts

            def spy(rot, coefs, m, _o=orig, _r=rec):
                o = _o(rot, coefs, m)
                _r["coefs"] = dict(coefs)
                _r["shifts"] = o.clone()
                return o
            dp._return_lateral_shifts = spy
            dp.fit_hyperparameters_cross_correlation(aberration_coefs=form, bin_factors=(1,), verbose=False)
            res.append((rec, dict(dp.hyperparameter_state.optimized_aberrations), dp.hyperparameter_state.optimized_rotation_angle))
        (ra, fa, rota), (rb, fb, rotb) = res
        if "shifts" in ra and "shifts" in rb:
            bad, d = tensors_differ(ra["shifts"], rb["shifts"])
            if bad:
                fail("entry-cross-correlation-shifts-alias", "fit_hyperparameters_cross_correlation(aberration_coefs=…): the lateral shifts "
                     "(_return_lateral_shifts) that seed the alignment differ between the alias form and the canonical form",
                     {"max_shift_alias_form": float(ra["shifts"].abs().max()), "coefs_reaching_surface_code": {k: float(v) for k, v in ra["coefs"].items()}},
                     {"max_shift_canonical_form": float(rb["shifts"].abs().max())})
            # tie to the model: the dict handed to _return_lateral_shifts
            m = drv.ask({"op": "cc_shift_coefs", "items": [[k, {"n": f2b(v)}] for k, v in items]})
            if "ok" in m:
                md = reads({k: b2f(v) for k, v in m["ok"]})
                if md != reads(ra["coefs"]):
                    ctx.disagree("entry", case, md, reads(ra["coefs"]), note="coefficients handed to _return_lateral_shifts")
        else:
            ctx.dist["entry:cross_correlation:spy_not_reached"] += 1
        scale = max(1.0, max(abs(v) for v in fb.values()))
        dd = max(abs(fa.get(k, 0.0) - fb.get(k, 0.0)) for k in ("C10", "C12"))
        if not dd <= 1e-3 * scale:
            fail("entry-cross-correlation-fit-alias", "fit_hyperparameters_cross_correlation(aberration_coefs=…): fitted coefficients differ "
                 "between the alias form and the canonical form of the same starting coefficients", fa, fb)
        # model: the state after the call
        m = drv.ask({"op": "h_history", "initial": [[k, {"n": f2b(v)}] for k, v in case["init"]],
                     "ops": [{"t": "cc", "o": [[k, {"n": f2b(v)}] for k, v in items], "fit": [[k, {"n": f2b(float(v))}] for k, v in fa.items()]}]})
        if "ok" in m and m["ok"]["steps"]:
            mopt = [[k, b2f(v)] for k, v in m["ok"]["steps"][0]["optimized"]]
            if mopt != [[k, float(v)] for k, v in fa.items()]:
                ctx.disagree("entry", case, mopt, [[k, float(v)] for k, v in fa.items()], note="optimized_aberrations after cross-correlation fit")
    elif entry == "grid":
        k0, d0 = items[0]
        lo, hi = d0 - case["span"], d0 + case["span"]
        sgn = -1.0 if k0 == "defocus" else 1.0
        rest_a = {k: v for k, v in items[1:]}
        rest_c = canon_items(items[1:])
        out = []
        for coefs in ({k0: dpm.OptimizationParameter(lo, hi, n_points=case["n_points"]), **rest_a},
                      {canon_write(k0, d0)[0]: dpm.OptimizationParameter(sgn * lo, sgn * hi, n_points=case["n_points"]), **rest_c}):
            dp = make_dp(case, init_alias)
            dp.grid_search_hyperparameters(aberration_coefs=coefs, verbose=False)
            out.append((dict(dp.aberration_coefs), dp.corrected_stack.clone(), list(dp._grid_search_results) if hasattr(dp, "_grid_search_results") else None))
        if reads(out[0][0]) != reads(out[1][0]):
            bad = {s: reads(out[0][0])[s] for s in SYMS if reads(out[0][0])[s] != reads(out[1][0])[s]}
            fail("entry-grid-alias", "grid_search_hyperparameters: after a search over an ALIAS key the coefficients the surface code reads "
                 "from .aberration_coefs differ from those after the same search over the canonical key",
                 {"read_by_surface_code": bad, "aberration_coefs": {k: float(v) for k, v in out[0][0].items()}},
                 {s: reads(out[1][0])[s] for s in bad})
        else:
            bad, d = tensors_differ(out[0][1], out[1][1])
            if bad:
                fail("entry-grid-alias", "grid_search_hyperparameters: final reconstruction differs between alias and canonical search key",
                     {"max_abs_diff": d}, {"max_abs_diff": 0.0})
    elif entry == "optuna":
        if optuna is None:
            ctx.dist["entry:optuna_missing"] += 1
            return
        k0, d0 = items[0]
        lo, hi = d0 - case["span"], d0 + case["span"]
        rest_a = {k: v for k, v in items[1:]}
        dp = make_dp(case, init_alias)
        dp.optimize_hyperparameters(aberration_coefs={k0: dpm.OptimizationParameter(lo, hi), **rest_a}, n_trials=3,
                                    sampler=optuna.samplers.RandomSampler(seed=case["seed"] % 1000), verbose=False)
        best = dict(dp.hyperparameter_state.study.best_params)
        exp = layer(dict(init_exp), [[k, ["num", "float", float(v)]] for k, v in best.items() if k != "rotation_angle"])
        exp = layer(exp, [[k, ["num", "float", v]] for k, v in items[1:]])
        check_reads(ctx, "entry-optuna-alias", "optimize_hyperparameters: .aberration_coefs after the search does not denote "
                    "initial ⊕ best trial ⊕ fixed entries (every alias under its symbol, defocus = d as C10 = -d)",
                    {**small, "best_params": {k: float(v) for k, v in best.items()}}, dp.aberration_coefs, exp)
    elif entry == "least_squares":
        out = []
        try:
            for form in (alias_form, canon_form):
                dp = make_dp(case, init_alias)
                dp.fit_hyperparameters_least_squares(aberration_coefs=form, cartesian_basis="quadratic", num_q_modes=2, verbose=False)
                out.append(dict(dp.aberration_coefs))
        except Exception as e:  # noqa
            ctx.dist[f"entry:least_squares:raised:{type(e).__name__}"] += 1      # tiny random data: the fit itself may be singular
            return
        ra, rb = reads(out[0]), reads(out[1])
        scale = max(1.0, max(abs(v) for v in rb.values()))
        bad = {s: ra[s] for s in SYMS if not (abs(ra[s] - rb[s]) <= 1e-3 * scale or (ra[s] != ra[s] and rb[s] != rb[s]))}
        if bad:
            fail("entry-least-squares-alias", "fit_hyperparameters_least_squares(aberration_coefs=…): result differs between alias form and "
                 "canonical form of the same prior", bad, {s: rb[s] for s in bad})
    ctx.mark(("entry", entry, tuple(sorted(k for k, _ in items)), bool(case["init"]), case["kernel"] if entry == "reconstruct" else None))
    ctx.sample({"stream": "entry", "entry": entry, "items": items, "init": case["init"]}, limit=2)


# ----------------------------------------------------------------------------------------
# stream mergehist: one tensor-valued prior, used again after a merge

def gen_mergehist_case(rng):
    keys = [s for s in SYMS if rng.chance(0.35)]
    for k in ("C10", "C30", "C50"):
        if rng.chance(0.6) and k not in keys:
            keys.append(k)
    prior = {k: (rng.uniform(-3.0, 3.0) if k.startswith("phi") else rng.uniform(-2.0, 2.0)) for k in rng.shuffle(keys)}

    def delta():
        ks = [l for l in LABELS if rng.chance(0.25)]
        for k in ("C10", "C30", "C50"):
            if rng.chance(0.5) and k not in ks:
                ks.append(k)
        return {k: rng.uniform(-1.0, 1.0) for k in rng.shuffle(ks)}
    return {"stream": "mergehist", "prior": prior, "d1": delta(), "d2": delta(), "dtype": rng.choice(["float64", "float32"]),
            "lam": rng.uniform(0.5, 2.0), "pts": [[rng.uniform(0.1, 1.2), rng.uniform(-3.1, 3.1)] for _ in range(4)]}


def eval_mergehist_case(ctx, drv, case):
    import torch
    from quantem.diffractive_imaging import complex_probe as cp
    dt = getattr(torch, case["dtype"])
    tol = 1e-9 if case["dtype"] == "float64" else 5e-4
    T = lambda v: torch.tensor(v, dtype=dt)  # noqa
    alpha = torch.tensor([p[0] for p in case["pts"]], dtype=torch.float64)
    phi = torch.tensor([p[1] for p in case["pts"]], dtype=torch.float64)
    lam = case["lam"]
    prior = {k: T(v) for k, v in case["prior"].items()}
    prior0 = {k: float(v) for k, v in prior.items()}
    d1 = {k: T(v) for k, v in case["d1"].items()}
    d2 = {k: T(v) for k, v in case["d2"].items()}
    S = lambda d: cp.aberration_surface(alpha, phi, lam, {k: torch.as_tensor(v, dtype=torch.float64) for k, v in d.items()})  # noqa
    chi_prior = S(prior)
    r1 = cp.merge_aberration_coefficients(prior, d1)
    r1_then = {k: float(v) for k, v in r1.items()}
    chi1 = S(r1)
    r2 = cp.merge_aberration_coefficients(prior, d2)          # the same prior again
    fresh2 = cp.merge_aberration_coefficients({k: T(v) for k, v in case["prior"].items()}, {k: T(v) for k, v in case["d2"].items()})
    ctx.count()
    ctx.dist["mergehist"] += 1

    def basis_sum(d):
        if not d:
            return torch.zeros_like(alpha)
        B = cp.aberration_surface_cartesian_basis(alpha, phi, lam, list(d.keys()))
        return (B * torch.stack([v.to(torch.float64) for v in d.values()])).sum(-1)

    def differ(a, b):
        s = max(1.0, float(b.abs().max()))
        d = float((a - b).abs().max())
        return (not d <= 10 * tol * s), d
    # the surface of the prior is still the surface it had; the second merge adds its deltas to THAT surface;
    # the first result still describes prior + δ1
    checks = [("prior-after-merge", S(prior), chi_prior), ("second-merge", S(r2), chi_prior + basis_sum(d2)),
              ("first-result-after-second-merge", S(r1), chi_prior + basis_sum(d1)), ("first-result-stable", S(r1), chi1)]
    for name, got, want in checks:
        bad, dd = differ(got, want)
        if bad:
            ctx.pred_fail("merge-history", f"merge_aberration_coefficients, same prior used twice: {name}: the surface differs from "
                          "surface(prior) + Σ δ_l·basis_l", case, observed={"surface": got.tolist(), "max_diff": dd,
                          "prior_now": {k: float(v) for k, v in prior.items()}}, required={"surface": want.tolist(), "prior": prior0})
            break
    # model: two independent merges of the same prior
    ms = drv.ask_many([{"op": "merge", "init": base.enc_dict(prior0), "delta": base.enc_dict({k: float(v) for k, v in dd_.items()})}
                       for dd_ in (d1, d2)])
    for name, impl, mod in (("merge#1", r1_then, ms[0]), ("merge#2 (same prior)", {k: float(v) for k, v in r2.items()}, ms[1])):
        if "ok" not in mod:
            raise RuntimeError(f"driver error {mod}")
        if list(impl.keys()) != [k for k, _ in mod["ok"]]:
            ctx.disagree("mergehist", case, [k for k, _ in mod["ok"]], list(impl.keys()), note=f"{name}: keys")
        else:
            base.check_polar(ctx, "mergehist", name, case, impl, {k: b2f(v) for k, v in mod["ok"]}, tol)
    ctx.mark(("mergehist", case["dtype"], tuple(k for k in ("C10", "C30", "C50") if k in case["prior"]),
              tuple(k for k in ("C10", "C30", "C50") if k in case["d1"]), bool(case["d2"])))


EVAL = {"pphist": eval_pphist_case, "hstate": eval_hstate_case, "entry": eval_entry_case, "mergehist": eval_mergehist_case}


F = lambda x: ["num", "float", float(x)]  # noqa

# literal witnesses, run first on every run: the `_counterexample` of Props/C12.lean (stale top-level report), a
# rejected-part-way assignment between valid ones on a real ProbePixelated, a zero that overrides a stored value
LITERALS = [
    {"stream": "pphist", "real": False, "max_order": 1, "history": [[["defocus", F(100)]], [["C10", F(-200)]]]},
    {"stream": "pphist", "real": True, "max_order": 5, "history": [
        [["energy", F(300e3)], ["semiangle_cutoff", F(20)], ["defocus", F(100)]],
        [["defocus", F(250)], ["astigmatism", ["bad", "word"]]],
        [["defocus", F(250)], ["defocuss", F(1)]],
        [["aberration_coefs", {"d": [["defocus", F(300)], ["coma", ["bad", "list"]]]}]],
        [["astigmatism", F(5)]]]},
    {"stream": "hstate", "initial": [["defocus", F(120)]], "ops": [
        {"t": "current", "o": [["defocus", F(0.0)]]}, {"t": "current", "o": [["defocus", ["num", "float", -0.0]]]},
        {"t": "current", "o": [["C10", ["num", "int", 0]]]}, {"t": "current", "o": [["defocus", ["bad", "word"]]]},
        {"t": "search_grid", "opt": [["defocus", -100.0, 100.0, 3]], "fixed": [["astigmatism", F(7)]], "pick": 1, "rot": None},
        {"t": "current", "o": None}]},
    {"stream": "mergehist", "prior": {"C10": 1.5, "C12": 0.5, "phi12": 0.25, "C30": -0.75, "C50": 0.125}, "d1": {"C10": 0.25, "C12_a": 0.125},
     "d2": {"C30": 0.5, "C10": -0.125, "C50": 1.0}, "dtype": "float64", "lam": 1.0, "pts": [[0.5, 0.25], [1.0, -2.0], [0.75, 3.0], [0.25, 1.0]]},
]


def run(ctx, drv):
    for lit in LITERALS:
        EVAL[lit["stream"]](ctx, drv, lit)
    n_pp, n_h, n_e, n_m = ctx.n(260, 8000), ctx.n(160, 5000), ctx.n(30, 240), ctx.n(60, 2000)
    for i in range(n_pp):
        eval_pphist_case(ctx, drv, gen_pphist_case(ctx.rng.fork(300000 + i)))
    for i in range(n_h):
        eval_hstate_case(ctx, drv, gen_hstate_case(ctx.rng.fork(400000 + i)))
    for i in range(n_e):
        eval_entry_case(ctx, drv, gen_entry_case(ctx.rng.fork(500000 + i), i))
    for i in range(n_m):
        eval_mergehist_case(ctx, drv, gen_mergehist_case(ctx.rng.fork(600000 + i)))
    ctx.extra.setdefault("case_counts", {}).update({"pphist": n_pp, "hstate": n_h, "entry": n_e, "mergehist": n_m})
