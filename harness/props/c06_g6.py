"""C06, growth round 6 — FIXED blocks (independent of VERIF_SEED) that enumerate the round-6 input classes.

  fixed-exact   hand-enumerated bin / pad→crop / crop cases run through `c06.check_exact_case` (statement clauses with the exact
                block oracle + equality with the Lean model at Rat): axis lengths 1 … 300 around 127/128/129 and 255/256/257 with
                factors 1, 2, 3, n//2, n//2+1, n-1, n (one block), n+1 and 2n (empty result); narrow integer dtypes filled with
                their extreme values (block sums far outside the input dtype); axes in non-ascending / negative order with a
                DIFFERENT factor per axis on H > W and H < W arrays; negative and mixed-sign origins / samplings; pad to output
                shapes with odd / even differences on each axis and a smaller target on one axis; crops with negative stops
  fixed-float   fourier_resample cases run through `c06.check_float_case` (dense-DFT oracle, mean / centre / extent / linearity /
                identity / round trip + the Lean model at Float): datasets of DIFFERENT shapes resampled onto ONE output shape one
                after the other within the process (each case makes 4–5 calls), every case run twice in a row, axes=(1,0) with
                different lengths per axis, H > W and H < W, lengths 127/128/129/255/256/257/300 up and down
  session       one dataset with negative / descending calibration: the same call twice, the call with the (axis, parameter) pairs
                in another order, the in-place form twice (the second is the identity / a further binning) against the copying
                form; every result judged against the oracle from the data held before, calibration against the Lean model (Rat)
"""
import warnings
from fractions import Fraction

import numpy as np

from props.c03 import arr_json, err_name, fj, fr, kind_of, num_close

NARROW = {"uint8": (0, 255), "int8": (-128, 127), "uint16": (0, 65535), "int16": (-32768, 32767)}
DT_CYCLE = ["uint8", "int8", "float64", "uint16", "int16", "complex128", "float32", "int32", "bool", "int64"]


def fixed_array(shape, dtype, k):
    """deterministic data: narrow integer dtypes are filled with their extremes (k selects all-max / all-min / alternating)"""
    n = int(np.prod(shape))
    idx = np.arange(n, dtype=np.int64)
    if dtype in NARROW:
        lo, hi = NARROW[dtype]
        if k % 3 == 0 or lo == 0:
            v = hi - (idx % 3)
        elif k % 3 == 1:
            v = lo + (idx % 3)
        else:
            v = np.where(idx % 2 == 0, hi - (idx % 5), lo + (idx % 7))
        return v.reshape(shape).astype(dtype)
    if dtype == "bool":
        return ((idx * 7 + k) % 3 != 0).reshape(shape)
    re = ((idx * 7 + 3 * k) % 19) - 9
    if dtype.startswith("complex"):
        return (re + 1j * (((idx * 5 + k) % 13) - 6)).reshape(shape).astype(dtype)
    return re.reshape(shape).astype(dtype)


CALIBS = [  # (origin per axis, sampling per axis) — dyadic, every sign pattern
    lambda nd: ([Fraction(-5, 2) + k for k in range(nd)], [Fraction(-(k + 1), 4) for k in range(nd)]),           # all negative samplings
    lambda nd: ([Fraction(7 - 3 * k) for k in range(nd)], [Fraction((-1) ** k * (k + 2), 2) for k in range(nd)]),  # alternating signs
    lambda nd: ([Fraction(-9, 4)] * nd, [Fraction(3, 4)] * nd),
    lambda nd: ([Fraction(k, 2) for k in range(nd)], [Fraction(-3)] * nd),
]


def mk_new(a, dtype, k, cls="Dataset", layout="C"):
    o, s = CALIBS[k % len(CALIBS)](a.ndim)
    return {"op": "new", "cls": cls, "array": dict(arr_json(a), layout=layout), "dtype": dtype,
            "origin": {"l": [fj(v) for v in o]}, "sampling": {"l": [fj(v) for v in s]}, "units": {"l": ["nm"] * a.ndim}}


def fixed_exact_cases():
    cases = []
    k = 0
    # --- 1-D binning around the thresholds
    for n in [1, 2, 3, 7, 8, 9, 127, 128, 129, 255, 256, 257, 300]:
        for f in sorted({1, 2, 3, n // 2, n // 2 + 1, n - 1, n, n + 1, 2 * n}):
            if f < 1:
                continue
            dtype = DT_CYCLE[k % len(DT_CYCLE)]
            a = fixed_array([n], dtype, k)
            op = {"op": "bin", "f": {"one": f} if k % 2 else {"many": [f]}, "axes": [None, {"one": 0}, {"many": [-1]}][k % 3],
                  "mean": k % 4 == 3, "inplace": k % 3 == 1}
            cases.append({"stream": "exact", "new": mk_new(a, dtype, k), "kind": "bin", "op": op, "fixed": True, "extreme": dtype in NARROW})
            k += 1
    # --- N-D binning: axes order / sign, a different factor per axis, H > W and H < W
    nd_cfg = [
        ([3, 7], [1, 0], [3, 2]), ([3, 7], [-1, 0], [2, 3]), ([7, 3], [1, 0], [3, 2]), ([7, 3], [-1, -2], [1, 3]), ([7, 3], [0, -1], [3, 1]),
        ([2, 130], [1, 0], [128, 2]), ([130, 2], [-2, 1], [129, 2]), ([2, 130], [-1], [65]), ([130, 2], [0], [131]),
        ([5, 5], [1, 0], [2, 5]), ([5, 5], [0, 1], [5, 2]), ([1, 6], [1, 0], [4, 1]), ([6, 1], [1, 0], [1, 4]), ([4, 9], [-1, 0], [4, 3]), ([9, 4], [1, -2], [3, 4]),
        ([2, 3, 4], [2, 0], [3, 2]), ([4, 3, 2], [-1, 0, 1], [2, 3, 2]), ([2, 3, 4, 5], [3, 1, 0], [5, 2, 2]), ([5, 4, 3, 2], [-1, -3], [2, 3]),
        ([3, 260], [1, 0], [256, 3]), ([260, 3], [0], [255]),
    ]
    for shape, axes, fs in nd_cfg:
        for rep in range(2):
            dtype = DT_CYCLE[k % len(DT_CYCLE)]
            a = fixed_array(shape, dtype, k)
            cls = {2: "Dataset2d", 3: "Dataset3d", 4: "Dataset4dstem"}[len(shape)] if k % 3 == 0 else "Dataset"
            op = {"op": "bin", "f": {"many": fs}, "axes": {"many": axes} if len(axes) > 1 or k % 2 else {"one": axes[0]},
                  "mean": rep == 1 and k % 2 == 0, "inplace": (k + rep) % 2 == 0}
            cases.append({"stream": "exact", "new": mk_new(a, dtype, k, cls=cls, layout=["C", "F", "T", "flip"][k % 4] if len(shape) > 1 else "C"),
                          "kind": "bin", "op": op, "fixed": True, "extreme": dtype in NARROW})
            k += 1
    # --- pad to an output shape, then crop the pad widths
    pc = [([1], [1]), ([1], [2]), ([2], [5]), ([3], [8]), ([8], [9]), ([8], [11]), ([9], [12]), ([9], [8]), ([127], [128]), ([128], [131]),
          ([3, 7], [8, 7]), ([3, 7], [4, 12]), ([3, 7], [6, 10]), ([7, 3], [7, 8]), ([7, 3], [12, 4]), ([7, 3], [10, 6]), ([3, 7], [2, 10]), ([7, 3], [10, 2]),
          ([2, 3, 4], [3, 3, 9]), ([4, 3, 2], [9, 3, 3]), ([2, 2, 2, 2], [3, 2, 5, 4])]
    for shape, out in pc:
        for ip in (False, True):
            dtype = DT_CYCLE[k % len(DT_CYCLE)]
            a = fixed_array(shape, dtype, k)
            cases.append({"stream": "exact", "new": mk_new(a, dtype, k), "kind": "padcrop", "op": {"op": "pad", "arg": {"out": out}, "inplace": ip}, "fixed": True})
            k += 1
    # --- crop: negative stops, per-axis widths that differ, axes in descending order
    cr = [([5, 8], {"many": [1, 0]}, [[1, -2], [2, 5]]), ([8, 5], {"many": [1, 0]}, [[2, 5], [1, -2]]), ([8, 5], {"many": [-1, 0]}, [[0, -1], [3, 8]]),
          ([5, 8], None, [[0, -4], [7, 8]]), ([9], {"one": 0}, [[4, -4]]), ([9], {"one": -1}, [[0, 9]]), ([2, 3, 4], {"many": [2, 0]}, [[1, -1], [1, 2]])]
    for shape, axes, ws in cr:
        for ip in (False, True):
            dtype = DT_CYCLE[k % len(DT_CYCLE)]
            a = fixed_array(shape, dtype, k)
            cases.append({"stream": "exact", "new": mk_new(a, dtype, k), "kind": "crop", "op": {"op": "crop", "widths": ws, "axes": axes, "inplace": ip}, "fixed": True})
            k += 1
    return cases


def fixed_float_cases():
    cases = []
    k = 0

    def add(shape, axes, outs, dtype, mode="out_shape", neg=False, ip=False, values="random", twice=True):
        nonlocal k
        c = {"stream": "float", "shape": list(shape), "axes": list(axes), "outs": list(outs), "dtype": dtype, "seed": 1000 + 3 * k + 1, "mode": mode,
             "neg_axes": neg, "inplace": ip, "values": values, "route": "float" if k % 3 else "int_tuple", "layout": ["C", "F", "T"][k % 3], "fixed": True}
        cases.append(c)
        if twice:
            cases.append(dict(c))
        k += 1
    # datasets of different shapes, one target shape (6, 7), then the transposed target through axes=(1, 0)
    for i, sh in enumerate([(5, 8), (8, 5), (6, 7), (7, 6), (3, 9), (9, 3), (6, 6), (12, 2), (2, 12)]):
        add(sh, [0, 1], [6, 7], ["float64", "complex128"][i % 2], ip=i % 3 == 2)
        add(sh, [1, 0], [7, 6], ["complex128", "float64"][i % 2], neg=i % 2 == 1, twice=False)
        add(sh, [1, 0], [6, 7], "float64", mode=["out_shape", "factors"][i % 2], twice=False)
    # one axis only, the other one of a different length
    for sh in [(4, 9), (9, 4)]:
        add(sh, [1], [6], "float64", twice=False)
        add(sh, [0], [6], "complex128", neg=True, twice=False)
    # thresholds, up and down, odd <-> even
    for i, (n, m) in enumerate([(127, 128), (128, 127), (128, 129), (129, 128), (255, 256), (256, 255), (256, 257), (257, 256), (128, 256), (256, 128),
                                (255, 127), (100, 300), (300, 100), (256, 1), (1, 256), (257, 257)]):
        add([n], [0], [m], ["float64", "complex128", "float32"][i % 3], twice=False, values=["random", "int-valued", "delta"][i % 3])
    # unchanged shape on integer / bool data (a "nothing to do" shortcut must still return float data), one axis unchanged of two
    add([4, 5], [0, 1], [4, 5], "int32", twice=False, values="int-valued")
    add([5, 4], [1, 0], [4, 5], "uint8", twice=False, values="int-valued")
    add([6], [0], [6], "bool", twice=False)
    add([4, 5], [1, 0], [5, 8], "int64", twice=False)
    add([2, 130], [1, 0], [128, 3], "float64", twice=False)
    add([130, 2], [0, 1], [128, 3], "complex128", twice=False)
    add([3, 2, 5], [2, 0], [4, 6], "float64", twice=False)
    add([5, 2, 3], [0, 2], [4, 6], "complex128", neg=True, twice=False)
    return cases


SESSIONS = [
    # shape, dtype, axes as given, out lengths per given axis, bin factors per given axis, calibration class
    ([5, 8], "float64", [1, 0], [6, 7], [2, 5], 0),
    ([8, 5], "float64", [1, 0], [7, 6], [5, 2], 1),
    ([8, 5], "complex128", [-1, 0], [4, 12], [3, 3], 0),
    ([6, 9], "int32", [1, -2], [9, 6], [4, 2], 3),
    ([4, 3, 5], "float64", [2, 0], [8, 3], [2, 3], 1),
    ([9], "float64", [0], [4], [4], 0),
    ([9], "complex128", [-1], [16], [9], 3),
    ([130, 3], "float32", [0, 1], [128, 4], [128, 2], 1),
]


def _cal(res):
    return [fr(float(v)) for v in res.origin], [fr(float(v)) for v in res.sampling]


def check_session(ctx, drv, case):
    from quantem.core.datastructures import Dataset
    from props import c06_more
    warnings.simplefilter("ignore")
    shape, dtype, axes, outs, fs, ck = SESSIONS[case["idx"]]
    nd = len(shape)
    o0, s0 = CALIBS[ck](nd)
    g = np.random.default_rng(4242 + case["idx"])
    if np.dtype(dtype).kind == "i":
        x = g.integers(-9, 10, size=shape).astype(dtype)
    elif np.dtype(dtype).kind == "c":
        x = (g.integers(-9, 10, size=shape) + 1j * g.integers(-9, 10, size=shape)).astype(dtype)
    else:
        x = g.integers(-9, 10, size=shape).astype(dtype)       # integer-valued: bin is exact in every float dtype

    def mk():
        return Dataset.from_array(x.copy(), origin=[float(v) for v in o0], sampling=[float(v) for v in s0])
    ax_n = [a % nd for a in axes]
    perm = list(reversed(range(len(axes))))
    ctx.count()
    ctx.dist["session:cases"] += 1
    ctx.mark(("session", nd, np.dtype(dtype).kind, tuple(axes), tuple(outs)))

    def guarded(what, fn):
        try:
            return fn()
        except Exception as e:  # noqa
            ctx.pred_fail("session-raises", f"valid call raised {err_name(e)} ({what})", dict(case, step=what), observed=err_name(e), required="result")
            return None

    # ---- fourier_resample: same call twice, permuted (axis, length) pairs, in place twice
    ds = mk()
    results = []
    for what, kw in [("first", dict(out_shape=tuple(outs), axes=tuple(axes))), ("repeated", dict(out_shape=tuple(outs), axes=tuple(axes))),
                     ("pairs-permuted", dict(out_shape=tuple(outs[i] for i in perm), axes=tuple(axes[i] for i in perm))),
                     ("axes-normalised", dict(out_shape=tuple(outs), axes=tuple(ax_n)))]:
        r = guarded("resample " + what, lambda: ds.fourier_resample(**kw))
        if r is None:
            return
        c06_more.judge_resample(ctx, dict(case, step="resample " + what), ax_n, outs, x, o0, s0, r, pfx=f"[{what}] ")
        results.append(r)
    dsi = mk()
    if guarded("resample in place", lambda: dsi.fourier_resample(out_shape=tuple(outs), axes=tuple(axes), modify_in_place=True) or True) is None:
        return
    c06_more.judge_resample(ctx, dict(case, step="resample in place"), ax_n, outs, x, o0, s0, dsi, pfx="[in place] ")
    held = np.array(dsi.array, copy=True)
    o1, s1 = _cal(dsi)
    if guarded("resample in place again", lambda: dsi.fourier_resample(out_shape=tuple(outs), axes=tuple(axes), modify_in_place=True) or True) is None:
        return
    # the second in-place call finds the requested shape already: identity clause, judged against the data it held
    c06_more.judge_resample(ctx, dict(case, step="resample in place again (unchanged shape)"), ax_n, outs, held, o1, s1, dsi, pfx="[in place again] ")
    # calibration vs the Lean model (exact): pairs in the given order
    new = {"op": "new", "cls": "Dataset", "array": {"shape": shape, "kind": kind_of(x.dtype), "re": None, "im": None},
           "origin": {"l": [fj(v) for v in o0]}, "sampling": {"l": [fj(v) for v in s0]}, "units": None}
    ans = drv.ask({"op": "exact", "new": new, "ops": [{"op": "resample", "arg": {"out": outs}, "axes": {"many": axes}, "inplace": True}]})
    if "err" in ans:
        raise RuntimeError(f"driver error {ans}")
    m = ans["ok"][-1]["recv"]
    for key, got in (("origin", results[0].origin), ("sampling", results[0].sampling)):
        eq, dist = num_close(m[key], [fj(fr(float(v))) for v in got], 0)
        if not eq and dist > 1e-12:
            ctx.disagree("session", dict(case, step="resample calibration"), {key: m[key]}, {key: [float(v) for v in got]}, note=f"calibration {key}")
    # ---- bin: same call twice, permuted pairs, in place twice vs the copying chain (exact data)
    if np.dtype(dtype).itemsize // (2 if np.dtype(dtype).kind == "c" else 1) >= 4:
        op = {"op": "bin", "f": {"many": fs}, "axes": {"many": axes}, "mean": False}
        opp = {"op": "bin", "f": {"many": [fs[i] for i in perm]}, "axes": {"many": [axes[i] for i in perm]}, "mean": False}
        dsb = mk()
        for what, o_ in [("first", op), ("repeated", op), ("pairs-permuted", opp)]:
            r = guarded("bin " + what, lambda: dsb.bin(tuple(o_["f"]["many"]), axes=tuple(o_["axes"]["many"])))
            if r is None:
                return
            c06_more.judge_bin(ctx, dict(case, step="bin " + what), o_, x, o0, s0, r, pfx=f"[{what}] ")
        rm = guarded("bin mean", lambda: dsb.bin(tuple(fs), axes=tuple(axes), reducer="mean"))
        if rm is not None and np.prod(fs) & (np.prod(fs) - 1) == 0:
            c06_more.judge_bin(ctx, dict(case, step="bin mean"), dict(op, mean=True), x, o0, s0, rm, pfx="[mean] ")
        # small factors twice in place == the copying chain, each step judged against the data held before it
        f2 = [2 if shape[a] >= 4 else 1 for a in ax_n]
        op2 = {"op": "bin", "f": {"many": f2}, "axes": {"many": axes}, "mean": False}
        dsi = mk()
        cur, co, cs = x, o0, s0
        for rep in range(2):
            if guarded(f"bin in place #{rep + 1}", lambda: dsi.bin(tuple(f2), axes=tuple(axes), modify_in_place=True) or True) is None:
                return
            c06_more.judge_bin(ctx, dict(case, step=f"bin in place #{rep + 1}"), op2, cur, co, cs, dsi, pfx=f"[in place #{rep + 1}] ")
            cur = np.array(dsi.array, copy=True)
            co, cs = _cal(dsi)
        ans = drv.ask({"op": "exact", "new": dict(new, array=arr_json(x)), "ops": [dict(op, inplace=True, follow=False)]})
        if "err" in ans:
            raise RuntimeError(f"driver error {ans}")
        m = ans["ok"][-1]["recv"]
        rb = mk().bin(tuple(fs), axes=tuple(axes))
        for key, got in (("origin", rb.origin), ("sampling", rb.sampling)):
            eq, dist = num_close(m[key], [fj(fr(float(v))) for v in got], 0)
            if not eq:
                ctx.disagree("session", dict(case, step="bin calibration"), {key: m[key]}, {key: [float(v) for v in got]}, note=f"bin calibration {key}")
    # ---- pad to an output shape in place twice (the second pads nothing), then crop the pad widths
    out = [n + 1 + 2 * k for k, n in enumerate(shape)]
    dsp = mk()
    for rep in range(2):
        if guarded(f"pad in place #{rep + 1}", lambda: dsp.pad(output_shape=tuple(out), modify_in_place=True) or True) is None:
            return
        if list(dsp.array.shape) != out:
            ctx.pred_fail("pad-output-shape", f"pad(output_shape) #{rep + 1} did not produce the requested output shape", dict(case, step="pad"),
                          observed=list(dsp.array.shape), required=out)
            return
    widths = [((o_ - n) // 2, -((n - o_) // 2)) for o_, n in zip(out, shape)]
    back = guarded("crop of the pad widths", lambda: dsp.crop(tuple((b, -a) for b, a in widths)))
    if back is not None and (back.array.shape != x.shape or not np.array_equal(back.array, x)):
        ctx.pred_fail("pad-crop-roundtrip", "pad(output_shape) (twice, in place) followed by cropping the pad widths does not return the original data",
                      dict(case, step="padcrop"), observed={"shape": list(back.array.shape)}, required={"shape": shape})


def run_fixed(ctx, drv):
    """fixed blocks: the same cases for every VERIF_SEED (in the failing-input search they run once, too)"""
    from props import c06
    warnings.simplefilter("ignore")
    ex = fixed_exact_cases()
    fl = fixed_float_cases()
    for case in ex:
        c06.check_exact_case(ctx, drv, case)
    for case in fl:
        c06.check_float_case(ctx, drv, case)
    for i in range(len(SESSIONS)):
        check_session(ctx, drv, {"stream": "session", "idx": i})
    ctx.extra["fixed_blocks"] = {"exact": len(ex), "float": len(fl), "session": len(SESSIONS)}
